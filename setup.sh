#!/bin/bash
# Offline setup: nothing to build (pure Python harness); verify the interpreter, the working tree import and tools.
set -e
cd "$(dirname "$0")"
mkdir -p evidence replays
PYTHONPATH=/verif:${VERIF_REPO:-/repo}/src:/verif/shims PYTHONHASHSEED=0 /venv/bin/python -c "
from mcv import env; env.guard(); import srctools; print('srctools', srctools.__file__)"
echo setup ok
