"""File-system operation interposer for crash-point, fault and interleaving exploration.

Wraps io.open / os.mkdir / os.replace / os.unlink (what pathlib calls on Python 3.12) and proxies the
file objects they return, for paths under one watched directory.  Every intercepted call is a
*scheduling point*: the controller may (a) record it, (b) take a directory snapshot before/after it,
(c) raise an injected OSError instead of performing it, (d) block the calling thread until the
scheduler hands it the baton.
"""
from __future__ import annotations

import builtins
import errno
import hashlib
import io
import os
import threading
from typing import Any, Callable, Optional

_real_open = io.open
_real_mkdir = os.mkdir
_real_replace = os.replace
_real_unlink = os.unlink
_real_rename = os.rename
_real_remove = os.remove
_real_osopen = os.open
_real_fsync = os.fsync
_real_osclose = os.close


def dir_snapshot(root: str) -> dict:
    """{relative path: sha1 of on-disk bytes} - what a process kill at this instant would leave."""
    out = {}
    for base, _dirs, files in os.walk(root):
        for f in files:
            p = os.path.join(base, f)
            with _real_open(p, 'rb') as fp:
                out[os.path.relpath(p, root)] = hashlib.sha1(fp.read()).hexdigest()
    return out


class Controller:
    """Receives every intercepted operation.  Subclass / configure per exploration mode."""

    def __init__(self, root: str) -> None:
        self.root = os.path.realpath(root)
        self.log: list[tuple] = []          # (actor, op, relpath-or-detail)
        self.fault_at: Optional[int] = None  # index into the log at which to raise instead of performing
        self.fault_exc: Optional[Callable[[], BaseException]] = None
        self.fault_fired = False
        self.snapshots: Optional[list] = None  # if a list: snapshot after every op
        self.on_point: Optional[Callable[[str, str, str], None]] = None   # scheduler hook, called before each op
        self.actor = threading.local()
        self.owners: dict[str, str] = {}     # temp path -> actor that created it exclusively
        self.clobbers: list[str] = []
        self.lock = threading.Lock()

    def who(self) -> str:
        return getattr(self.actor, 'name', 'main')

    def watched(self, path: Any) -> bool:
        try:
            p = os.path.realpath(os.fspath(path))
        except TypeError:
            return False
        return p == self.root or p.startswith(self.root + os.sep)

    def rel(self, path: Any) -> str:
        return os.path.relpath(os.path.realpath(os.fspath(path)), self.root)

    def point(self, op: str, detail: str) -> None:
        """Called before performing an operation: scheduling point, then possible fault."""
        who = self.who()
        if self.on_point is not None:
            self.on_point(who, op, detail)
        with self.lock:
            idx = len(self.log)
            self.log.append((who, op, detail))
        if self.fault_at is not None and idx == self.fault_at and not self.fault_fired:
            self.fault_fired = True
            assert self.fault_exc is not None
            raise self.fault_exc()

    def done(self, op: str, detail: str) -> None:
        if self.snapshots is not None:
            self.snapshots.append((len(self.log), op, detail, dir_snapshot(self.root)))

    # ownership monitor -------------------------------------------------------------------
    def note_created(self, rel: str) -> None:
        self.owners[rel] = self.who()

    def note_touch(self, op: str, rel: str) -> None:
        owner = self.owners.get(rel)
        if owner is not None and owner != self.who():
            self.clobbers.append(f'{self.who()} performed {op} on {rel} created by {owner}')


class FileProxy:
    """Proxy around a real file object whose mutating calls are intercepted."""

    def __init__(self, ctl: Controller, real: Any, rel: str) -> None:
        self._ctl = ctl
        self._real = real
        self._rel = rel
        self.name = real.name

    def write(self, data: Any) -> int:
        self._ctl.point('write', f'{self._rel}:{len(data)}')
        n = self._real.write(data)
        self._ctl.done('write', self._rel)
        return n

    def seek(self, *a: Any) -> int:
        self._ctl.point('seek', f'{self._rel}:{a[0]}')
        r = self._real.seek(*a)
        self._ctl.done('seek', self._rel)
        return r

    def tell(self) -> int:
        return self._real.tell()

    def flush(self) -> None:
        self._ctl.point('flush', self._rel)
        self._real.flush()
        self._ctl.done('flush', self._rel)

    def close(self) -> None:
        if self._real.closed:
            return
        try:
            self._ctl.point('close', self._rel)
        except BaseException:
            # a failing close still releases the descriptor (as CPython's buffered close does)
            try:
                self._real.close()
            except Exception:  # noqa: BLE001
                pass
            raise
        self._real.close()
        self._ctl.done('close', self._rel)

    @property
    def closed(self) -> bool:
        return self._real.closed

    def __enter__(self) -> 'FileProxy':
        return self

    def __exit__(self, *exc: Any) -> None:
        self.close()

    def __getattr__(self, item: str) -> Any:
        return getattr(self._real, item)


class Interposer:
    """Context manager installing the wrappers."""

    def __init__(self, ctl: Controller) -> None:
        self.ctl = ctl

    def __enter__(self) -> Controller:
        ctl = self.ctl

        def w_open(file: Any, mode: str = 'r', *a: Any, **kw: Any) -> Any:
            if not isinstance(file, int) and ctl.watched(file) and any(c in mode for c in 'wxa+'):
                rel = ctl.rel(file)
                ctl.point('open', f'{rel}:{mode}')
                if 'x' not in mode:
                    ctl.note_touch('open', rel)      # an exclusive open that fails touches nothing
                real = _real_open(file, mode, *a, **kw)
                if 'x' in mode:
                    ctl.note_created(rel)
                ctl.done('open', rel)
                return FileProxy(ctl, real, rel)
            return _real_open(file, mode, *a, **kw)

        def w_mkdir(path: Any, *a: Any, **kw: Any) -> None:
            if ctl.watched(path):
                ctl.point('mkdir', ctl.rel(path))
                _real_mkdir(path, *a, **kw)
                ctl.done('mkdir', ctl.rel(path))
            else:
                _real_mkdir(path, *a, **kw)

        def w_replace(src: Any, dst: Any, *a: Any, **kw: Any) -> None:
            if ctl.watched(src) or ctl.watched(dst):
                ctl.point('replace', f'{ctl.rel(src)}->{ctl.rel(dst)}')
                ctl.note_touch('replace', ctl.rel(src))
                _real_replace(src, dst, *a, **kw)
                ctl.owners.pop(ctl.rel(src), None)
                ctl.done('replace', ctl.rel(dst))
            else:
                _real_replace(src, dst, *a, **kw)

        def w_unlink(path: Any, *a: Any, **kw: Any) -> None:
            if ctl.watched(path):
                ctl.point('unlink', ctl.rel(path))
                ctl.note_touch('unlink', ctl.rel(path))
                _real_unlink(path, *a, **kw)
                ctl.owners.pop(ctl.rel(path), None)
                ctl.done('unlink', ctl.rel(path))
            else:
                _real_unlink(path, *a, **kw)

        # further file-system entry points the code under check does not use today: were it to start using one (a rename through
        # os.rename / shutil.move, a descriptor-level open, an fsync) each call is an operation boundary and a fault point like the others
        fds: dict = {}

        def w_rename(src: Any, dst: Any, *a: Any, **kw: Any) -> None:
            if ctl.watched(src) or ctl.watched(dst):
                ctl.point('rename', f'{ctl.rel(src)}->{ctl.rel(dst)}')
                ctl.note_touch('rename', ctl.rel(src))
                _real_rename(src, dst, *a, **kw)
                ctl.owners.pop(ctl.rel(src), None)
                ctl.done('rename', ctl.rel(dst))
            else:
                _real_rename(src, dst, *a, **kw)

        def w_remove(path: Any, *a: Any, **kw: Any) -> None:
            if ctl.watched(path):
                ctl.point('remove', ctl.rel(path))
                ctl.note_touch('remove', ctl.rel(path))
                _real_remove(path, *a, **kw)
                ctl.owners.pop(ctl.rel(path), None)
                ctl.done('remove', ctl.rel(path))
            else:
                _real_remove(path, *a, **kw)

        def w_osopen(path: Any, flags: int, *a: Any, **kw: Any) -> int:
            if not isinstance(path, int) and ctl.watched(path):
                ctl.point('os.open', f'{ctl.rel(path)}:{flags:#x}')
                fd = _real_osopen(path, flags, *a, **kw)
                fds[fd] = ctl.rel(path)
                ctl.done('os.open', ctl.rel(path))
                return fd
            return _real_osopen(path, flags, *a, **kw)

        def w_fsync(fd: Any) -> None:
            if fd in fds:
                ctl.point('fsync', fds[fd])
                _real_fsync(fd)
                ctl.done('fsync', fds[fd])
            else:
                _real_fsync(fd)

        def w_osclose(fd: int) -> None:
            fds.pop(fd, None)
            _real_osclose(fd)

        self._saved = (io.open, builtins.open, os.mkdir, os.replace, os.unlink, os.rename, os.remove, os.open, os.fsync, os.close)
        io.open = w_open
        builtins.open = w_open
        os.mkdir = w_mkdir
        os.replace = w_replace
        os.unlink = w_unlink
        os.rename = w_rename
        os.remove = w_remove
        os.open = w_osopen
        os.fsync = w_fsync
        os.close = w_osclose
        return ctl

    def __exit__(self, *exc: Any) -> None:
        (io.open, builtins.open, os.mkdir, os.replace, os.unlink, os.rename, os.remove, os.open, os.fsync, os.close) = self._saved


def make_oserror(code: int) -> Callable[[], BaseException]:
    def mk() -> BaseException:
        return OSError(code, os.strerror(code) + ' (injected)')
    return mk


FAULTS = {
    'ENOSPC': make_oserror(errno.ENOSPC),
    'EACCES': make_oserror(errno.EACCES),
    'EIO': make_oserror(errno.EIO),
}
