"""Finite enumerators shared by the checks.  Each yields every element of its space exactly once."""
from __future__ import annotations
import itertools
from typing import Iterator, Sequence, TypeVar

T = TypeVar('T')


def strings(alphabet: Sequence[str], max_len: int, min_len: int = 0) -> Iterator[str]:
    """All strings over alphabet with min_len <= length <= max_len, shortest first."""
    for n in range(min_len, max_len + 1):
        for tup in itertools.product(alphabet, repeat=n):
            yield ''.join(tup)


def count_strings(k: int, max_len: int, min_len: int = 0) -> int:
    return sum(k ** n for n in range(min_len, max_len + 1))


def compositions(s: Sequence[T]) -> Iterator[list]:
    """All 2^(n-1) ways to cut s into non-empty consecutive chunks (one way for the empty sequence)."""
    n = len(s)
    if n == 0:
        yield []
        return
    for mask in range(1 << (n - 1)):
        out = []
        start = 0
        for i in range(n - 1):
            if mask >> i & 1:
                out.append(s[start:i + 1])
                start = i + 1
        out.append(s[start:])
        yield out


def subsets_upto(items: Sequence[T], k: int) -> Iterator[tuple]:
    for r in range(0, k + 1):
        yield from itertools.combinations(items, r)


def trees(n_nodes: int) -> Iterator[tuple]:
    """All ordered forests with exactly n_nodes nodes; a forest is a tuple of trees, a tree is the
    tuple of its child trees."""
    if n_nodes == 0:
        yield ()
        return
    # first tree has k nodes (1..n), rest is a forest of n-k
    for k in range(1, n_nodes + 1):
        for first_children in trees(k - 1):
            for rest in trees(n_nodes - k):
                yield (first_children,) + rest
