"""Shared machinery: accumulators, parallel sharding, known-finding matching, evidence, replay files.

Every check module (checks/cNN.py) exposes

    PROPERTY = 'C07'
    LEVEL    = 'model_checking' | 'exploration' | 'fault_enumeration'
    def run(ctx) -> None          # explores; records results through ctx.acc / ctx.fail
    def replay(case) -> list[Failure-like dicts]   # re-executes one recorded case, returns failures

The verdict protocol (VIOLATION / KNOWN-FINDING lines, exit codes) lives in mcv/main.py.
"""
from __future__ import annotations

import hashlib
import json
import multiprocessing
import os
import shutil
import sys
import time
from typing import Any, Callable, Iterable, Iterator, Optional

VERIF = os.path.dirname(os.path.dirname(os.path.abspath(__file__)))
REPO = os.environ.get('VERIF_REPO', '/repo')
MAX_KEPT_PER_KIND = 40      # failing cases stored per (kind, finding) bucket; all are counted
MAX_OUTCOMES = 200000


def jdump(obj: Any) -> str:
    return json.dumps(obj, sort_keys=True, ensure_ascii=True, default=repr)


def digest(obj: Any) -> str:
    return hashlib.sha1(jdump(obj).encode()).hexdigest()[:16]


class Failure:
    """One failing case.  `kind` names the oracle clause that failed, `sig` carries the fields that
    known-finding predicates may test, `case` is the JSON-able input/history that replays it."""
    __slots__ = ('kind', 'sig', 'case', 'detail', 'size')

    def __init__(self, kind: str, case: Any, detail: str, sig: Optional[dict] = None, size: Optional[int] = None):
        self.kind = kind
        self.case = case
        self.detail = detail[:2000]
        self.sig = dict(sig or {})
        self.size = size if size is not None else len(jdump(case))

    def to_json(self) -> dict:
        return {'kind': self.kind, 'sig': self.sig, 'case': self.case, 'detail': self.detail}

    @classmethod
    def from_json(cls, d: dict) -> 'Failure':
        return cls(d['kind'], d['case'], d.get('detail', ''), d.get('sig'))


class Acc:
    """Mergeable accumulator returned by shard workers."""

    def __init__(self) -> None:
        self.evaluations = 0
        self.nontrivial = 0
        self.counters: dict[str, int] = {}
        self.outcomes: set = set()
        self.fail_counts: dict[str, int] = {}
        self.fails: dict[str, list[Failure]] = {}
        self.samples: list = []
        self.caps: list[str] = []
        self.payload: list = []   # free-form per-shard results (e.g. BFS successors); concatenated by merge

    def count(self, name: str, n: int = 1) -> None:
        self.counters[name] = self.counters.get(name, 0) + n

    def outcome(self, o: Any) -> None:
        if len(self.outcomes) < MAX_OUTCOMES:
            self.outcomes.add(o if isinstance(o, (str, int, tuple)) else jdump(o))

    def sample(self, s: Any, limit: int = 6) -> None:
        if len(self.samples) < limit:
            self.samples.append(s)

    def fail(self, kind: str, case: Any, detail: str, **sig: Any) -> None:
        f = Failure(kind, case, detail, sig)
        self.add_failure(f)

    def add_failure(self, f: Failure) -> None:
        self.fail_counts[f.kind] = self.fail_counts.get(f.kind, 0) + 1
        bucket = self.fails.setdefault(f.kind + '|' + jdump(f.sig), [])
        if len(bucket) < MAX_KEPT_PER_KIND:
            bucket.append(f)
        else:
            # keep the smallest cases
            big = max(range(len(bucket)), key=lambda i: bucket[i].size)
            if bucket[big].size > f.size:
                bucket[big] = f

    def merge(self, other: 'Acc') -> None:
        self.evaluations += other.evaluations
        self.nontrivial += other.nontrivial
        for k, v in other.counters.items():
            self.counters[k] = self.counters.get(k, 0) + v
        if len(self.outcomes) < MAX_OUTCOMES:
            self.outcomes |= other.outcomes
        for k, v in other.fail_counts.items():
            self.fail_counts[k] = self.fail_counts.get(k, 0) + v
        for k, lst in other.fails.items():
            bucket = self.fails.setdefault(k, [])
            bucket.extend(lst)
            if len(bucket) > MAX_KEPT_PER_KIND:
                bucket.sort(key=lambda f: f.size)
                del bucket[MAX_KEPT_PER_KIND:]
        for s in other.samples:
            if len(self.samples) < 12:
                self.samples.append(s)
        self.caps.extend(other.caps)
        self.payload.extend(other.payload)

    def all_failures(self) -> list[Failure]:
        out = [f for lst in self.fails.values() for f in lst]
        out.sort(key=lambda f: (f.size, f.kind, jdump(f.case)))
        return out


# ---------------------------------------------------------------------------------------------
# parallel sharding (fork pool; the shard function is inherited through fork, not pickled)

_SHARD_FN: Optional[Callable[[Any], Acc]] = None


_FUNCCOV: set = set()


def _funccov_profile(frame, event, arg):      # audit aid (tools/api_coverage.py), never active in registered commands
    if event == 'call':
        co = frame.f_code
        fn = co.co_filename
        if '/srctools/' in fn:
            _FUNCCOV.add((fn[fn.index('/srctools/') + 10:], co.co_firstlineno, co.co_qualname if hasattr(co, 'co_qualname') else co.co_name))


def _run_shard(shard: Any) -> Acc:
    assert _SHARD_FN is not None
    import gc
    cov = os.environ.get('VERIF_FUNCCOV')
    if cov:
        sys.setprofile(_funccov_profile)
    try:
        return _SHARD_FN(shard)
    finally:
        if cov:
            sys.setprofile(None)
            with open(f'{cov}.{os.getpid()}', 'w') as f:
                json.dump(sorted(_FUNCCOV), f)
        gc.collect()


def workers() -> int:
    try:
        n = int(os.environ.get('VERIF_WORKERS', '0'))
    except ValueError:
        n = 0
    return n or min(16, os.cpu_count() or 1)


def par_map(fn: Callable[[Any], Acc], shards: Iterable[Any], acc: Acc, nworkers: Optional[int] = None,
            deadline: Optional[float] = None) -> bool:
    """Run fn(shard) for every shard on a fork pool and merge the results into acc.
    Returns True if every shard completed (False if the deadline cut the run short; the cap is
    recorded in acc.caps)."""
    global _SHARD_FN
    shards = list(shards)
    n = nworkers or workers()
    if n <= 1 or len(shards) <= 1:
        for i, s in enumerate(shards):
            if deadline is not None and time.time() > deadline:
                acc.caps.append(f'deadline hit after {i}/{len(shards)} shards')
                return False
            acc.merge(fn(s))
        return True
    _SHARD_FN = fn
    import concurrent.futures as cf
    ctx = multiprocessing.get_context('fork')
    done = 0
    complete = True
    # ProcessPoolExecutor (unlike multiprocessing.Pool) notices a worker that died (e.g. OOM-killed):
    # the run then fails loudly with BrokenProcessPool instead of hanging.
    ex = cf.ProcessPoolExecutor(max_workers=min(n, len(shards)), mp_context=ctx)
    try:
        futs = [ex.submit(_run_shard, s) for s in shards]
        pending = set(futs)
        while pending:
            timeout = None
            if deadline is not None:
                timeout = deadline - time.time()
                if timeout <= 0:
                    raise cf.TimeoutError
            finished, pending = cf.wait(pending, timeout=timeout, return_when=cf.FIRST_COMPLETED)
            if not finished:
                raise cf.TimeoutError
            for f in finished:
                acc.merge(f.result())
                done += 1
    except cf.TimeoutError:
        acc.caps.append(f'deadline hit after {done}/{len(shards)} shards')
        complete = False
        for f in futs:
            f.cancel()
        for proc in list(getattr(ex, '_processes', {}).values()):
            proc.terminate()
    finally:
        ex.shutdown(wait=complete, cancel_futures=True)
    _SHARD_FN = None
    return complete


def chunked(seq: Iterable[Any], size: int) -> Iterator[list]:
    buf: list = []
    for x in seq:
        buf.append(x)
        if len(buf) >= size:
            yield buf
            buf = []
    if buf:
        yield buf


# ---------------------------------------------------------------------------------------------
# context handed to a check's run()

class Ctx:
    def __init__(self, prop: str, tier: str, seed: int):
        self.prop = prop
        self.tier = tier
        self.seed = seed
        self.quick = tier == 'quick'
        self.acc = Acc()
        self.t0 = time.time()
        self.assumptions: list[str] = [
            'srctools is imported from /repo/src (working tree); pure-Python implementations only '
            '(the Cython accelerators cannot be built in this sandbox, so a change confined to a .pyx file is not observed)',
        ]
        self.coverage_extra: dict[str, Any] = {}
        self.rule = ''
        self.exhaustive = True
        self.scratch = os.path.join('/dev/shm', f'verif-{prop}-{os.getpid()}')
        os.makedirs(self.scratch, exist_ok=True)

    def pick(self, quick: Any, thorough: Any) -> Any:
        return quick if self.quick else thorough

    def elapsed(self) -> float:
        return time.time() - self.t0

    def cleanup(self) -> None:
        shutil.rmtree(self.scratch, ignore_errors=True)


# ---------------------------------------------------------------------------------------------
# known findings

def load_findings(prop: str) -> list[dict]:
    path = os.path.join(VERIF, 'known_findings.json')
    if not os.path.exists(path):
        return []
    with open(path) as f:
        data = json.load(f)
    return [e for e in data.get('findings', []) if e.get('property') == prop]


def _match_value(want: Any, got: Any) -> bool:
    if isinstance(want, dict):
        if 'in' in want:
            return got in want['in']
        if 'contains' in want:
            return isinstance(got, (str, list)) and want['contains'] in got
        if 'ge' in want:
            return isinstance(got, (int, float)) and got >= want['ge']
        if 'prefix' in want:
            return isinstance(got, str) and got.startswith(want['prefix'])
        return False
    return want == got


def finding_matches(finding: dict, f: Failure) -> bool:
    """A finding matches a failure when every field of its `match` object agrees with the failure's
    kind/sig.  Fields absent from the failure never match, so a *different* violation is reported."""
    m = finding.get('match', {})
    for key, want in m.items():
        if key == 'kind':
            if not _match_value(want, f.kind):
                return False
        else:
            if key not in f.sig or not _match_value(want, f.sig[key]):
                return False
    return bool(m)


# ---------------------------------------------------------------------------------------------
# replay artefacts

def write_replay(prop: str, f: Failure) -> str:
    d = os.path.join(VERIF, 'replays', prop)
    os.makedirs(d, exist_ok=True)
    name = digest([f.kind, f.case]) + '.json'
    path = os.path.join(d, name)
    with open(path, 'w') as fp:
        json.dump({'property': prop, **f.to_json(),
                   'how': f'./check {prop} --replay replays/{prop}/{name}'}, fp, indent=1, sort_keys=True, default=repr)
    return path


def write_evidence(ctx: Ctx, level: str, violations: int, known: int) -> str:
    acc = ctx.acc
    cov: dict[str, Any] = {
        'evaluations': acc.evaluations,
        'distinct_nontrivial': acc.nontrivial,
        'rule': ctx.rule,
        'samples': acc.samples[:8] or ['(no sample recorded)'],
        'exhaustive': bool(ctx.exhaustive and not acc.caps),
        'distinct_outcomes': len(acc.outcomes),
        'counters': dict(sorted(acc.counters.items())),
        'caps_hit': acc.caps,
        'failing_cases_by_kind': dict(sorted(acc.fail_counts.items())),
        'known_findings_reproduced': known,
    }
    cov.update(ctx.coverage_extra)
    ev = {
        'property_id': ctx.prop,
        'tier': ctx.tier,
        'seed': ctx.seed,
        'level': level,
        'coverage': cov,
        'assumptions': ctx.assumptions,
        'wall_s': round(ctx.elapsed(), 3),
        'violations': violations,
    }
    d = os.path.join(VERIF, 'evidence')
    os.makedirs(d, exist_ok=True)
    path = os.path.join(d, ctx.prop + '.json')
    tmp = path + '.tmp'
    with open(tmp, 'w') as fp:
        json.dump(ev, fp, indent=1, sort_keys=True, default=repr)
        fp.write('\n')
    os.replace(tmp, path)
    return path
