"""Import guard: the code under check must be /repo's working tree, not the srctools wheel in /venv."""
import os
import sys
import warnings


def guard() -> None:
    warnings.simplefilter('ignore')
    repo = os.path.realpath(os.environ.get('VERIF_REPO', '/repo'))
    import srctools
    path = os.path.realpath(srctools.__file__)
    if not path.startswith(os.path.join(repo, 'src') + os.sep):
        print(f'HARNESS-ERROR: srctools imported from {path}, expected {repo}/src', file=sys.stderr)
        sys.exit(2)
    if os.environ.get('PYTHONHASHSEED') != '0':
        print('HARNESS-ERROR: PYTHONHASHSEED must be 0 (run through ./check)', file=sys.stderr)
        sys.exit(2)
