"""Verdict protocol for all checks.

    ./check C07 --tier quick          explore, write evidence/C07.json, exit 0/1
    ./check C07 --replay FILE         re-execute one recorded failing case without the explorer

Exit 0: every explored case satisfied the oracle or matched an entry of known_findings.json
        (one `KNOWN-FINDING: property=<id> <what>` line per listed finding that still reproduces).
Exit 1: `VIOLATION property=<id> replay=<path>` for every failure group no listed finding matches.
Exit 2: harness error (wrong srctools imported, nondeterministic failure, crash of the explorer).
"""
from __future__ import annotations

import argparse
import importlib
import json
import os
import sys
import traceback

from . import core, env


def _replay_in_fresh_process(prop: str, fl, has_findings: bool) -> bool:
    """Second chance for the determinism gate: the case replayed by `--replay` in a new interpreter (nothing of this process's
    history: caches, module-level tables, objects awaiting collection)."""
    import subprocess
    import tempfile
    with tempfile.NamedTemporaryFile('w', suffix='.json', dir='/dev/shm', delete=False) as tf:
        json.dump({'case': fl.case, 'kind': fl.kind}, tf)
    try:
        out = subprocess.run([sys.executable, '-X', 'faulthandler', '-m', 'mcv.main', prop, '--replay', tf.name], capture_output=True, text=True,
                             errors='replace', timeout=900)
    except Exception:  # noqa: BLE001
        return False
    finally:
        os.unlink(tf.name)
    kinds = [ln.split('kind=')[1].split(' ')[0] for ln in out.stdout.splitlines() if ln.startswith('REPRODUCED ') and 'kind=' in ln]
    return fl.kind in kinds or (bool(kinds) and not has_findings)


def _gate_candidates(group: list) -> list:
    """Kept cases of one failure group in the order the gate tries them: the smallest case of every distinct case *shape*
    (set of fields - a case that carries its history has more fields than one that does not) first, then the rest by size."""
    by_size = sorted(group, key=lambda f: f.size)
    first, rest, seen = [], [], set()
    for f in by_size:
        shape = tuple(sorted(f.case)) if isinstance(f.case, dict) else type(f.case).__name__
        if shape in seen:
            rest.append(f)
        else:
            seen.add(shape)
            first.append(f)
    return first + rest


GATE_TRIES = 12
GATE_TRIES_FRESH = 5


def main() -> int:
    ap = argparse.ArgumentParser()
    ap.add_argument('prop')
    ap.add_argument('--tier', default=os.environ.get('VERIF_TIER', 'quick'), choices=['quick', 'thorough'])
    ap.add_argument('--replay', default=None)
    ap.add_argument('--max-report', type=int, default=12)
    args = ap.parse_args()
    try:
        seed = int(os.environ.get('VERIF_SEED', '0') or 0)
    except ValueError:
        seed = 0

    env.guard()
    prop = args.prop.upper()
    mod = importlib.import_module('checks.' + prop.lower())
    level = getattr(mod, 'LEVEL', 'exploration')

    if args.replay:
        with open(args.replay) as f:
            rec = json.load(f)
        fails = mod.replay(rec['case'])
        if fails:
            for fl in fails:
                print(f'REPRODUCED property={prop} kind={fl.kind} sig={core.jdump(fl.sig)}')
                print('  ' + fl.detail.replace('\n', '\n  '))
            return 1
        print(f'replay of {args.replay}: property holds on this case')
        return 0

    ctx = core.Ctx(prop, args.tier, seed)
    try:
        mod.run(ctx)
    except BaseException:
        traceback.print_exc()
        print(f'HARNESS-ERROR property={prop}: explorer crashed', flush=True)
        ctx.cleanup()
        return 2
    ctx.cleanup()

    findings = core.load_findings(prop)
    fails = ctx.acc.all_failures()
    known_hit: dict[str, int] = {}
    unmatched: list[core.Failure] = []
    for fl in fails:
        for fd in findings:
            if core.finding_matches(fd, fl):
                known_hit[fd['id']] = known_hit.get(fd['id'], 0) + 1
                break
        else:
            unmatched.append(fl)

    # group unmatched failures by kind + sig; report the smallest of each group
    groups: dict[str, list[core.Failure]] = {}
    for fl in unmatched:
        groups.setdefault(fl.kind + '|' + core.jdump(fl.sig), []).append(fl)

    status = 0
    reported = 0
    unstable = 0
    for key in sorted(groups, key=lambda k: groups[k][0].size):
        # determinism gate: a failing case must fail again when replayed alone.  A failure whose cause is an EARLIER case of
        # the same worker (state carried inside the library) does not replay alone; the group then usually also holds the
        # case that names that history (a pair / sequence case), so the kept cases of the group are tried smallest-first
        # (at most GATE_TRIES) and the first one that replays is the one reported.  Only a case that did fail again on its
        # own is ever reported as a violation.
        confirmed = False
        fl = groups[key][0]
        for cand in _gate_candidates(groups[key])[:GATE_TRIES]:
            try:
                again = mod.replay(cand.case)
            except BaseException:
                traceback.print_exc()
                again = None
            # (the same case may show a different symptom when it runs alone, e.g. the first call of a process behaves
            # differently from later ones: any failure of the replayed case that no listed finding covers confirms it)
            fresh = [a for a in (again or []) if not any(core.finding_matches(fd, a) for fd in findings)]
            if bool(again) and (any(a.kind == cand.kind for a in again) or bool(fresh)):
                confirmed, fl = True, cand
                break
        if not confirmed:
            # the replays above ran in THIS process, one after the other, so state kept inside the library by one of them can
            # mask the next: the same candidates (fewer) once more, each in an interpreter of its own
            for cand in _gate_candidates(groups[key])[:GATE_TRIES_FRESH]:
                if _replay_in_fresh_process(prop, cand, bool(findings)):
                    confirmed, fl = True, cand
                    break
        if not confirmed:
            print(f'NONDETERMINISM property={prop} kind={fl.kind}: the recorded case did not fail again on replay '
                  f'(case={core.jdump(fl.case)[:300]})', flush=True)
            unstable += 1
            continue
        if reported < args.max_report:
            path = core.write_replay(prop, fl)
            print(f'VIOLATION property={prop} replay={path}')
            print(f'  kind={fl.kind} sig={core.jdump(fl.sig)} cases_in_group>={len(groups[key])}')
            print('  ' + fl.detail.replace('\n', '\n  ')[:1200])
            reported += 1
        status = max(status, 1)
    if unstable and status == 0:
        # nothing was confirmed by a stand-alone replay: the harness (or state carried between cases) is at fault, not a
        # verdict about the property - exit 2.  When at least one failure WAS confirmed, the violation stands (exit 1) and
        # the unconfirmed groups above are reported as additional, order-dependent symptoms.
        status = 2
    if len(groups) > reported and status == 1:
        print(f'  (+{len(groups) - reported} further failing groups not printed)')

    for fd in findings:
        if fd['id'] in known_hit:
            print(f"KNOWN-FINDING: property={prop} {fd['id']}: {fd['what']} (reproduced on {known_hit[fd['id']]} kept cases)")

    # per-worker scratch folders some checks keep under /dev/shm (named verif-<property>-<pid>)
    import glob
    import shutil
    for d in glob.glob(f'/dev/shm/verif-{prop}-*'):
        # only folders of processes that are gone (this run's workers): another run of the same check may be alive
        tail = d.rsplit('-', 1)[-1]
        if not tail.isdigit():
            continue
        try:
            os.kill(int(tail), 0)
        except ProcessLookupError:
            shutil.rmtree(d, ignore_errors=True)
        except OSError:
            pass
    nviol = sum(len(v) for v in groups.values())
    path = core.write_evidence(ctx, level, nviol, len(known_hit))
    acc = ctx.acc
    print(f'{prop} tier={args.tier} seed={seed} evaluations={acc.evaluations} nontrivial={acc.nontrivial} '
          f'outcomes={len(acc.outcomes)} failing_kinds={dict(acc.fail_counts)} caps={acc.caps} '
          f'wall={ctx.elapsed():.1f}s evidence={path}')
    for k, v in sorted(ctx.coverage_extra.items()):
        if isinstance(v, (int, float, str, bool)):
            print(f'  {k}={v}')
    return status


if __name__ == '__main__':
    sys.exit(main())
