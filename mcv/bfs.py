"""Replay-based explicit-state breadth-first search over operation histories of real objects.

A state *is* the history that reaches it (live library objects do not copy safely), so every
transition rebuilds the state by replaying the history on fresh objects and then applies one more
operation.  States are deduplicated by a caller-supplied canonical form; the invariant is evaluated
in every state reached (not only at the leaves).  The search is level-synchronous and each level is
sharded over the fork pool.

A model supplies:
    build(history) -> state            replay on fresh real objects (must be deterministic)
    enabled(state) -> list[op]         small finite menu of JSON-able operations
    canon(state) -> hashable           property-relevant fields only (argued in the check)
    check(state, history, acc) -> None records failures through acc.fail(...)
build() applies operations itself (so an operation that raises an *expected* exception simply leaves
the state as the library left it).
"""
from __future__ import annotations

import gc
import hashlib
from typing import Any, Callable

from . import core


class Model:
    name = ''

    def build(self, history: list) -> Any:
        raise NotImplementedError

    def enabled(self, state: Any) -> list:
        raise NotImplementedError

    def canon(self, state: Any) -> Any:
        raise NotImplementedError

    def check(self, state: Any, history: list, acc: core.Acc) -> None:
        raise NotImplementedError

    def dispose(self, state: Any) -> None:
        """Release a state (default: nothing)."""


def _key(model: Model, state: Any) -> bytes:
    return hashlib.blake2b(repr(model.canon(state)).encode('utf-8', 'surrogatepass'), digest_size=12).digest()


def explore(model: Model, acc: core.Acc, max_depth: int, *, max_states: int = 0, deadline: float | None = None,
            chunk: int = 40, stop_on_fail_depth: bool = True, benign_kinds: frozenset = frozenset()) -> dict:
    """Breadth-first search to max_depth.  Returns {'states', 'transitions', 'depth_completed', 'per_level'}.

    stop_on_fail_depth: states in which the invariant already failed are not expanded further
    (their successors would only repeat the same failure with longer histories); failure kinds listed in
    benign_kinds (recorded known findings) do not stop expansion."""
    init = model.build([])
    a0 = core.Acc()
    model.check(init, [], a0)
    acc.merge(a0)
    seen = {_key(model, init)}
    model.dispose(init)
    frontier: list[list] = [[]]
    states = 1
    transitions = 0
    per_level = [1]
    depth_done = 0

    def work(hists: list) -> core.Acc:
        gc.freeze()   # everything allocated so far is permanent: explicit gc.collect() steps of a model stay cheap
        out = core.Acc()
        new: list = []
        ntrans = 0
        for hist in hists:
            st = model.build(hist)
            ops = model.enabled(st)
            model.dispose(st)
            del st
            for op in ops:
                h2 = hist + [op]
                st2 = model.build(h2)
                ntrans += 1
                before = dict(out.fail_counts)
                model.check(st2, h2, out)
                failed = any(n != before.get(kd, 0) and kd not in benign_kinds for kd, n in out.fail_counts.items())
                k = _key(model, st2)
                model.dispose(st2)
                del st2
                if not (failed and stop_on_fail_depth):
                    new.append((k, h2))
        gc.collect()
        out.counters['_transitions'] = ntrans
        out.payload = new
        return out

    for depth in range(1, max_depth + 1):
        shards = list(core.chunked(frontier, max(1, min(chunk, len(frontier) // (3 * core.workers()) + 1))))
        tmp = core.Acc()
        complete = core.par_map(work, shards, tmp, deadline=deadline)
        transitions += tmp.counters.pop('_transitions', 0)
        collected = [tmp.payload]
        tmp.payload = []
        acc.merge(tmp)
        nxt: list[list] = []
        for succ in collected:
            succ.sort(key=lambda kh: repr(kh[1]))  # deterministic representative whatever the shard completion order
            for k, h in succ:
                if k not in seen:
                    seen.add(k)
                    nxt.append(h)
        states += len(nxt)
        per_level.append(len(nxt))
        if not complete:
            acc.caps.append(f'BFS level {depth} incomplete (deadline)')
            break
        depth_done = depth
        frontier = nxt
        if not frontier:
            break
        if max_states and states >= max_states and depth < max_depth:
            acc.caps.append(f'state cap {max_states} reached after completing depth {depth} (states={states}); '
                            f'deeper levels not explored')
            break
    return {'states': states, 'transitions': transitions, 'depth_completed': depth_done, 'per_level': per_level}
