"""Baton-passing scheduler: exhaustive exploration of the interleavings of N threads whose only shared
state is reached through scheduling points (here: intercepted file-system operations).

Threads run real code; each blocks at every scheduling point until the explorer hands it the baton.
Exploration is stateless: a schedule prefix (list of thread indexes) is replayed on a fresh world, then
extended with the default choice (lowest runnable thread) to completion; every alternative choice at every
later point is explored recursively.  Optionally bounded by the number of preemptions.
"""
from __future__ import annotations

import gc
import threading
from typing import Callable, Optional


class Deadlock(Exception):
    pass


class Run:
    """One execution under a fixed choice prefix."""

    def __init__(self, bodies: list[Callable[[], None]], names: list[str]) -> None:
        self.bodies = bodies
        self.names = names
        self.n = len(bodies)
        self.sems = [threading.Semaphore(0) for _ in bodies]
        self.arrived = threading.Semaphore(0)
        self.state = ['new'] * self.n           # new / waiting / running / done
        self.errors: list[Optional[BaseException]] = [None] * self.n
        self.choices: list[int] = []
        self.enabled_at: list[list[int]] = []
        self.points: list[tuple] = []
        self.current = -1

    def at_point(self, who: str, op: str, detail: str) -> None:
        """Called by a thread before each shared operation."""
        try:
            i = self.names.index(who)
        except ValueError:
            return
        self.points.append((who, op, detail))
        self.state[i] = 'waiting'
        self.arrived.release()
        self.sems[i].acquire()
        self.state[i] = 'running'

    def _thread(self, i: int, set_actor: Callable[[str], None]) -> None:
        set_actor(self.names[i])
        self.sems[i].acquire()          # wait for first baton
        self.state[i] = 'running'
        try:
            self.bodies[i]()
        except BaseException as exc:  # noqa: BLE001 - recorded, judged by the oracle
            self.errors[i] = exc
        self.state[i] = 'done'
        self.arrived.release()

    def execute(self, prefix: list[int], set_actor: Callable[[str], None]) -> None:
        threads = [threading.Thread(target=self._thread, args=(i, set_actor), daemon=True) for i in range(self.n)]
        for t in threads:
            t.start()
        # Prelude: run each thread, one at a time, up to its first scheduling point.  Code before the first shared
        # operation touches nothing shared, so its placement is not a choice.
        self.state = ['new'] * self.n
        for i in range(self.n):
            self.state[i] = 'running'
            self.sems[i].release()
            if not self.arrived.acquire(timeout=30):
                raise Deadlock(f'thread {self.names[i]} did not reach its first point')
        step = 0
        while True:
            enabled = [i for i in range(self.n) if self.state[i] == 'waiting']
            if not enabled:
                if all(s == 'done' for s in self.state):
                    break
                raise Deadlock(f'no runnable thread: {self.state}')
            if step < len(prefix):
                c = prefix[step]
                if c not in enabled:
                    raise AssertionError(f'replay divergence at step {step}: choice {c} not in {enabled}')
            else:
                # default: keep running the current thread if possible (no preemption), else lowest index
                c = self.current if self.current in enabled else enabled[0]
            self.choices.append(c)
            self.enabled_at.append(enabled)
            self.current = c
            self.state[c] = 'running'
            self.sems[c].release()
            if not self.arrived.acquire(timeout=30):
                raise Deadlock(f'thread {self.names[c]} neither reached a point nor finished within 30 s')
            step += 1
        for t in threads:
            t.join(timeout=5)


def explore(make_world: Callable[[], tuple], judge: Callable[[object, 'Run'], None], max_preemptions: Optional[int] = None,
            limit: int = 0) -> dict:
    """make_world() -> (world, bodies, names, set_actor, hook_setter, cleanup).

    hook_setter(fn) installs fn(who, op, detail) as the scheduling-point callback of the world.
    judge(world, run) evaluates the oracle on one complete execution.
    Returns {'schedules': n, 'max_points': m, 'capped': bool}."""
    stats = {'schedules': 0, 'max_points': 0, 'capped': False, 'distinct_traces': set()}
    stack: list[list[int]] = [[]]
    while stack:
        prefix = stack.pop()
        world, bodies, names, set_actor, hook_setter, cleanup = make_world()
        run = Run(bodies, names)
        hook_setter(run.at_point)
        try:
            run.execute(prefix, set_actor)
            hook_setter(None)
            judge(world, run)
        finally:
            hook_setter(None)
            # objects of this execution must not outlive it: a traceback kept in run.errors holds the frames (and through
            # them the library objects) of the threads, whose finalisers would otherwise run during the NEXT execution
            for exc in run.errors:
                if exc is not None:
                    exc.__traceback__ = None
                    exc.__context__ = None
                    exc.__cause__ = None
            run.bodies = []
            bodies = None
            gc.collect(0)
            cleanup(world)
        stats['schedules'] += 1
        stats['max_points'] = max(stats['max_points'], len(run.choices))
        stats['distinct_traces'].add(tuple(run.choices))
        if limit and stats['schedules'] >= limit:
            stats['capped'] = True
            break
        # branch on every point after the prefix
        pre = 0
        cur = -1
        preempt_before = []
        for i, c in enumerate(run.choices):
            preempt_before.append(pre)
            if cur != -1 and c != cur and cur in run.enabled_at[i]:
                pre += 1
            cur = c
        for i in range(len(prefix), len(run.choices)):
            prev = run.choices[i - 1] if i > 0 else -1
            for alt in run.enabled_at[i]:
                if alt == run.choices[i]:
                    continue
                cost = preempt_before[i] + (1 if (prev != -1 and alt != prev and prev in run.enabled_at[i]) else 0)
                if max_preemptions is not None and cost > max_preemptions:
                    continue
                stack.append(run.choices[:i] + [alt])
    stats['distinct_traces'] = len(stats['distinct_traces'])
    return stats
