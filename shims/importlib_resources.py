"""Harness shim: /repo/src/srctools/fgd.py imports the `importlib_resources` backport, which is not
installed in this sandbox.  On Python 3.12 the stdlib module provides the same API."""
from importlib.resources import files, as_file  # noqa: F401
