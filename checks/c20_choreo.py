"""C20 part 'choreo' — choreographed scenes: text VCD, binary BVCD and the scenes.image container.

A scene is described by a JSON-able *spec* (plain dicts/lists).  The harness
  * builds real srctools.choreo objects from the spec,
  * writes them with the real writer, reads the output back with the real reader,
  * observes the result field by field (observe_*) and compares it with what the harness derives from the
    spec itself (expect_* — never from library objects, never with the library's ==),
  * writes the read-back value again and demands identical output.
Fields that only one of the two scene encodings carries are compared only in that encoding (see RULE).
scenes.image files are additionally decoded with struct/lzma in the harness, independently of srctools.
"""
from __future__ import annotations

import copy
import io
import itertools
import json
import lzma
import os
import struct
import zlib

from srctools import choreo as ch
from srctools.tokenizer import Tokenizer

from mcv import core

PART = 'choreo'

# ---------------------------------------------------------------------------------------------
# value alphabets (all representable in BOTH scene encodings unless the feature is single-form)

# strings: empty, space, quote, backslash, newline + a latin-1 character.  No NUL (the scenes.image pool is
# NUL-terminated) and latin-1 only (its declared encoding).
STRS = ['', 'a b', 'q"t', 'b\\s', 'l\n\xe9']
Q = lambda k: k / 255.0          # 1-byte quantised values (ramp samples, relative/timing tags)
QA = lambda k: k / 4096.0        # 16-bit quantised values (absolute tags), < 16.0
INTERPS = [i.name for i in ch.Interpolation]
GENERIC_TYPES = [t.name for t in ch.EventType if t.name not in ('Gesture', 'Loop', 'Speak')]
DEF_CURVE = ['DEFAULT', 'DEFAULT']
EDGE_OFF = [False, 0.0, DEF_CURVE]

FOCI = {'E': 'Expression', 'S': 'Speak', 'G': 'Gesture', 'L': 'Loop'}


def mk_curve(ramp=(), left=None, right=None) -> dict:
    return {'ramp': [list(s) + [DEF_CURVE] * (3 - len(s)) for s in ramp],
            'left': list(left or EDGE_OFF), 'right': list(right or EDGE_OFF)}


def mk_event(type_: str, name: str, **kw) -> dict:
    ev = {
        'type': type_, 'name': name, 'flags': 8, 'params': ['prm', '', ''], 'start': 0.5, 'end': 2.5,
        'ramp': mk_curve(), 'tag': None, 'dist': 0.0,
        'rel_tags': [], 'timing_tags': [], 'abs_play': [], 'abs_shift': [], 'flex': [],
        'pitch': 0, 'yaw': 0,
    }
    if name == 'focus':
        ev['_focus'] = True
    if type_ == 'Gesture':
        ev['gesture_dur'] = 0.0
    elif type_ == 'Loop':
        ev['loop_count'] = 0
    elif type_ == 'Speak':
        ev.update(cc_type='Master', cc_token='', suppress=False, combined=False, gender=False)
        ev['params'] = ['snd.one', '', '']
    ev.update(kw)
    return ev


def mk_track(name='fx', active=True, mn=0.0, mx=1.0, mag=(), dir_=None, left=None, right=None) -> dict:
    return {'name': name, 'active': active, 'min': mn, 'max': mx,
            'mag': [list(s) + [DEF_CURVE] * (3 - len(s)) for s in mag],
            'dir': None if dir_ is None else [list(s) + [DEF_CURVE] * (3 - len(s)) for s in dir_],
            'left': list(left or EDGE_OFF), 'right': list(right or EDGE_OFF)}


def base_spec(focus: str) -> dict:
    """One actor, one channel, one (focus) event.  Everything else is at its default."""
    return {
        'events': [],
        'actors': [{'_focus': True, 'name': 'act', 'active': True, 'faceposer_model': '', 'channels': [
            {'_focus': True, 'name': 'chan', 'active': True, 'events': [mk_event(FOCI[focus], 'focus')]}]}],
        'ramp': mk_curve(), 'ignore_phonemes': False, 'text_crc': 0,
        'map_name': '', 'fps': 60, 'use_frame_snap': False, 'scale_settings': [],
    }


def focus_event(spec: dict) -> dict:
    for ev in iter_spec_events(spec):
        if ev.get('_focus'):
            return ev
    raise KeyError('focus')


def iter_spec_events(spec: dict):
    yield from spec['events']
    for actor in spec['actors']:
        for chan in actor['channels']:
            yield from chan['events']


# ---------------------------------------------------------------------------------------------
# features: name -> (values, primary_count, applier).  The first `primary_count` values take part in every
# deviation level; the remaining ones (enum sweeps) are explored as single deviations only.

def _set_ev(key):
    def app(spec, value):
        focus_event(spec)[key] = copy.deepcopy(value)
    return app


def _set_param(i):
    def app(spec, value):
        focus_event(spec)['params'][i] = value
    return app


def _set_ramp(key):
    def app(spec, value):
        focus_event(spec)['ramp'][key] = copy.deepcopy(value)
    return app


def _set_scene(key):
    def app(spec, value):
        spec[key] = copy.deepcopy(value)
    return app


def _set_scene_ramp(key):
    def app(spec, value):
        spec['ramp'][key] = copy.deepcopy(value)
    return app


def _actor(key):
    def app(spec, value):
        _focus_actor(spec)[key] = value
    return app


def _chan(key):
    def app(spec, value):
        _focus_chan(spec)[key] = value
    return app


def _focus_actor(spec):
    [a] = [a for a in spec['actors'] if a.get('_focus')]
    return a


def _focus_chan(spec):
    [c] = [c for c in _focus_actor(spec)['channels'] if c.get('_focus')]
    return c


def _app_globals(spec, value):
    extra = [mk_event('Section', 'pause', params=['noaction', '', ''], start=1.5, end=-1.0),
             mk_event('StopPoint', 'stop', params=['noaction', '', ''], start=-0.75, end=-1.0)]
    spec['events'] = spec['events'] + extra[:value]


def _app_chan_events(spec, value):
    other = mk_event('LookAt', 'look', params=['!enemy', '', ''], start=0.25, end=1.25)
    chan = _focus_chan(spec)
    if value == 'before':
        chan['events'].insert(0, other)
    elif value == 'after':
        chan['events'].append(other)
    elif value == 'speak_after':
        chan['events'].append(mk_event('Speak', 'spk2', params=['snd.two', '', ''], start=3.0, end=4.5))
    elif isinstance(value, str) and value.startswith('far_repeat:'):
        # a large scene (several KB in binary form): events with long, irregular ramps; the last repeats the ramp of the first, so
        # the stream holds a long match whose distance grows with the number of events in between
        def ramp(seed: int, n: int = 120):
            return mk_curve([[0.125 * i + ((i * 37 + seed) % 16) / 128.0, Q((i * i * 7 + seed * 13 + i * seed) % 256), DEF_CURVE] for i in range(n)])
        k = int(value.split(':')[1])
        chan['events'].append(mk_event('LookAt', 'far_first', params=['!enemy', '', ''], start=0.25, end=1.25, ramp=ramp(1)))
        for j in range(k):
            chan['events'].append(mk_event('LookAt', f'fill{j}', params=['!enemy', '', ''], start=0.25, end=1.25, ramp=ramp(2 + j, 100 + 7 * (j % 3))))
        chan['events'].append(mk_event('LookAt', 'far_last', params=['!enemy', '', ''], start=0.25, end=1.25, ramp=ramp(1)))


def _app_channels(spec, value):
    actor = _focus_actor(spec)
    empty = {'name': 'c2', 'active': True, 'events': []}
    full = {'name': 'c2', 'active': False, 'events': [mk_event('Face', 'face', params=['!player', '', ''])]}
    if value == 'empty_after':
        actor['channels'].append(empty)
    elif value == 'full_after':
        actor['channels'].append(full)
    elif value == 'empty_before':
        actor['channels'].insert(0, empty)


def _app_actors(spec, value):
    empty = {'name': 'a2', 'active': True, 'faceposer_model': '', 'channels': []}
    full = {'name': 'a2', 'active': False, 'faceposer_model': 'models/a2.mdl', 'channels': [
        {'name': 'c3', 'active': True, 'events': [mk_event('MoveTo', 'mv', params=['!friend', 'Run', '!t2'])]}]}
    if value == 'empty_after':
        spec['actors'].append(empty)
    elif value == 'full_after':
        spec['actors'].append(full)
    elif value == 'empty_before':
        spec['actors'].insert(0, empty)


def _app_place(spec, value):
    chan = _focus_chan(spec)
    ev = focus_event(spec)
    chan['events'].remove(ev)
    spec['events'].insert(0, ev)
    if value == 'global_no_actors':
        spec['actors'] = []


CURVE_A = ['CATMULL_ROM_NORMALIZE_X', 'KOCHANEK_BARTELS_LATE']
CURVE_B = ['EASE_IN', 'HOLD']


def build_features(focus: str) -> list:
    F = []

    def add(name, values, app, primary=None):
        F.append((name, values, len(values) if primary is None else primary, app))

    # ---- focus event, common part
    add('ev_name', STRS, _set_ev('name'))
    add('flags', [0, 9, 10, 12, 24, 40, 63, 55], _set_ev('flags'))
    add('param1', STRS, _set_param(0))
    add('param2', STRS[1:], _set_param(1))
    add('param3', STRS[1:], _set_param(2))
    add('start', [0.0, -0.75, 1000.5, 0.015625], _set_ev('start'))
    add('end', [-1.0, 0.5, 0.0, 1000.5], _set_ev('end'))
    add('ramp', [[[0.5, 0.0, DEF_CURVE]],
                 [[0.0, 1.0, DEF_CURVE], [1.5, Q(128), DEF_CURVE]],
                 [[0.25, Q(51), CURVE_A]],
                 # sample counts around the signed/unsigned boundary of the one-byte count field
                 [[0.125 * i, Q(i % 256), DEF_CURVE] for i in range(127)], [[0.125 * i, Q(i % 256), DEF_CURVE] for i in range(128)],
                 [[0.125 * i, Q(i % 256), DEF_CURVE] for i in range(255)]]
        + [[[0.5, 1.0, [a, b]]] for a, b in zip(INTERPS, reversed(INTERPS))], _set_ramp('ramp'), primary=3)
    add('ramp_left', [[True, 0.0, DEF_CURVE], [True, 0.5, CURVE_A]], _set_ramp('left'))
    add('ramp_right', [[True, 0.0, DEF_CURVE], [True, 0.25, CURVE_B]], _set_ramp('right'))
    add('tag', [['t', 'w'], ['', ''], ['q"t', 'b\\s'], ['a b', 'l\n\xe9']], _set_ev('tag'))
    add('dist', [0.25, 59.0, 1000.5], _set_ev('dist'))
    add('rel_tags', [[['t1', 0.0]], [['t1', 1.0], ['t2', Q(128)]]]
        + [[[s, Q(51)]] for s in STRS], _set_ev('rel_tags'))
    add('timing_tags', [[['tt', 0.0, False]], [['tt', 1.0, True], ['t2', Q(51), False]]]
        + [[[s, Q(128), True]] for s in STRS[2:]], _set_ev('timing_tags'))
    add('abs_play', [[['ap', 0.0]], [['ap', 1.0], ['a2', QA(1)]], [['ap', 1.5]], [['ap', QA(65535)]],
                     [['q"t', QA(2048)]]], _set_ev('abs_play'))
    add('abs_shift', [[['as', 0.0]], [['as', 1.0], ['a2', QA(4097)]], [['as', QA(65535)]], [['b\\s', QA(1)]]],
        _set_ev('abs_shift'))
    add('flex', [
        [mk_track(mag=[[0.5, 1.0]])],
        [mk_track('f2', False, -1.5, 2.5, mag=[[0.0, 0.0, CURVE_A], [1.5, Q(128)]], dir_=[[0.25, Q(51), CURVE_B]]),
         mk_track('f3', True, 0.0, 1.0, mag=[], dir_=[])],
        [mk_track('q"t', True, 0.0, 1.0, mag=[[0.5, Q(1)]], left=[True, 0.5, CURVE_A], right=[True, 0.0, DEF_CURVE])],
    ], _set_ev('flex'))
    add('pitch', [-100, 100, 1], _set_ev('pitch'))
    add('yaw', [-100, 100, -1], _set_ev('yaw'))
    # ---- class specific
    if focus == 'E':
        add('type', [t for t in GENERIC_TYPES if t != 'Expression'], _set_ev('type'), primary=0)
    elif focus == 'S':
        add('cc_type', ['Slave', 'Disabled'], _set_ev('cc_type'))
        add('cc_token', ['tok'] + STRS[1:], _set_ev('cc_token'))
        add('suppress', [True], _set_ev('suppress'))
        add('combined', [True], _set_ev('combined'))
        add('gender', [True], _set_ev('gender'))
    elif focus == 'G':
        add('gesture_dur', [1.5, 0.015625], _set_ev('gesture_dur'))
    elif focus == 'L':
        add('loop_count', [-1, 1, 127, -128], _set_ev('loop_count'))
    # ---- structure
    add('globals', [1, 2], _app_globals)
    add('chan_events', ['before', 'after', 'speak_after'], _app_chan_events)
    add('channels', ['empty_after', 'full_after', 'empty_before'], _app_channels)
    add('actors', ['empty_after', 'full_after', 'empty_before'], _app_actors)
    add('place', ['global', 'global_no_actors'], _app_place)
    add('actor_name', STRS, _actor('name'))
    add('actor_active', [False], _actor('active'))
    add('faceposer', ['models/x.mdl'] + STRS[1:], _actor('faceposer_model'))
    add('chan_name', STRS, _chan('name'))
    add('chan_active', [False], _chan('active'))
    # ---- scene
    add('scene_ramp', [[[0.5, 0.0, DEF_CURVE]], [[0.0, 1.0, CURVE_B], [1000.5, Q(254), DEF_CURVE]],
                       [[0.25 * i, Q((i * 7) % 256), DEF_CURVE] for i in range(128)], [[0.25 * i, Q((i * 7) % 256), DEF_CURVE] for i in range(200)]],
        _set_scene_ramp('ramp'))
    add('scene_ramp_left', [[True, 0.5, CURVE_A]], _set_scene_ramp('left'))
    add('scene_ramp_right', [[True, 0.0, DEF_CURVE]], _set_scene_ramp('right'))
    add('ignore_phonemes', [True], _set_scene('ignore_phonemes'))
    add('text_crc', [1, 0xFFFFFFFF], _set_scene('text_crc'))
    add('map_name', ['maps/a.bsp'] + STRS[1:], _set_scene('map_name'))
    add('fps', [10, 240, 30], _set_scene('fps'))
    add('snap', [True], _set_scene('use_frame_snap'))
    add('scale', [[['CChoreoView', '100']], [['RampTool', '100'], ['GestureTool', '50']],
                  [['q"t', '1']], [['a b', 'b\\s']], [['k', 'q"t']], [['b\\s', 'l\n\xe9']]], _set_scene('scale_settings'))
    return F


_FEATURES: dict = {}


def features(focus: str) -> list:
    if focus not in _FEATURES:
        _FEATURES[focus] = build_features(focus)
    return _FEATURES[focus]


# 'place' removes the focus event from its channel; appliers that look for the focus channel must run first.
def make_spec(focus: str, devs: list) -> dict:
    spec = base_spec(focus)
    table = {name: (values, app) for name, values, _, app in features(focus)}
    ordered = sorted(devs, key=lambda d: d[0] == 'place')
    for name, value in ordered:
        table[name][1](spec, value)
    return spec


def representable(spec: dict) -> bool:
    """The explicit representability rule (see RULE).  Everything the generator can produce satisfies the
    numeric rules by construction; the only combination to filter is Disabled captions + combined file."""
    for ev in iter_spec_events(spec):
        if ev['type'] == 'Speak' and ev['cc_type'] == 'Disabled' and ev['combined']:
            return False
    return True


# ---------------------------------------------------------------------------------------------
# spec -> real objects

def b_curve_type(pair) -> ch.CurveType:
    return ch.CurveType(ch.Interpolation[pair[0]], ch.Interpolation[pair[1]])


def b_sample(s) -> ch.ExpressionSample:
    return ch.ExpressionSample(s[0], s[1], b_curve_type(s[2]))


def b_edge(e) -> ch.CurveEdge:
    return ch.CurveEdge(e[0], e[1], b_curve_type(e[2]))


def b_curve(c) -> ch.Curve:
    return ch.Curve([b_sample(s) for s in c['ramp']], b_edge(c['left']), b_edge(c['right']))


def b_track(t) -> ch.FlexAnimTrack:
    return ch.FlexAnimTrack(
        name=t['name'], active=t['active'], min=t['min'], max=t['max'],
        mag_track=[b_sample(s) for s in t['mag']],
        dir_track=None if t['dir'] is None else [b_sample(s) for s in t['dir']],
        left=b_edge(t['left']), right=b_edge(t['right']),
    )


def b_event(e) -> ch.Event:
    kw = dict(
        name=e['name'], flags=ch.EventFlags(e['flags']), parameters=tuple(e['params']),
        start_time=e['start'], end_time=e['end'], ramp=b_curve(e['ramp']),
        tag_name=None if e['tag'] is None else e['tag'][0],
        tag_wav_name=None if e['tag'] is None else e['tag'][1],
        dist_to_targ=e['dist'],
        relative_tags=[ch.Tag(n, v) for n, v in e['rel_tags']],
        timing_tags=[ch.TimingTag(n, v, lock) for n, v, lock in e['timing_tags']],
        absolute_playback_tags=[ch.AbsoluteTag(n, v) for n, v in e['abs_play']],
        absolute_shifted_tags=[ch.AbsoluteTag(n, v) for n, v in e['abs_shift']],
        flex_anim_tracks=[b_track(t) for t in e['flex']],
        pitch=e['pitch'], yaw=e['yaw'],
    )
    if e['type'] == 'Gesture':
        return ch.GestureEvent(gesture_sequence_duration=e['gesture_dur'], **kw)
    if e['type'] == 'Loop':
        return ch.LoopEvent(loop_count=e['loop_count'], **kw)
    if e['type'] == 'Speak':
        return ch.SpeakEvent(caption_type=ch.CaptionType[e['cc_type']], cc_token=e['cc_token'],
                             suppress_caption_attenuation=e['suppress'], use_combined_file=e['combined'],
                             use_gender_token=e['gender'], **kw)
    return ch.Event(type=ch.EventType[e['type']], **kw)


def b_scene(spec) -> ch.Scene:
    return ch.Scene(
        events=[b_event(e) for e in spec['events']],
        actors=[ch.Actor(a['name'], a['active'],
                         [ch.Channel(c['name'], c['active'], [b_event(e) for e in c['events']])
                          for c in a['channels']],
                         a['faceposer_model']) for a in spec['actors']],
        ramp=b_curve(spec['ramp']), ignore_phonemes=spec['ignore_phonemes'], text_crc=spec['text_crc'],
        map_name=spec['map_name'], fps=spec['fps'], use_frame_snap=spec['use_frame_snap'],
        scale_settings=dict((k, v) for k, v in spec['scale_settings']),
    )


# ---------------------------------------------------------------------------------------------
# observers.  `form` is 'text' or 'binary'; fields the form does not carry are left out on both sides.
#   text only  : Scene.map_name/fps/use_frame_snap/scale_settings, Actor.faceposer_model, Event.pitch/yaw,
#                Curve.left/right and the per-sample curve type of scene/event ramps, TimingTag.locked,
#                FlexAnimTrack.left/right              ("VCD only" in the source; BIN_FMT '<fB' has no curve)
#   binary only: Scene.text_crc                         (parse_text: "This does not calculate the CRC value")
#   neither    : Scene.time_zoom_lookup, Event.default_curve_type without flex tracks (never generated)

def o_ct(ct) -> list:
    return [ct.first.name, ct.second.name]


def o_edge(e) -> list:
    return [bool(e.active), float(e.zero_pos), o_ct(e.curve_type)]


def o_curve(c, form) -> dict:
    if form == 'text':
        return {'ramp': [[float(s.time), float(s.value), o_ct(s.curve_type)] for s in c.ramp],
                'left': o_edge(c.left), 'right': o_edge(c.right)}
    return {'ramp': [[float(s.time), float(s.value)] for s in c.ramp]}


def o_samples(lst):
    return None if lst is None else [[float(s.time), float(s.value), o_ct(s.curve_type)] for s in lst]


def o_track(t, form) -> dict:
    d = {'name': t.name, 'active': bool(t.active), 'min': float(t.min), 'max': float(t.max),
         'mag': o_samples(t.mag_track), 'dir': o_samples(t.dir_track)}
    if form == 'text':
        d['left'] = o_edge(t.left)
        d['right'] = o_edge(t.right)
    return d


def o_event(e, form) -> dict:
    d = {
        'cls': type(e).__name__, 'type': e.type.name, 'name': e.name, 'flags': int(e.flags.value),
        'params': list(e.parameters), 'start': float(e.start_time), 'end': float(e.end_time),
        'ramp': o_curve(e.ramp, form), 'tag': [e.tag_name, e.tag_wav_name], 'dist': float(e.dist_to_targ),
        'rel_tags': [[type(t).__name__, t.name, float(t.value)] for t in e.relative_tags],
        'timing_tags': [[type(t).__name__, t.name, float(t.value)] + ([bool(t.locked)] if form == 'text' else [])
                        for t in e.timing_tags],
        'abs_play': [[type(t).__name__, t.name, float(t.value)] for t in e.absolute_playback_tags],
        'abs_shift': [[type(t).__name__, t.name, float(t.value)] for t in e.absolute_shifted_tags],
        'flex': [o_track(t, form) for t in e.flex_anim_tracks],
    }
    if form == 'text':
        d['pitch'] = int(e.pitch)
        d['yaw'] = int(e.yaw)
    if isinstance(e, ch.GestureEvent):
        d['gesture_dur'] = float(e.gesture_sequence_duration)
    if isinstance(e, ch.LoopEvent):
        d['loop_count'] = int(e.loop_count)
    if isinstance(e, ch.SpeakEvent):
        d.update(cc_type=e.caption_type.name, cc_token=e.cc_token, suppress=bool(e.suppress_caption_attenuation),
                 combined=bool(e.use_combined_file), gender=bool(e.use_gender_token))
    return d


def observe_scene(sc, form) -> dict:
    d = {
        'events': [o_event(e, form) for e in sc.events],
        'actors': [dict({'name': a.name, 'active': bool(a.active),
                         'channels': [{'name': c.name, 'active': bool(c.active),
                                       'events': [o_event(e, form) for e in c.events]} for c in a.channels]},
                        **({'faceposer_model': a.faceposer_model} if form == 'text' else {}))
                   for a in sc.actors],
        'ramp': o_curve(sc.ramp, form), 'ignore_phonemes': bool(sc.ignore_phonemes),
    }
    if form == 'text':
        d.update(map_name=sc.map_name, fps=int(sc.fps), use_frame_snap=bool(sc.use_frame_snap),
                 scale_settings=[[k, v] for k, v in sc.scale_settings.items()])
    else:
        d['text_crc'] = int(sc.text_crc)
    return d


# --- the same shape derived from the spec alone

CLS_OF = {'Gesture': 'GestureEvent', 'Loop': 'LoopEvent', 'Speak': 'SpeakEvent'}


def x_curve(c, form) -> dict:
    if form == 'text':
        return {'ramp': [[float(s[0]), float(s[1]), list(s[2])] for s in c['ramp']],
                'left': [c['left'][0], float(c['left'][1]), list(c['left'][2])],
                'right': [c['right'][0], float(c['right'][1]), list(c['right'][2])]}
    return {'ramp': [[float(s[0]), float(s[1])] for s in c['ramp']]}


def x_samples(lst):
    return None if lst is None else [[float(s[0]), float(s[1]), list(s[2])] for s in lst]


def x_track(t, form) -> dict:
    d = {'name': t['name'], 'active': t['active'], 'min': float(t['min']), 'max': float(t['max']),
         'mag': x_samples(t['mag']), 'dir': x_samples(t['dir'])}
    if form == 'text':
        d['left'] = [t['left'][0], float(t['left'][1]), list(t['left'][2])]
        d['right'] = [t['right'][0], float(t['right'][1]), list(t['right'][2])]
    return d


def x_event(e, form) -> dict:
    d = {
        'cls': CLS_OF.get(e['type'], 'Event'), 'type': e['type'], 'name': e['name'], 'flags': e['flags'],
        'params': list(e['params']), 'start': float(e['start']), 'end': float(e['end']),
        'ramp': x_curve(e['ramp'], form), 'tag': [None, None] if e['tag'] is None else list(e['tag']),
        'dist': float(e['dist']),
        'rel_tags': [['Tag', n, float(v)] for n, v in e['rel_tags']],
        'timing_tags': [['TimingTag', n, float(v)] + ([lock] if form == 'text' else [])
                        for n, v, lock in e['timing_tags']],
        'abs_play': [['AbsoluteTag', n, float(v)] for n, v in e['abs_play']],
        'abs_shift': [['AbsoluteTag', n, float(v)] for n, v in e['abs_shift']],
        'flex': [x_track(t, form) for t in e['flex']],
    }
    if form == 'text':
        d['pitch'] = e['pitch']
        d['yaw'] = e['yaw']
    for k in ('gesture_dur', 'loop_count', 'cc_type', 'cc_token', 'suppress', 'combined', 'gender'):
        if k in e:
            d[k] = float(e[k]) if k == 'gesture_dur' else e[k]
    return d


def expect_scene(spec, form) -> dict:
    d = {
        'events': [x_event(e, form) for e in spec['events']],
        'actors': [dict({'name': a['name'], 'active': a['active'],
                         'channels': [{'name': c['name'], 'active': c['active'],
                                       'events': [x_event(e, form) for e in c['events']]} for c in a['channels']]},
                        **({'faceposer_model': a['faceposer_model']} if form == 'text' else {}))
                   for a in spec['actors']],
        'ramp': x_curve(spec['ramp'], form), 'ignore_phonemes': spec['ignore_phonemes'],
    }
    if form == 'text':
        d.update(map_name=spec['map_name'], fps=spec['fps'], use_frame_snap=spec['use_frame_snap'],
                 scale_settings=[list(kv) for kv in spec['scale_settings']])
    else:
        d['text_crc'] = spec['text_crc']
    return d


def diff(a, b, path='') -> list:
    """Paths at which two plain structures differ (list indices are kept in the path)."""
    if isinstance(a, dict) and isinstance(b, dict):
        out = []
        for k in sorted(set(a) | set(b)):
            if k not in a or k not in b:
                out.append(f'{path}.{k}')
            else:
                out.extend(diff(a[k], b[k], f'{path}.{k}'))
        return out
    if isinstance(a, list) and isinstance(b, list):
        if len(a) != len(b):
            return [f'{path}#len']
        out = []
        for i, (x, y) in enumerate(zip(a, b)):
            out.extend(diff(x, y, f'{path}[{i}]'))
        return out
    if isinstance(a, bool) != isinstance(b, bool) or a != b:
        return [path]
    return []


def diff_approx(a, b, path='') -> list:
    """diff() for values that were quantised on the way (sample files through the binary form): floats may differ
    by half a 1/255 step (values) or by float32 rounding (times)."""
    if isinstance(a, dict) and isinstance(b, dict) and set(a) == set(b):
        return [p for k in sorted(a) for p in diff_approx(a[k], b[k], f'{path}.{k}')]
    if isinstance(a, list) and isinstance(b, list) and len(a) == len(b):
        return [p for i, (x, y) in enumerate(zip(a, b)) for p in diff_approx(x, y, f'{path}[{i}]')]
    if isinstance(a, float) and isinstance(b, float):
        return [] if abs(a - b) <= max(2e-3, 1e-6 * abs(a)) else [path]
    return diff(a, b, path)


def coarse(paths: list) -> list:
    """Field names only (no indices, no container path) - stable enough for a known-finding predicate."""
    out = []
    for p in paths:
        leaf = p.replace('#len', '').split('.')[-1].split('[')[0]
        if leaf not in out:
            out.append(leaf)
    return sorted(out)[:4]


def pick(d, path):
    cur = d
    try:
        for tok in path.replace('#len', '').replace('[', '.[').split('.'):
            if not tok:
                continue
            cur = cur[int(tok[1:-1])] if tok.startswith('[') else cur[tok]
        return cur
    except (KeyError, IndexError, TypeError):
        return '<absent>'


# ---------------------------------------------------------------------------------------------
# running the real writers / readers

class Pool:
    """The string pool callback export_binary needs (the harness's own; index of first occurrence)."""

    def __init__(self):
        self.items: list = []
        self.index: dict = {}

    def __call__(self, s: str) -> int:
        try:
            return self.index[s]
        except KeyError:
            self.index[s] = len(self.items)
            self.items.append(s)
            return self.index[s]


def write_text(scene) -> str:
    buf = io.StringIO()
    scene.export_text(buf)
    return buf.getvalue()


def read_text(text: str):
    return ch.Scene.parse_text(Tokenizer(text))


def write_binary(scene):
    pool = Pool()
    data = scene.export_binary(pool)
    return data, pool.items


def read_binary(data: bytes, pool: list):
    f = io.BytesIO(data)
    scene = ch.Scene.parse_binary(f, list(pool))
    rest = f.read()
    return scene, rest


def exc_name(exc: BaseException) -> str:
    return type(exc).__name__


def spec_flags(specs: list, form: str) -> dict:
    """Coarse, stable facts about the written value(s) for known-finding predicates; only the ones the given
    encoding's known defects depend on, to keep failure groups few."""
    evs = [ev for spec in specs for ev in iter_spec_events(spec)]
    special = set('"\\\n')
    if form == 'any':
        return {'abs_tag_above_1': any(v > 1.0 for ev in evs for _, v in ev['abs_play'] + ev['abs_shift'])}
    if form == 'text':
        return {
            'flex_tracks': any(ev['flex'] for ev in evs),
            'cc_token_or_scale_key_special': any(special & set(ev.get('cc_token', '')) for ev in evs)
            or any(special & set(k) for spec in specs for k, _ in spec['scale_settings']),
        }
    return {'relative_tag': any(ev['tag'] is not None for ev in evs)}


def check_form(acc: core.Acc, case: dict, spec: dict, form: str, scene=None, expected=None) -> str:
    """write -> read -> observe -> write again for one encoding.  `scene`/`expected` may be supplied (sample
    files: expected is the observation of the first reading)."""
    sig = dict(part=PART, form=form)
    if spec is not None:
        sig.update(spec_flags([spec], form))
    label = f'{form} {core.jdump(case)[:400]}'
    try:
        if scene is None:
            scene = b_scene(spec)
    except Exception as exc:  # noqa: BLE001
        acc.fail('choreo_construct_raises', case, f'{label}\nbuilding the value raised {exc!r}', exc=exc_name(exc),
                 part=PART, form='any', **spec_flags([spec], 'any'))
        return 'construct_raises'
    try:
        w1 = write_text(scene) if form == 'text' else write_binary(scene)
    except Exception as exc:  # noqa: BLE001
        acc.fail('choreo_write_raises', case, f'{label}\nwriter raised {exc!r}', exc=exc_name(exc), **sig)
        return 'write_raises'
    try:
        if form == 'text':
            back, rest = read_text(w1), b''
        else:
            back, rest = read_binary(*w1)
    except Exception as exc:  # noqa: BLE001
        shown = w1 if form == 'text' else f'pool={w1[1]!r} data={w1[0].hex()}'
        acc.fail('choreo_read_raises', case, f'{label}\nreader raised {exc!r} on the writer\'s own output:\n{shown}',
                 exc=exc_name(exc), **sig)
        return 'read_raises'
    if expected is None:
        expected = expect_scene(spec, form)
    got = observe_scene(back, form)
    paths = diff(expected, got)
    if rest:
        paths.append('#trailing_bytes')
    status = 'ok'
    if paths:
        p0 = paths[0]
        shown = w1 if form == 'text' else f'pool={w1[1]!r} data={w1[0].hex()}'
        acc.fail('choreo_roundtrip_diff', case,
                 f'{label}\n{len(paths)} field(s) differ after read(write(x)); first: {p0}: wrote '
                 f'{pick(expected, p0)!r}, read back {pick(got, p0)!r}; all: {paths[:8]}\nwritten:\n{shown}',
                 fields=coarse(paths), **sig)
        status = 'diff'
    try:
        w2 = write_text(back) if form == 'text' else write_binary(back)
    except Exception as exc:  # noqa: BLE001
        acc.fail('choreo_rewrite_raises', case, f'{label}\nsecond write raised {exc!r}', exc=exc_name(exc), **sig)
        return status + '+rewrite_raises'
    if w2 != w1 and status == 'ok':
        acc.fail('choreo_rewrite_diff', case, f'{label}\nwrite(read(write(x))) != write(x)\nfirst : {w1!r}\nsecond: {w2!r}',
                 **sig)
        status = 'rewrite_diff'
    return status


def check_scene_case(acc: core.Acc, case: dict) -> None:
    spec = make_spec(case['focus'], case['devs'])
    if not representable(spec):
        acc.count('choreo_excluded_unrepresentable')
        return
    acc.evaluations += 1
    st_t = check_form(acc, case, spec, 'text')
    st_b = check_form(acc, case, spec, 'binary') if st_t != 'construct_raises' else st_t
    if 'ok' in (st_t, st_b):
        acc.nontrivial += 1
    acc.outcome((case['focus'], len(case['devs']), st_t, st_b))


# ---------------------------------------------------------------------------------------------
# scenes.image

FILENAMES = ['scenes/a.vcd', 'B.VCD', 'scenes\\sub\\c.vcd', 'd', 'SCENES/Sub/e.vcd']


def my_crc(filename: str) -> int:
    """checksum_filename's documented normalisation, recomputed with zlib."""
    name = filename.lower().replace('/', '\\')
    if not name.startswith('scenes\\'):
        name = 'scenes\\' + name
    return zlib.crc32(name.encode('ascii')) & 0xFFFFFFFF


def expected_summary(spec: dict) -> tuple:
    """(duration_ms, last_speak_ms, sorted sounds) from the spec: the latest end (or start, for events without
    an end) over all events / over Speak events, counted from the scene start at 0 (the container stores an
    unsigned duration); sounds = each Speak event's wave + the caption it plays."""
    def stop(evs):
        times = [(e['end'] if e['end'] != -1.0 else e['start']) for e in evs]
        return max(times + [0.0])
    evs = list(iter_spec_events(spec))
    sounds = set()
    for e in evs:
        if e['type'] != 'Speak':
            continue
        sounds.add(e['params'][0])
        token = e['cc_token'] or e['params'][0]
        if e['cc_type'] == 'Master' or (e['cc_type'] == 'Slave' and not e['combined']):
            sounds.add(token)
    return (round(stop(evs) * 1000.0), round(stop([e for e in evs if e['type'] == 'Speak']) * 1000.0), sorted(sounds))


def cstr(buf: bytes, off: int) -> str:
    end = buf.index(b'\0', off)
    return buf[off:end].decode('latin1')


def un_lzma(data: bytes) -> bytes:
    """Source's LZMA wrapper: 'LZMA', uint32 size, uint32 compressed size, 5 property bytes, raw LZMA1 stream."""
    if data[:4] != b'LZMA':
        return data
    size, csize = struct.unpack_from('<II', data, 4)
    props = data[12]
    dict_size = struct.unpack_from('<I', data, 13)[0]
    lc, rem = props % 9, props // 9
    lp, pb = rem % 5, rem // 5
    dec = lzma.LZMADecompressor(lzma.FORMAT_RAW, filters=[
        {'id': lzma.FILTER_LZMA1, 'dict_size': max(dict_size, 4096), 'lc': lc, 'lp': lp, 'pb': pb}])
    return dec.decompress(data[17:17 + csize], max_length=size)


def decode_image(buf: bytes) -> dict:
    """Independent decoder of the VSIF container."""
    magic, version, n_scene, n_str, scene_off = struct.unpack_from('<4s4i', buf, 0)
    if magic != b'VSIF':
        raise ValueError(f'bad magic {magic!r}')
    offs = struct.unpack_from(f'<{n_str}i', buf, 20)
    strings = [cstr(buf, o) for o in offs]
    entries = []
    for i in range(n_scene):
        crc, d_off, d_size, s_off = struct.unpack_from('<Iiii', buf, scene_off + 16 * i)
        if version == 3:
            dur, last, n_snd = struct.unpack_from('<Iii', buf, s_off)
            pos = s_off + 12
        else:
            dur, n_snd = struct.unpack_from('<Ii', buf, s_off)
            last = None
            pos = s_off + 8
        snd = [strings[j] for j in struct.unpack_from(f'<{n_snd}i', buf, pos)]
        if not (0 < d_off and d_off + d_size <= len(buf)):
            raise ValueError(f'entry {i}: data range {d_off}+{d_size} outside the file ({len(buf)} bytes)')
        entries.append({'crc': crc, 'duration_ms': dur, 'last_speak_ms': last, 'sounds': snd,
                        'data': un_lzma(buf[d_off:d_off + d_size])})
    return {'version': version, 'strings': strings, 'entries': entries}


def check_image_case(acc: core.Acc, case: dict) -> None:
    """case: {'version': 2|3, 'entries': [[filename, focus, devs], ...]} in input order; 'light': skip the two
    second-generation saves (each save costs one 16 MiB-dictionary LZMA run per entry)."""
    version = case['version']
    label = f'scenes.image {core.jdump(case)[:500]}'
    specs = [make_spec(focus, devs) for _, focus, devs in case['entries']]
    sig = dict(spec_flags(specs, 'image'), part=PART, form='image', version=version)
    if not all(representable(s) for s in specs):
        acc.count('choreo_excluded_unrepresentable')
        return
    acc.evaluations += 1
    try:
        scenes = [b_scene(s) for s in specs]
    except Exception:  # noqa: BLE001 - reported by the scene cases
        acc.outcome(('image', 'construct_raises'))
        return
    want = {}
    for (fname, _, _), spec in zip(case['entries'], specs):
        want[my_crc(fname)] = (expected_summary(spec), expect_scene(spec, 'binary'))
    unsorted_input = [my_crc(e[0]) for e in case['entries']] != sorted(want)

    def save(entries) -> bytes:
        f = io.BytesIO()
        ch.save_scenes_image_sync(f, entries, version=version)
        return f.getvalue()

    try:
        entries = [ch.Entry.from_scene(fname, sc) for (fname, _, _), sc in zip(case['entries'], scenes)]
        w1 = save(entries)
    except Exception as exc:  # noqa: BLE001
        acc.fail('choreo_image_write_raises', case, f'{label}\nwriter raised {exc!r}', exc=exc_name(exc),
                 all_events_before_0=any(all((e['end'] if e['end'] != -1.0 else e['start']) < 0
                                             for e in iter_spec_events(s)) for s in specs), **sig)
        acc.outcome(('image', 'write_raises'))
        return
    # (1) independent decode: order + summaries
    status = 'ok'
    try:
        dec = decode_image(w1)
    except Exception as exc:  # noqa: BLE001
        acc.fail('choreo_image_undecodable', case, f'{label}\nindependent decoder: {exc!r}\nfile={w1.hex()}', **sig)
        acc.outcome(('image', 'undecodable'))
        return
    crcs = [e['crc'] for e in dec['entries']]
    if dec['version'] != version or len(crcs) != len(want):
        acc.fail('choreo_image_header', case, f'{label}\nheader says version {dec["version"]}, {len(crcs)} entries', **sig)
        status = 'bad'
    if any(a >= b for a, b in zip(crcs, crcs[1:])):
        acc.fail('choreo_image_unsorted', case, f'{label}\nentry checksums in file order are not strictly ascending: {crcs}',
                 **sig)
        status = 'bad'
    if sorted(crcs) != sorted(want):
        acc.fail('choreo_image_checksums', case, f'{label}\nchecksums in file {sorted(crcs)} != expected {sorted(want)}', **sig)
        status = 'bad'
    for e in dec['entries']:
        if e['crc'] not in want:
            continue
        (dur, last, snd), _ = want[e['crc']]
        bad = []
        if e['duration_ms'] != dur:
            bad.append(f'duration {e["duration_ms"]} != {dur}')
        if version == 3 and e['last_speak_ms'] != last:
            bad.append(f'last_speak {e["last_speak_ms"]} != {last}')
        if e['sounds'] != snd:
            bad.append(f'sounds {e["sounds"]} != {snd}')
        if e['data'][:5] != b'bvcd\x04':
            bad.append(f'data does not start with a BVCD header: {e["data"][:8]!r}')
        if bad:
            acc.fail('choreo_image_summary', case, f'{label}\nentry {e["crc"]:#x}: ' + '; '.join(bad), **sig)
            status = 'bad'
    # (2) the library's reader reproduces the scenes
    try:
        back = ch.parse_scenes_image(io.BytesIO(w1))
        if list(back) != sorted(want):
            acc.fail('choreo_image_roundtrip_diff', case, f'{label}\nparse_scenes_image keys {list(back)} != {sorted(want)}',
                     fields=['checksum'], **sig)
            status = 'bad'
        for crc, entry in back.items():
            if crc not in want:
                continue
            (dur, last, snd), exp_scene = want[crc]
            got = {'checksum': int(entry.checksum), 'duration_ms': entry.duration_ms, 'sounds': list(entry.sounds)}
            exp = {'checksum': crc, 'duration_ms': dur, 'sounds': snd}
            if version == 3:    # v2 does not store it; what the reader fills in is not a round-trip matter
                got['last_speak_ms'] = entry.last_speak_ms
                exp['last_speak_ms'] = last
            paths = diff(exp, got)
            # parse the scene from a *copy* of the entry so that `back` keeps its raw data for step (3)
            raw, pool = entry._data
            sc_back = ch.Scene.parse_binary(io.BytesIO(raw), pool)
            paths += diff(exp_scene, observe_scene(sc_back, 'binary'), 'scene')
            if paths:
                acc.fail('choreo_image_roundtrip_diff', case,
                         f'{label}\nentry {crc:#x} read back differently at {paths[:8]}', fields=coarse(paths), **sig)
                status = 'bad'
    except Exception as exc:  # noqa: BLE001
        acc.fail('choreo_image_read_raises', case, f'{label}\nreader raised {exc!r}\nfile={w1.hex()}', exc=exc_name(exc), **sig)
        acc.outcome(('image', 'read_raises'))
        return
    # (3) second generation, (a) entries still unparsed (data copied), (b) every entry parsed first
    if status == 'ok' and not case.get('light'):
        try:
            w2 = save(back)
            if w2 != w1:
                acc.fail('choreo_image_rewrite_diff', case, f'{label}\nsave(parse(file)) != file (entries left unparsed)\n'
                         f'first : {w1.hex()}\nsecond: {w2.hex()}', path='raw', unsorted_input=unsorted_input, **sig)
                status = 'rewrite_diff'
            if len(want) >= 2:
                # the mapping form with keys that no longer match (or sort like) the entries' checksums, as after renaming entries
                back3 = ch.parse_scenes_image(io.BytesIO(w1))
                stale = {n + 1: e for n, (_, e) in enumerate(sorted(back3.items(), reverse=True))}
                w4 = save(stale)
                if w4 != w1:
                    acc.fail('choreo_image_rewrite_diff', case, f'{label}\nsaving the same entries as a mapping whose keys are not their checksums gives a different file\n'
                             f'first : {w1.hex()[:400]}\nmapping: {w4.hex()[:400]}', path='stale_keys', unsorted_input=unsorted_input, **sig)
                    status = 'rewrite_diff'
            # an entry of the parsed image edited in place through Entry.data: the edit is what gets saved
            back4 = ch.parse_scenes_image(io.BytesIO(w1))
            crc0 = min(back4)
            sc0 = back4[crc0].data
            flipped = not sc0.ignore_phonemes
            sc0.ignore_phonemes = flipped
            again = ch.parse_scenes_image(io.BytesIO(save(back4)))
            if sorted(again) != sorted(back4) or again[crc0].data.ignore_phonemes is not flipped:
                acc.fail('choreo_image_edit_lost', case, f'{label}\nparse, set entry.data.ignore_phonemes = {flipped} on entry {crc0:#x}, save, parse: '
                         f'the flag reads {again[crc0].data.ignore_phonemes if crc0 in again else "<entry missing>"}', **sig)
                status = 'edit_lost'
            back2 = ch.parse_scenes_image(io.BytesIO(w1))
            for entry in back2.values():
                _ = entry.data
            w3 = save(back2)
            if w3 != w1 and status == 'ok':
                d1, d3 = decode_image(w1), decode_image(w3)
                acc.fail('choreo_image_rewrite_diff', case, f'{label}\nsave(parse(file)) != file (every entry parsed before saving)\n'
                         f'first  pool: {d1["strings"]}\nsecond pool: {d3["strings"]}', path='parsed',
                         unsorted_input=unsorted_input, **sig)
                status = 'rewrite_diff'
        except Exception as exc:  # noqa: BLE001
            acc.fail('choreo_image_rewrite_raises', case, f'{label}\nsecond write raised {exc!r}', exc=exc_name(exc), **sig)
            status = 'rewrite_raises'
    if status == 'ok':
        acc.nontrivial += 1
    acc.outcome(('image', version, len(case['entries']), status))


# ---------------------------------------------------------------------------------------------
# sample files

SAMPLES = ['sample.vcd', 'test_save_text.vcd', 'test_save_binary.bvcd']


def check_sample(acc: core.Acc, case: dict) -> None:
    acc.evaluations += 1
    path = os.path.join(core.REPO, 'tests', 'test_choreo', case['file'])
    label = f'sample {case["file"]}'
    try:
        if case['file'].endswith('.bvcd'):
            with open(path, 'rb') as f:
                blob = f.read()
            pool, end = json.JSONDecoder().raw_decode(blob.decode('latin1'))
            data = blob[end:]
            scene, rest = read_binary(data, pool)
            forms = ['binary']
            # the stored file is itself writer output: it must be reproduced exactly
            again = write_binary(scene)
            if again != (data, pool) or rest:
                acc.fail('choreo_rewrite_diff', case, f'{label}: write(read(file)) != file', part=PART, form='binary')
        else:
            with open(path, encoding='utf8') as f:
                text = f.read()
            scene = read_text(text)
            forms = ['text', 'binary']
    except Exception as exc:  # noqa: BLE001
        acc.fail('choreo_read_raises', case, f'{label}: reader raised {exc!r}', exc=exc_name(exc),
                 part=PART, form='sample')
        return
    ok = True
    bin_scene = scene
    for form in forms:
        if form == 'binary' and 'text' in forms:
            # the text sample is not float32/1-byte exact: the first binary generation quantises it (compared with
            # a tolerance), from then on the value must be reproduced exactly
            try:
                bin_scene, _ = read_binary(*write_binary(scene))
            except Exception as exc:  # noqa: BLE001
                acc.fail('choreo_read_raises', case, f'{label}: binary round trip raised {exc!r}', exc=exc_name(exc),
                         part=PART, form='binary')
                ok = False
                continue
            paths = diff_approx(observe_scene(scene, 'binary'), observe_scene(bin_scene, 'binary'))
            if paths:
                acc.fail('choreo_roundtrip_diff', case, f'{label}: binary form differs beyond quantisation at {paths[:8]}',
                         fields=coarse(paths), part=PART, form='binary')
                ok = False
            st = check_form(acc, case, None, form, scene=bin_scene, expected=observe_scene(bin_scene, form))
        else:
            st = check_form(acc, case, None, form, scene=scene, expected=observe_scene(scene, form))
        ok = ok and st == 'ok'
    if len(list(scene.iter_events())) >= 3 and ok:
        acc.nontrivial += 1
    acc.outcome(('sample', case['file'], ok))
    # the sample as a scenes.image entry
    for version in (2, 3):
        try:
            f = io.BytesIO()
            ch.save_scenes_image_sync(f, [ch.Entry.from_scene('scenes/sample.vcd', bin_scene)], version=version)
            dec = decode_image(f.getvalue())
            back = ch.parse_scenes_image(io.BytesIO(f.getvalue()))
            [entry] = back.values()
            paths = diff(observe_scene(bin_scene, 'binary'), observe_scene(entry.data, 'binary'))
            if paths or dec['entries'][0]['crc'] != my_crc('scenes/sample.vcd'):
                acc.fail('choreo_image_roundtrip_diff', case, f'{label} via scenes.image v{version}: {paths[:8]}',
                         fields=coarse(paths), part=PART, form='image', version=version)
        except Exception as exc:  # noqa: BLE001
            acc.fail('choreo_image_write_raises', case, f'{label} via scenes.image v{version}: {exc!r}',
                     exc=exc_name(exc), all_events_before_0=False, part=PART, form='image', version=version)


# ---------------------------------------------------------------------------------------------
# enumeration

def combos(focus: str, depth: int):
    """Every choice of exactly `depth` distinct features, each set to one of its values.  Single deviations use
    every value; deeper levels use each feature's primary values."""
    feats = features(focus)
    for idxs in itertools.combinations(range(len(feats)), depth):
        ranges = []
        for i in idxs:
            name, values, primary, _ = feats[i]
            n = len(values) if depth == 1 else primary
            ranges.append([(i, v) for v in range(n)])
        yield from itertools.product(*ranges)


def devs_of(focus: str, combo) -> list:
    feats = features(focus)
    return [[feats[i][0], feats[i][1][v]] for i, v in combo]


# features the entry summary (duration, last speak, sounds) depends on: explored pairwise as one-entry images
SUMMARY_FEATURES = ['start', 'end', 'param1', 'cc_type', 'cc_token', 'combined', 'chan_events', 'globals', 'place']


def summary_pairs() -> list:
    feats = features('S')
    idx = [i for i, f in enumerate(feats) if f[0] in SUMMARY_FEATURES]
    out = []
    for i, j in itertools.combinations(idx, 2):
        out.extend(itertools.product([(i, v) for v in range(feats[i][2])], [(j, v) for v in range(feats[j][2])]))
    return out


# scenes for multi-entry images: (focus, devs)
IMAGE_MENU = [
    ('S', []),
    ('S', [['cc_type', 'Slave'], ['cc_token', 'tok']]),
    ('E', [['globals', 2]]),
    ('G', [['end', 1000.5], ['chan_events', 'speak_after']]),
    ('S', [['cc_type', 'Disabled'], ['param1', 'a b']]),
]


def shard(spec) -> core.Acc:
    acc = core.Acc()
    kind = spec[0]
    if kind == 'scene':
        _, focus, combo_list = spec
        for combo in combo_list:
            check_scene_case(acc, {'part': PART, 'mode': 'scene', 'focus': focus, 'devs': devs_of(focus, combo)})
        if combo_list:
            acc.sample({'part': PART, 'mode': 'scene', 'focus': focus, 'devs': devs_of(focus, combo_list[-1])}, 1)
    elif kind == 'image1':
        _, focus, combo_list, versions = spec
        for combo in combo_list:
            for version in versions:
                check_image_case(acc, {'part': PART, 'mode': 'image', 'version': version, 'light': True,
                                       'entries': [[FILENAMES[0], focus, devs_of(focus, combo)]]})
    elif kind == 'imageN':
        _, perms = spec
        for perm in perms:
            for version in (2, 3):
                check_image_case(acc, {'part': PART, 'mode': 'image', 'version': version,
                                       'entries': [[FILENAMES[i], IMAGE_MENU[i][0], IMAGE_MENU[i][1]] for i in perm]})
        if perms:
            acc.sample({'part': PART, 'mode': 'image', 'version': 3,
                        'entries': [[FILENAMES[i], IMAGE_MENU[i][0], IMAGE_MENU[i][1]] for i in perms[-1]]}, 1)
    elif kind == 'image_big':
        for k in spec[1]:
            for version in (2, 3):
                check_image_case(acc, {'part': PART, 'mode': 'image', 'version': version, 'light': True,
                                       'entries': [[FILENAMES[0], 'S', [['chan_events', f'far_repeat:{k}']]]]})
    elif kind == 'sample':
        check_sample(acc, {'part': PART, 'mode': 'sample', 'file': spec[1]})
    return acc


def run(ctx: core.Ctx) -> None:
    depth = ctx.pick(2, 3)
    shards = []
    # scenes.image first: LZMA with Source's 16 MiB dictionary costs ~20 ms per entry and save
    image_foci = ctx.pick(['S'], list(FOCI))
    for focus in FOCI:
        singles = [()] + (list(combos(focus, 1)) if focus in image_foci else [])
        for chunk in core.chunked(singles, 30):
            shards.append(('image1', focus, chunk, (2, 3)))
    menu = range(ctx.pick(4, len(IMAGE_MENU)))
    perms = [p for r in (1, 2, 3) for p in itertools.permutations(menu, r)]
    for chunk in core.chunked(perms, 3):
        shards.append(('imageN', chunk))
    for chunk in core.chunked(summary_pairs(), 30):
        shards.append(('image1', 'S', chunk, ctx.pick((3,), (2, 3))))
    # scenes of 2..40 KB (binary) holding a long repeat at growing distances (the compressed container has to restore them exactly)
    for ks in ([0, 1], [2, 3], [5, 8], [13, 21], [40]) if ctx.quick else ([0, 1], [2, 3], [4, 5], [6, 8], [10, 13], [17, 21], [30], [40], [64]):
        shards.append(('image_big', ks))
    shards += [('sample', f) for f in SAMPLES]
    n_scene = 0
    for focus in FOCI:
        for d in range(0, depth + 1):
            all_c = list(combos(focus, d))
            n_scene += len(all_c)
            for chunk in core.chunked(all_c, 400):
                shards.append(('scene', focus, chunk))
    k = ctx.seed % len(shards)
    core.par_map(shard, shards[k:] + shards[:k], ctx.acc)
    ctx.acc.count('choreo_scene_cases', n_scene)
    ctx.acc.count('choreo_image_permutations', len(perms))


RULE = (
    'choreo: base scene (one actor > one channel > one focus event) with the focus event taken from each of '
    '{Expression, Speak, Gesture, Loop} (every other EventType as a single deviation) + every choice of <= 2 (quick) '
    '/ <= 3 (thorough) features set to each boundary value, features = every Event field, each flag, '
    'relative/timing/absolute tags, ramps and ramp edges, relative-tag names, flex tracks, loop count, all speak '
    'options, extra events/channels/actors, active flags, and every Scene field; each case goes through text '
    '(export_text/parse_text with a default Tokenizer) and binary (export_binary/parse_binary with a harness string '
    'pool); every Interpolation member is swept as a single deviation.  scenes.image v2+v3: every base scene and every '
    'single-deviation scene (quick: Speak focus; thorough: all four) and every pair of deviations over the 9 features '
    'the entry summary depends on (times, wave, caption options, extra events, placement; quick: v3 only) as a one-entry image, and '
    'every ordered selection of 1-3 of 4 (quick) / 5 (thorough) (filename, scene) pairs (these also re-saved); the '
    'file is decoded independently (struct + lzma) for order and summaries, read back, and re-saved both with '
    'unparsed and with parsed entries.  Sample files tests/test_choreo/*.  Representability: strings are latin-1 '
    'without NUL; times/floats are float32-exact with <= 6 decimals (distance: 2 decimals, >= 0); ramp and tag values '
    'are k/255, absolute tag values k/4096 < 16; pitch/yaw in [-100,100]; fps in [10,240]; loop count is a signed byte; '
    'tag_name/tag_wav_name are both absent or both strings; inactive curve edges carry default fields; '
    'use_combined_file is not set together with CaptionType.Disabled (neither encoding stores it); '
    'default_curve_type and time_zoom_lookup stay default (no reader restores them); entries of one image have '
    'distinct checksums.  Compared per form only: text = map_name, fps, snap, scale settings, faceposer model, '
    'pitch/yaw, curve edges, ramp sample curve types, timing-tag lock; binary = text_crc; scenes.image v2 has no '
    'last-speak time.  Non-trivial = at least one encoding of the case was written, read back equal and rewritten '
    'identically.'
)


def replay(case: dict) -> list:
    acc = core.Acc()
    mode = case.get('mode')
    if mode == 'scene':
        check_scene_case(acc, case)
    elif mode == 'image':
        check_image_case(acc, case)
    elif mode == 'sample':
        check_sample(acc, case)
    return acc.all_failures()
