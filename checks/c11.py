"""C11 - every BSP lump writer inverts its reader.

For each structured lump: build a small world (lists of length 0..3) out of plain records, deviate <= d fields of
one record to each boundary value of the field's on-disk type, construct the library objects through the public
constructors, assign them to the views of an (independently encoded) empty BSP of each layout, save(), re-read and
compare what the independent observer sees with what was assigned.  Out-of-range values must make save() raise.
Visibility bit strings and runlength_encode/decode are enumerated separately.
"""
from __future__ import annotations

import copy
import itertools
import os
import re
import struct

from srctools import bsp as B

from mcv import core
from checks import bspgen as G

PROPERTY = 'C11'
LEVEL = 'exploration'

# ---------------------------------------------------------------------------------------------------------
# value alphabets per on-disk type

INT_RANGE = {'i8': (-128, 127), 'u8': (0, 255), 'i16': (-2 ** 15, 2 ** 15 - 1), 'u16': (0, 2 ** 16 - 1),
             'i32': (-2 ** 31, 2 ** 31 - 1), 'u32': (0, 2 ** 32 - 1), 'u7': (0, 127), 'u2': (0, 3), 'lvl': (0, 254)}
CODE_KIND = {'b': 'i8', 'B': 'u8', 'h': 'i16', 'H': 'u16', 'i': 'i32', 'I': 'u32', 'f': 'f32', '?': 'bool'}
F32 = [0.0, -0.0, 1.5, 2.0 ** -10, G.F32_MAX, -1.0]
ANG = [0.0, 1.5, 2.0 ** -10, 359.5]
NAME127 = 'm' * 121 + '/x.mdl'
assert len(NAME127) == 127


def fmt_codes(st) -> list:
    """Expand a struct format into one type code per value ('<H??i4h4s' -> H ? ? i h h h h s)."""
    fmt = st.format if isinstance(st, struct.Struct) else st
    out = []
    for cnt, code in re.findall(r'(\d*)([a-zA-Z?])', fmt):
        if code == 'x':
            continue
        if code == 's':
            out.append('s')
        else:
            out.extend([code] * int(cnt or 1))
    return out


def values(kind) -> list:
    """In-range boundary values of a field kind."""
    if isinstance(kind, tuple):
        tag = kind[0]
        if tag == 'enum':
            return list(kind[1])
        if tag == 'flags':
            return [0] + [1 << i for i in range(kind[1])]
        if tag == 'intf':
            return [float(v) for v in values(kind[1])]
        if tag == 'set':
            return list(kind[1])
        raise KeyError(kind)
    if kind in INT_RANGE:
        lo, hi = INT_RANGE[kind]
        return sorted({v for v in (0, 1, -1, lo, hi) if lo <= v <= hi})
    if kind == 'f32':
        return F32
    if kind == 'ang':
        return ANG
    if kind == 'bool':
        return [False, True]
    if kind == 'styles':
        return ['00000000', 'ffffffff', '01020304']
    if kind == 'name128':
        # bytes > 127 travel as surrogate escapes: a lone one, and a pair that happens to be valid UTF-8 (C3 A9)
        return ['', 'a', 'Models/Props_x/a b.mdl', NAME127, NAME127 + 'z', 'models/x\udce9.mdl', 'models/caf\udcc3\udca9/t.mdl']
    if kind == 'name127':
        return ['', 'a', 'Brick/Wall_01b', NAME127, 'caf\udcc3\udca9/wall']
    if kind == 'ambient':
        return [bytes(24).hex(), bytes(range(200, 224)).hex()]
    raise KeyError(kind)


def overflow_values(kind) -> list:
    """Values one step outside the on-disk range: save() has to reject them."""
    if isinstance(kind, tuple):
        if kind[0] == 'intf':
            return [float(v) for v in overflow_values(kind[1])]
        return []
    if kind in INT_RANGE:
        lo, hi = INT_RANGE[kind]
        return [hi + 1, lo - 1]
    if kind == 'name128':
        return [NAME127 + 'zz']
    if kind == 'name127':
        return [NAME127 + 'z']
    if kind == 'f32':
        return [1e39, -3.5e38]       # finite, but beyond the 32-bit float the field stores (would have to become an infinity)
    return []


# ---------------------------------------------------------------------------------------------------------
# families

def cyc(lst: list, n: int) -> list:
    return [copy.deepcopy(lst[i % len(lst)]) for i in range(n)]


def layout_kind(layout: str, key: str, pos: int) -> str:
    return CODE_KIND[fmt_codes(G.LAYOUTS[layout]['tbl'][key])[pos]]


def bounds_kind(layout: str, key: str, pos: int):
    k = layout_kind(layout, key, pos)
    return k if k == 'f32' else ('intf', k)


class Family:
    name = ''
    main = ''                 # the list deviations are applied to
    check: list = []          # views compared exactly (deep form)
    layout_keys: list = []    # entries of the layout table that matter -> layout classes
    max_n = 3

    def base(self, layout: str, n: int) -> dict:
        raise NotImplementedError

    def fields(self, layout: str, world: dict, i: int) -> list:
        """[(absolute path, kind)] for record i of the main list."""
        return []

    def variants(self, layout: str) -> list:
        """[(name, world)] structural cases: sharing, duplicates, dangling references."""
        return []

    def class_key(self, layout: str):
        tbl = G.LAYOUTS[layout]['tbl']
        out = []
        for k in self.layout_keys:
            v = tbl[k]
            out.append(v.format if isinstance(v, struct.Struct) else v)
        return tuple(out) + (layout == 'vitamin',)

    def usable(self, layout: str) -> bool:
        return True


W0 = {lay: G.make_world(lay, variants=False) for lay in G.LAYOUT_NAMES}      # (the families below vary these lists themselves)
# Chaos stores node/leaf bounds as floats.  Keep the base world integral so that a problem with fractional bounds is
# reported by the leaf/node families (where 1.5 and 2^-10 are boundary values) and not by everything that refers to a leaf.
for _rec in W0['chaos']['visleafs'] + W0['chaos']['nodes']:
    _rec['mins'] = [float(int(x)) for x in _rec['mins']]
    _rec['maxes'] = [float(int(x)) for x in _rec['maxes']]


def sub(layout: str, *names) -> dict:
    return {k: copy.deepcopy(W0[layout][k]) for k in names}


class Planes(Family):
    name, main, check = 'planes', 'planes', ['planes']

    def base(self, layout, n):
        return {'planes': cyc(W0[layout]['planes'], n)}

    def fields(self, layout, world, i):
        p = ['planes', i]
        return [(p + ['n', k], 'f32') for k in range(3)] + [(p + ['d'], 'f32'), (p + ['t'], ('enum', range(6)))]


class Vertexes(Family):
    name, main, check = 'vertexes', 'vertexes', ['vertexes']

    def base(self, layout, n):
        return {'vertexes': cyc(W0[layout]['vertexes'], n)}

    def fields(self, layout, world, i):
        return [(['vertexes', i, k], 'f32') for k in range(3)]


class Textures(Family):
    name, main, check = 'textures', 'textures', ['textures']

    def base(self, layout, n):
        return {'textures': cyc(['TOOLS/TOOLSNODRAW', 'brick/Wall01', 'nature/water_x'], n)}

    def fields(self, layout, world, i):
        return [(['textures', i], 'name127')]

    def variants(self, layout):
        return [('dup', {'textures': ['a', 'a']}), ('suffix', {'textures': ['xab', 'ab', 'b']}),
                ('empty_names', {'textures': ['', 'a', '']}), ('high_bytes', {'textures': ['a\udce9b']})]


class TexInfo(Family):
    name, main, check = 'texinfo', 'texinfo', ['texinfo', 'textures']

    def base(self, layout, n):
        w = sub(layout, 'textures', 'texdata')
        w['texinfo'] = cyc(W0[layout]['texinfo'], n)
        return w

    def fields(self, layout, world, i):
        p = ['texinfo', i]
        out = [(p + [a, k], 'f32') for a in ('s', 't', 'ls', 'lt') for k in range(4)]
        out.append((p + ['flags'], ('flags', 32)))
        td = ['texdata', world['texinfo'][i]['td']]
        out += [(td + ['refl', k], 'f32') for k in range(3)] + [(td + ['w'], 'i32'), (td + ['h'], 'i32')]
        return out

    def variants(self, layout):
        w = self.base(layout, 3)
        out = []
        a = copy.deepcopy(w)
        a['texdata'].append(copy.deepcopy(a['texdata'][1]))     # equal but distinct TexData
        a['texinfo'][2]['td'] = 2
        out.append(('dup_texdata', a))
        b = copy.deepcopy(w)
        b['texinfo'][1] = copy.deepcopy(b['texinfo'][0])          # equal but distinct TexInfo
        out.append(('dup_texinfo', b))
        c = copy.deepcopy(w)
        c['textures'] = ['TOOLS/TOOLSNODRAW']                     # materials missing from the name table get added
        c['check_override'] = ['texinfo']
        out.append(('new_texture_names', c))
        return out


class SurfEdges(Family):
    name, main, check, layout_keys = 'surfedges', 'surfedges', ['surfedges'], ['EDGE']

    def base(self, layout, n):
        w = sub(layout, 'vertexes')
        w['surfedges'] = copy.deepcopy(W0[layout]['surfedges'][:n])
        return w

    def variants(self, layout):
        v = W0[layout]['vertexes']
        out = []
        out.append(('fwd_and_rev', {'vertexes': copy.deepcopy(v), 'surfedges': [
            {'a': 0, 'b': 1, 'e': 0, 'rev': False}, {'a': 1, 'b': 0, 'e': 0, 'rev': True}]}))
        out.append(('rev_only', {'vertexes': copy.deepcopy(v), 'surfedges': [{'a': 1, 'b': 0, 'e': 0, 'rev': True}]}))
        out.append(('degenerate', {'vertexes': copy.deepcopy(v), 'surfedges': [{'a': 2, 'b': 2, 'e': 0, 'rev': False}]}))
        out.append(('dup_vertex', {'vertexes': [v[0], v[0], v[1]], 'surfedges': [
            {'a': 0, 'b': 2, 'e': 0, 'rev': False}, {'a': 1, 'b': 2, 'e': 1, 'rev': False}]}))
        out.append(('dangling_vertex', {'vertexes': copy.deepcopy(v[:2]), 'extras': {'vertexes': [[9.0, 9.5, 10.0]]},
                                        'surfedges': [{'a': 0, 'b': ['x', 0], 'e': 0, 'rev': False}],
                                        'check_override': ['surfedges']}))
        out.append(('same_edge_twice', {'vertexes': copy.deepcopy(v), 'surfedges': [
            {'a': 0, 'b': 1, 'e': 0, 'rev': False}, {'a': 1, 'b': 2, 'e': 1, 'rev': False}, {'a': 0, 'b': 1, 'e': 0, 'rev': False}],
            'check_override': []}))
        out.append(('origin_vertex_present', {'vertexes': [[0.0, 0.0, 0.0]] + copy.deepcopy(v), 'surfedges': [
            {'a': 1, 'b': 2, 'e': 0, 'rev': False}]}))
        return out


class Primitives(Family):
    name, main, check, layout_keys = 'primitives', 'primitives', ['primitives'], ['PRIMITIVE', 'PRIMINDEX']

    def usable(self, layout):
        return layout != 'vitamin'

    def base(self, layout, n):
        src = W0['v20']['primitives'] + [{'type': 0, 'inds': [], 'verts': [[0.5, 0.25, -8.0]]}]
        return {'primitives': cyc(src, n)}

    def fields(self, layout, world, i):
        p = ['primitives', i]
        rec = world['primitives'][i]
        out = [(p + ['type'], layout_kind(layout, 'PRIMITIVE', 0))]
        if rec['inds']:
            out.append((p + ['inds', 0], layout_kind(layout, 'PRIMINDEX', 0)))
        if rec['verts']:
            out += [(p + ['verts', 0, k], 'f32') for k in range(3)]
        return out


FACE_LISTS = ['textures', 'texdata', 'texinfo', 'planes', 'vertexes', 'surfedges', 'primitives', 'orig_faces']


class Faces(Family):
    layout_keys = ['FACE', 'FACEID']

    def __init__(self, which: str):
        self.name = self.main = which
        self.check = [which]

    def usable(self, layout):
        return layout != 'vitamin' or self.main == 'faces'

    def base(self, layout, n):
        w = sub(layout, *FACE_LISTS)
        src = W0[layout]['faces'] if self.main != 'orig_faces' else W0[layout]['orig_faces']
        if self.main == 'orig_faces':
            # parsed on their own, original faces carry no texinfo / hammer id
            src = [dict(f, texinfo=None, hid=None) for f in src]
            w['orig_faces'] = cyc(src, n)
        else:
            w[self.main] = cyc(src, n)
            if layout != 'vitamin':
                self.fix_orig(w)
        return w

    def fix_orig(self, w):
        """An original face takes texinfo and hammer id from the (last) split face that refers to it."""
        for o in w['orig_faces']:
            o['texinfo'] = None
            o['hid'] = None
        for f in w[self.main]:
            if isinstance(f['orig'], int):
                w['orig_faces'][f['orig']]['texinfo'] = f['texinfo']
                w['orig_faces'][f['orig']]['hid'] = f['hid']

    def fields(self, layout, world, i):
        p = [self.main, i]
        if layout == 'vitamin':
            return ([(p + ['disp'], 'i32'), (p + ['vflags'], 'u8')] + [(p + ['lm_mins', k], 'i32') for k in range(2)] +
                    [(p + ['lm_size', k], 'i32') for k in range(2)])
        out = [(p + ['side'], 'bool'), (p + ['on_node'], 'bool'), (p + ['disp'], layout_kind(layout, 'FACE', 6)),
               (p + ['fog'], layout_kind(layout, 'FACE', 7)), (p + ['styles'], 'styles'), (p + ['lmoff'], 'i32'),
               (p + ['area'], 'f32'), (p + ['dyn'], 'bool'), (p + ['smooth'], layout_kind(layout, 'FACE', 18))]
        out += [(p + ['lm_mins', k], 'i32') for k in range(2)] + [(p + ['lm_size', k], 'i32') for k in range(2)]
        if self.main != 'orig_faces':
            out.append((p + ['hid'], layout_kind(layout, 'FACEID', 0)))
        return out

    def post(self, world, layout):
        if self.main != 'orig_faces' and layout != 'vitamin':
            self.fix_orig(world)

    def variants(self, layout):
        if layout == 'vitamin':
            w = self.base(layout, 2)
            a = copy.deepcopy(w)
            a.setdefault('extras', {})['planes'] = [{'n': [0.0, 0.5, 0.5], 'd': 3.0, 't': 5}]
            a['faces'][1]['plane'] = ['x', 0]
            return [('dangling_plane', a)]
        out = []
        w = self.base(layout, 3)
        m = self.main
        a = copy.deepcopy(w)
        a['extras'] = {'planes': [{'n': [0.0, 0.5, 0.5], 'd': 3.0, 't': 5}]}
        a[m][1]['plane'] = ['x', 0]
        out.append(('dangling_plane', a))
        a = copy.deepcopy(w)
        a['planes'].append(copy.deepcopy(a['planes'][0]))
        a[m][1]['plane'] = len(a['planes']) - 1
        out.append(('dup_plane', a))
        if m != 'orig_faces':
            a = copy.deepcopy(w)
            a['extras'] = {'texinfo': [copy.deepcopy(a['texinfo'][2])]}
            a[m][2]['texinfo'] = ['x', 0]
            a['orig_faces'][1]['texinfo'] = ['x', 0]
            out.append(('dangling_texinfo', a))
            a = copy.deepcopy(w)
            a['extras'] = {'orig_faces': [copy.deepcopy(a['orig_faces'][1])]}
            a[m][2]['orig'] = ['x', 0]
            a['orig_faces'][1].update(texinfo=None, hid=None)
            out.append(('dangling_orig_face', a))
            a = copy.deepcopy(w)
            a[m][1]['orig'] = None        # FACEIDS has no "none": the hammer id stays an integer
            self.fix_orig(a)
            out.append(('no_orig_face', a))
        a = copy.deepcopy(w)
        a['extras'] = {'primitives': [{'type': 1, 'inds': [5], 'verts': [[1.0, 1.0, 2.0]]}]}
        a[m][0]['prims'] = [['x', 0]]
        out.append(('dangling_primitive', a))
        a = copy.deepcopy(w)
        a['extras'] = {'surfedges': [{'a': 3, 'b': 4, 'e': 7, 'rev': False}, {'a': 4, 'b': 3, 'e': 7, 'rev': True}]}
        a[m][0]['edges'] = [['x', 0], ['x', 1]]
        out.append(('dangling_edges', a))
        a = copy.deepcopy(w)
        a[m][0]['edges'] = []
        a[m][0]['prims'] = []
        out.append(('no_edges', a))
        a = copy.deepcopy(w)
        a[m][1]['edges'] = list(a[m][0]['edges'])      # two faces sharing one run of surfedges
        out.append(('shared_edges', a))
        return out


class Brushes(Family):
    name, main, check, layout_keys = 'brushes', 'brushes', ['brushes'], ['BRUSHSIDE']

    def base(self, layout, n):
        w = sub(layout, 'textures', 'texdata', 'texinfo', 'planes')
        w['brushes'] = cyc(W0[layout]['brushes'], n)
        return w

    def fields(self, layout, world, i):
        p = ['brushes', i]
        out = [(p + ['contents'], ('flags', 32))]
        s = p + ['sides', 0]
        if layout == 'vitamin':
            out += [(s + ['disp'], 'i16'), (s + ['bevel'], 'bool'), (s + ['bits'], 'u8')]
        else:
            out += [(s + ['disp'], layout_kind(layout, 'BRUSHSIDE', 2)), (s + ['bevel'], 'bool'),
                    (s + ['bits'], ('set', [0, 2, 0x8000, 0xFFFE]))]
        return out

    def variants(self, layout):
        w = self.base(layout, 2)
        out = []
        a = copy.deepcopy(w)
        a['brushes'][1]['sides'] = []
        out.append(('no_sides', a))
        a = copy.deepcopy(w)
        a['extras'] = {'planes': [{'n': [0.0, 0.5, 0.5], 'd': 3.0, 't': 5}], 'texinfo': [copy.deepcopy(a['texinfo'][0])]}
        a['brushes'][0]['sides'][1]['plane'] = ['x', 0]
        a['brushes'][0]['sides'][2]['texinfo'] = ['x', 0]
        out.append(('dangling_plane_texinfo', a))
        a = copy.deepcopy(w)
        a['brushes'][1]['sides'] = copy.deepcopy(a['brushes'][0]['sides'][:2])   # equal but distinct sides
        out.append(('dup_sides', a))
        if layout != 'vitamin':
            for bits in (2, 0x8000, 0xFFFE):       # bevel flag AND extra bits of the same field set together
                a = copy.deepcopy(w)
                for sd in a['brushes'][0]['sides']:
                    sd['bevel'] = True
                    sd['bits'] = bits
                a['brushes'][1]['sides'][0].update(bevel=False, bits=bits)
                out.append((f'bevel_with_bits_{bits:x}', a))
        return out

    def overflow_extra(self, layout, world, i):
        if layout == 'vitamin':
            return []
        return [(['brushes', i, 'sides', 0, 'bits'], 0x10000)]


LEAF_LISTS = FACE_LISTS + ['faces', 'brushes']


class Leafs(Family):
    name, main, check = 'visleafs', 'visleafs', ['visleafs']
    layout_keys = ['LEAF', 'LEAFFACE', 'LEAFBRUSH', 'LEAF_AREA_OFFSET']

    def base(self, layout, n):
        w = sub(layout, *LEAF_LISTS)
        w['visleafs'] = cyc(W0[layout]['visleafs'], n)
        return w

    def fields(self, layout, world, i):
        p = ['visleafs', i]
        vit = layout == 'vitamin'
        out = [(p + ['contents'], ('flags', 32)), (p + ['cluster'], layout_kind(layout, 'LEAF', 1)),
               (p + ['flags'], ('flags', 7)), (p + ['dist'], 'u16')]
        if vit:
            out.append((p + ['area'], 'i16'))
            out.append((p + ['water_id'], 'i16'))
            bpos = 3
        else:
            shift = G.LAYOUTS[layout]['tbl']['LEAF_AREA_OFFSET']
            bits = (16 if layout != 'chaos' else 32) - shift
            out.append((p + ['area'], ('set', [0, 1, -1, 2 ** (bits - 1) - 1, -2 ** (bits - 1)])))
            out.append((p + ['water_id'], layout_kind(layout, 'LEAF', 13)))
            bpos = 3
        bk = bounds_kind(layout, 'LEAF', bpos)
        out += [(p + [a, k], bk) for a in ('mins', 'maxes') for k in range(3)]
        if layout == 'v19':
            out.append((p + ['ambient'], 'ambient'))
        return out

    def overflow_extra(self, layout, world, i):
        if layout == 'vitamin':
            return []
        shift = G.LAYOUTS[layout]['tbl']['LEAF_AREA_OFFSET']
        bits = (16 if layout != 'chaos' else 32) - shift
        return [(['visleafs', i, 'area'], 2 ** (bits - 1)), (['visleafs', i, 'area'], -2 ** (bits - 1) - 1)]

    def variants(self, layout):
        w = self.base(layout, 3)
        out = []
        a = copy.deepcopy(w)
        a['visleafs'][2]['faces'] = [0, 0, 1]      # the same face twice in one leaf, and shared with another leaf
        a['visleafs'][2]['brushes'] = [1, 1]
        out.append(('repeated_refs', a))
        a = copy.deepcopy(w)
        a['extras'] = {'faces': [copy.deepcopy(a['faces'][0])], 'brushes': [copy.deepcopy(a['brushes'][1])]}
        a['visleafs'][0]['faces'] = [['x', 0]]
        a['visleafs'][0]['brushes'] = [['x', 0], 0]
        if layout != 'vitamin':
            a['orig_faces'][a['faces'][0]['orig']].update(texinfo=a['faces'][0]['texinfo'], hid=a['faces'][0]['hid'])
        out.append(('dangling_face_brush', a))
        return out


NODE_LISTS = LEAF_LISTS + ['visleafs']


class Nodes(Family):
    name, main, check, layout_keys = 'nodes', 'nodes', ['nodes'], ['NODE']

    def base(self, layout, n):
        w = sub(layout, *NODE_LISTS)
        src = W0[layout]['nodes']
        if n == 0:
            w['nodes'] = []
        elif n == 1:
            w['nodes'] = [dict(copy.deepcopy(src[0]), neg=['l', 1], pos=['l', 0])]
        elif n == 2:
            w['nodes'] = copy.deepcopy(src)
        else:
            w['nodes'] = [dict(copy.deepcopy(src[0]), neg=['n', 2], pos=['n', 1]), copy.deepcopy(src[1]),
                          dict(copy.deepcopy(src[1]), neg=['l', 0], pos=['l', 2], faces=[])]
        return w

    def fields(self, layout, world, i):
        p = ['nodes', i]
        bk = bounds_kind(layout, 'NODE', 3)
        return [(p + [a, k], bk) for a in ('mins', 'maxes') for k in range(3)] + [(p + ['area'], 'i16')]

    def variants(self, layout):
        w = self.base(layout, 2)
        out = []
        a = copy.deepcopy(w)
        a['nodes'][1]['neg'] = ['l', 2]
        a['nodes'][1]['pos'] = ['l', 2]          # both children the same leaf
        out.append(('same_leaf_twice', a))
        a = copy.deepcopy(w)
        a['extras'] = {'visleafs': [copy.deepcopy(a['visleafs'][2])], 'planes': [{'n': [0.0, 0.5, 0.5], 'd': 3.0, 't': 5}]}
        a['nodes'][1]['pos'] = ['l', ['x', 0]]
        a['nodes'][0]['plane'] = ['x', 0]
        out.append(('dangling_leaf_plane', a))
        a = copy.deepcopy(w)
        a['nodes'] = a['nodes'][::-1]             # child node placed before its parent
        a['nodes'][1]['neg'] = ['n', 0]
        out.append(('child_before_parent', a))
        # the list holds only the root; its children are reachable through child_neg / child_pos alone (the writer has to
        # append them, as it does for every other referenced object)
        w3 = self.base(layout, 3)
        a = copy.deepcopy(w3)
        a['extras'] = dict(a.get('extras', {}), nodes=[copy.deepcopy(w3['nodes'][1]), copy.deepcopy(w3['nodes'][2])])
        a['nodes'] = [dict(copy.deepcopy(w3['nodes'][0]), neg=['n', ['x', 1]], pos=['n', ['x', 0]])]
        a['check_prefix'] = True
        out.append(('children_only_linked', a))
        a = copy.deepcopy(w3)
        a['extras'] = dict(a.get('extras', {}), nodes=[copy.deepcopy(w3['nodes'][2])])
        a['nodes'] = [dict(copy.deepcopy(w3['nodes'][0]), neg=['n', ['x', 0]], pos=['n', 1]), copy.deepcopy(w3['nodes'][1])]
        a['check_prefix'] = True
        out.append(('one_child_only_linked', a))
        return out


class Water(Family):
    name, main, check, layout_keys = 'water_leaf_info', 'water_leaf_info', ['water_leaf_info'], ['LEAFWATERDATA']

    def base(self, layout, n):
        w = sub(layout, 'textures', 'texdata', 'texinfo')
        w['water_leaf_info'] = cyc([{'surf_z': 12.5, 'min_z': -3.25, 'texinfo': 2}, {'surf_z': 0.0, 'min_z': -64.0, 'texinfo': 0}], n)
        return w

    def fields(self, layout, world, i):
        p = ['water_leaf_info', i]
        return [(p + ['surf_z'], 'f32'), (p + ['min_z'], 'f32')]

    def variants(self, layout):
        w = self.base(layout, 2)
        w['extras'] = {'texinfo': [copy.deepcopy(w['texinfo'][1])]}
        w['water_leaf_info'][1]['texinfo'] = ['x', 0]
        return [('dangling_texinfo', w)]


class BModels(Family):
    name, main, check = 'bmodels', 'bmodels', ['bmodels', 'ents']

    def base(self, layout, n):
        w = sub(layout, *(NODE_LISTS + ['nodes']))
        ents = copy.deepcopy(W0[layout]['ents'])
        bm = copy.deepcopy(W0[layout]['bmodels'])
        # n = number of brush entities besides the world
        w['ents'] = [ents[0]] + [copy.deepcopy(ents[1]) for _ in range(n)] + [ents[3]]
        w['bmodels'] = [bm[0]] + [dict(copy.deepcopy(bm[1]), cls=k + 1) for k in range(n)] + [None]
        return w

    def fields(self, layout, world, i):
        p = ['bmodels', i]
        if world['bmodels'][i] is None:
            return []
        return [(p + [a, k], 'f32') for a in ('mins', 'maxes', 'origin') for k in range(3)]

    def variants(self, layout):
        out = []
        w = self.base(layout, 2)
        a = copy.deepcopy(w)
        a['bmodels'][2] = copy.deepcopy(a['bmodels'][1])       # two entities sharing one brush model
        out.append(('shared_model', a))
        a = copy.deepcopy(w)
        a['bmodels'][1]['phys_kv'] = [['solid', [['index', '0'], ['name', 'a b'], ['sub', [['x', '1']]]]], ['editparams', [['rootname', '']]],
                                      ['solid', [['surfaceprop', 'custom\\metal'], ['tab\there', 'say "x"'], ['multi', 'l1\nl2']]]]
        a['bmodels'][1]['solids'] = ['00', '', 'ff' * 40]
        out.append(('physics_on_entity', a))
        a = copy.deepcopy(w)
        a['bmodels'][0]['phys_kv'] = None
        a['bmodels'][0]['solids'] = []
        out.append(('no_physics', a))
        a = copy.deepcopy(w)
        a['bmodels'][0]['phys_kv'] = []                          # physics block with solids but an empty text section
        out.append(('solids_without_text', a))
        a = copy.deepcopy(w)
        a['extras'] = {'nodes': [copy.deepcopy(a['nodes'][1])]}
        a['bmodels'][1]['node'] = ['x', 0]
        out.append(('dangling_node', a))
        # the mapping assigned to bsp.bmodels was filled brush entities first and worldspawn last: the world is still model 0
        # (the observer numbers models by first appearance in entity order, so the expectation does not depend on the file's numbering)
        a = copy.deepcopy(w)
        a['bmodels'][1]['mins'] = [-3.0, -3.0, -3.0]
        a.setdefault('extras', {})['__bmodels_insert_reversed'] = True
        out.append(('world_inserted_last', a))
        return out


class Cubemaps(Family):
    name, main, check = 'cubemaps', 'cubemaps', ['cubemaps']

    def base(self, layout, n):
        return {'cubemaps': cyc(W0[layout]['cubemaps'], n)}

    def fields(self, layout, world, i):
        p = ['cubemaps', i]
        return [(p + ['origin', k], ('intf', 'i32')) for k in range(3)] + [(p + ['size'], 'i32')]


class Overlays(Family):
    name, main, check = 'overlays', 'overlays', ['overlays']

    def base(self, layout, n):
        w = sub(layout, 'textures', 'texdata', 'texinfo')
        w['overlays'] = cyc(W0[layout]['overlays'], n)
        return w

    def fields(self, layout, world, i):
        p = ['overlays', i]
        out = [(p + ['id'], 'i32'), (p + ['order'], 'u2')]
        out += [(p + [a, k], 'f32') for a in ('origin', 'normal', 'uv1', 'uv2', 'uv3', 'uv4') for k in range(3)]
        out += [(p + [a, k], 'f32') for a in ('u', 'v', 'fade') for k in range(2)]
        out += [(p + ['levels', k], 'lvl') for k in range(4)]
        out += [(p + ['faces', 0], 'i32')]
        return out

    def variants(self, layout):
        w = self.base(layout, 1)
        out = []
        for cnt in (0, 1, 63, 64):
            a = copy.deepcopy(w)
            a['overlays'][0]['faces'] = list(range(cnt))
            out.append((f'faces_{cnt}', a))
        a = copy.deepcopy(w)
        a['extras'] = {'texinfo': [copy.deepcopy(a['texinfo'][0])]}
        a['overlays'][0]['texinfo'] = ['x', 0]
        out.append(('dangling_texinfo', a))
        return out

    def overflow_worlds(self, layout):
        a = self.base(layout, 1)
        a['overlays'][0]['faces'] = list(range(65))
        return [('faces_65', a, ['overlays', 0, 'faces'])]


class Props(Family):
    main, check = 'props', ['props']
    layout_keys = ['STATICPROPLEAF']

    def __init__(self, ver: str):
        self.ver = ver
        self.name = 'props_' + ver

    def usable(self, layout):
        # representability: a v11/80-byte lump inside a version-20 BSP *is* the Black Mesa layout for the reader
        if self.ver == 'V11' and G.LAYOUTS[layout]['version'] == 20:
            return False
        if self.ver == 'V_LIGHTMAP_MESA' and G.LAYOUTS[layout]['version'] != 20:
            return False
        return True

    def class_key(self, layout):
        return super().class_key(layout)[:1]

    def base(self, layout, n):
        w = sub(layout, *NODE_LISTS)
        src = [dict(model='models/props/a.mdl', origin=[1.5, -2.25, 3.0], angles=[12.5, 270.0, 0.0], scaling=[1.25, 0.5, 2.0], leafs=[1, 2],
                    solidity=6, flags=0x414, skin=1, fade=[8.25, 12.75], lighting=[0.375, -1.5, -5.25], fade_scale=-1.0, dx=[1, 3],
                    cpu=[2, 4], gpu=[3, 6], tint=[192.0, 255.0, 64.0], renderfx=128, xbox=True, lightmap=[48, 16]),
               dict(model='models/props_b/thing02.mdl', origin=[0.0, 0.0, 0.0], angles=[0.0, 0.0, 0.0], scaling=[1.0, 1.0, 1.0], leafs=[1],
                    solidity=0, flags=1, skin=-1, fade=[0.0, 0.0], lighting=[0.0, 0.0, 0.0], fade_scale=1.0, dx=[0, 0],
                    cpu=[0, 0], gpu=[0, 0], tint=[255.0, 255.0, 255.0], renderfx=255, xbox=False, lightmap=[32, 32]),
               dict(model='models/props/a.mdl', origin=[5.0, 6.0, 7.0], angles=[0.0, 90.0, 0.0], scaling=[2.0, 2.0, 2.0], leafs=[],
                    solidity=2, flags=0, skin=0, fade=[1.0, 2.0], lighting=[5.0, 6.0, 7.5], fade_scale=0.5, dx=[0, 0],
                    cpu=[0, 0], gpu=[0, 0], tint=[0.0, 0.0, 0.0], renderfx=0, xbox=False, lightmap=[32, 32])]
        w['props'] = {'version': self.ver, 'props': [G.norm_prop(p, self.ver) for p in cyc(src, n)]}
        return w

    def fields(self, layout, world, i):
        p = ['props', 'props', i]
        fs = G.prop_fields(self.ver)
        out = [(p + ['model'], 'name128'), (p + ['solidity'], 'u8'), (p + ['skin'], 'i32')]
        out += [(p + ['origin', k], 'f32') for k in range(3)] + [(p + ['lighting', k], 'f32') for k in range(3)]
        out += [(p + ['angles', k], 'ang') for k in range(3)] + [(p + ['fade', k], 'f32') for k in range(2)]
        if 'flags32' in fs:
            out.append((p + ['flags'], ('flags', 32)))
        elif 'flags_sec' in fs:
            out.append((p + ['flags'], ('flags', 40)))
        else:
            out.append((p + ['flags'], ('flags', 8)))
        if 'fade_scale' in fs:
            out.append((p + ['fade_scale'], 'f32'))
        if 'dx' in fs:
            out += [(p + ['dx', k], 'u16') for k in range(2)]
        if 'cpu' in fs:
            out += [(p + [a, k], 'u8') for a in ('cpu', 'gpu') for k in range(2)]
        if 'lightmap' in fs:
            out += [(p + ['lightmap', k], 'u16') for k in range(2)]
        if 'tint' in fs:
            out += [(p + ['tint', k], ('intf', 'u8')) for k in range(3)] + [(p + ['renderfx'], 'u8')]
        if 'xbox' in fs:
            out.append((p + ['xbox'], 'bool'))
        if 'scale3' in fs:
            out += [(p + ['scaling', k], 'f32') for k in range(3)]
        elif 'scale1' in fs:
            out.append((p + ['scaling', '*'], 'f32'))
        return out

    def variants(self, layout):
        w = self.base(layout, 2)
        a = copy.deepcopy(w)
        a['extras'] = {'visleafs': [copy.deepcopy(a['visleafs'][1])]}
        a['props']['props'][1]['leafs'] = [['x', 0], 0]
        out = [('dangling_leaf', a)]
        fs = G.prop_fields(self.ver)
        if 'scale1' in fs or 'scale3' in fs:
            b = copy.deepcopy(w)          # StaticProp.scaling may be a plain float
            b['props']['props'][0]['scaling'] = [1.5, 1.5, 1.5]
            b['props']['props'][0]['scaling_is_float'] = True
            out.append(('float_scaling', b))
        c = copy.deepcopy(w)              # model names that differ only in letter case are different dictionary entries
        c['props']['props'][1]['model'] = c['props']['props'][0]['model'].upper()
        out.append(('model_case_variants', c))
        return out


class DetailProps(Family):
    name, main, check = 'detail_props', 'detail_props', ['detail_props']

    def base(self, layout, n):
        src = W0[layout]['detail_props']
        return {'detail_props': cyc([src[0], src[1], src[2]], n)}

    def fields(self, layout, world, i):
        p = ['detail_props', i]
        rec = world['detail_props'][i]
        out = [(p + ['origin', k], 'f32') for k in range(3)] + [(p + ['angles', k], 'ang') for k in range(3)]
        out += [(p + ['orient'], ('enum', range(3))), (p + ['leaf'], 'u16'), (p + ['sway'], 'u8'),
                (p + ['styles', 0], 'u32'), (p + ['styles', 1], 'u8')]
        out += [(p + ['lighting', k], 'u8') for k in range(4)]
        if rec['kind'] == 'model':
            out.append((p + ['model'], 'name128'))
        else:
            out.append((p + ['scale'], 'f32'))
            out += [(p + [a, k], 'f32') for a in ('dims', 'tex') for k in range(4)]
            if rec['kind'] == 'shape':
                out += [(p + ['cross'], 'bool'), (p + ['shape_angle'], 'u8'), (p + ['shape_size'], 'u8')]
        return out

    def variants(self, layout):
        src = W0[layout]['detail_props']
        return [('all_kinds', {'detail_props': copy.deepcopy(src)}),
                ('same_sprite_twice', {'detail_props': [copy.deepcopy(src[1]), copy.deepcopy(src[1]), copy.deepcopy(src[3])]}),
                ('shape_only', {'detail_props': [copy.deepcopy(src[3])]})]


class Pakfile(Family):
    name, main, check, max_n = 'pakfile', 'pakfile', ['pakfile'], 3

    def base(self, layout, n):
        files = [['materials/maps/x/c0_0_0.vmt', b'"LightmappedGeneric"\n{\n}\n'.hex()], ['cfg/a b.txt', bytes(range(256)).hex()],
                 ['empty.bin', '']]
        return {'pakfile': files[:n]}


# entity lump ------------------------------------------------------------------------------------------------

ENT_VALUES = ['', 'a', ' ', 'a b', '1 2 3', 'a,b', 'a,b,c,d', 'a,b,c,d,e', 'a,b,c,1,x', 'a,b,,,', '"', 'say "hi"', '\\', 'a\\nb',
              'dir\\path', '\n', 'two\nlines', '\t', 'a\udce9b', '{', '}', '//x', 'x;y', 'instance:a;b', '[flag]', "'q'", '0', '-1.5']
ENT_KEYS = ['a', 'A', 'a b', 'Key_1', 'origin', 'a.b', 'a\\b', 'a"b', 'a\nb']
OUT_FIELDS = {
    0: ['OnX', 'on_y', 'a b'],                       # output name
    1: [None, 'inner'],                              # inst_out
    2: ['', 't', 'a b', '!self'],                    # target
    3: ['Inp', 'a b'],                               # input
    4: [None, 'other'],                              # inst_in
    5: ['', 'p', 'a b', '1', 'a,b', 'say "x"', 'a\\b', 'l1\nl2'],     # params
    6: [0.0, 1.5, 0.25, 2.0 ** -10, 1234567.0, G.F32_MAX, -1.0],  # delay
    7: [-1, 1, 0, 5, 2 ** 31, -2 ** 31 - 1],          # times (text on disk: no range)
}


class Ents(Family):
    name, main, check = 'ents', 'ents', ['ents']

    def base(self, layout, n):
        spawn = {'kv': [['classname', 'worldspawn'], ['mapversion', '7']], 'outs': []}
        ent = {'kv': [['classname', 'logic_relay'], ['targetname', 'r']],
               'outs': [['OnX', None, 't', 'Inp', None, '', 0.0, -1, False]]}
        return {'ents': [spawn] + cyc([ent], n)}


FAMILIES: list = [Planes(), Vertexes(), Textures(), TexInfo(), SurfEdges(), Primitives(), Faces('faces'), Faces('orig_faces'),
                  Faces('hdr_faces'), Brushes(), Leafs(), Nodes(), Water(), BModels(), Cubemaps(), Overlays(), DetailProps(), Pakfile(), Ents()]
FAMILIES += [Props(v.name) for v in B.StaticPropVersion if v.name not in ('UNKNOWN', 'DEFAULT')]
FAM = {f.name: f for f in FAMILIES}


# ---------------------------------------------------------------------------------------------------------
# executing one case

_BASE_DIR = None
_BASE_FILES: dict = {}


def work_dir() -> str:
    base = _BASE_DIR or f'/dev/shm/verif-C11-replay-{os.getpid()}'
    d = os.path.join(base, f'w{os.getpid()}')
    if not os.path.isdir(d):
        os.makedirs(d, exist_ok=True)
    return d


def base_file(layout: str, sprp) -> str:
    key = (layout, sprp, os.getpid())
    p = _BASE_FILES.get(key)
    if p is None or not os.path.exists(p):
        p = os.path.join(work_dir(), f'empty-{layout}-{sprp}.bsp')
        with open(p, 'wb') as f:
            f.write(G.empty_file(layout, sprp))
        _BASE_FILES[key] = p
    return p


def set_path(world: dict, path: list, value) -> None:
    obj = world
    for k in path[:-1]:
        obj = obj[k]
    if path[-1] == '*':            # uniform scaling: one float on disk, three in the object
        for k in range(len(obj)):
            obj[k] = value
    else:
        obj[path[-1]] = value


def norm_path(path: list) -> str:
    return '.'.join(str(k) for k in path if not isinstance(k, int) and k != '*')


OUT_NAMES = ['output', 'inst_out', 'target', 'input', 'inst_in', 'params', 'delay', 'times', 'comma_sep']


def strip_idx(path: str) -> str:
    """'nodes[0].neg[1].mins[0]' -> 'nodes.mins' (view + innermost field name: coarse and stable)."""
    path = re.sub(r'outs\[\d+\]\[(\d)\]', lambda m: 'outs.' + OUT_NAMES[int(m.group(1))], path)
    parts = re.sub(r'\[\d+\]', '', path).lstrip('.').split('.')
    return parts[0] if len(parts) == 1 else parts[0] + '.' + parts[-1]


def make_world(case: dict) -> dict:
    fam = FAM[case['fam']]
    if 'vis' in case:
        ln, s_, t_ = case['vis']
        world = vis_world(ln, bytes.fromhex(s_), bytes.fromhex(t_))
    elif 'world' in case:
        world = copy.deepcopy(case['world'])
    else:
        world = fam.base(case['layout'], case['n'])
    for path, value in case.get('devs', []):
        set_path(world, path, value)
    if case.get('devs') and hasattr(fam, 'post'):
        fam.post(world, case['layout'])
    return world


def run_case(acc: core.Acc, case: dict) -> None:
    """case: {fam, layout, n | world, devs: [[path, value]...], overflow: bool, sep: None|bool, tag}"""
    fam = FAM[case['fam']]
    layout = case['layout']
    overflow = bool(case.get('overflow'))
    acc.evaluations += 1
    world = make_world(case)
    check = world.pop('check_override', fam.check)
    check_prefix = world.pop('check_prefix', False)
    field = norm_path(case['devs'][0][0]) if case.get('devs') else case.get('tag', 'base')
    if fam.name == 'ents':
        field = ents_field(case)
    if len(case.get('devs', [])) > 1:
        field2 = norm_path(case['devs'][1][0])
    else:
        field2 = None
    cls = 'vitamin' if layout == 'vitamin' else 'chaos' if layout == 'chaos' else 'std'
    sig = dict(lump=fam.main, field=field, layout_class=cls,
               variant=case.get('tag') or ('overflow' if overflow else 'deviation'))
    if fam.main == 'props':
        sig['prop_version'] = fam.ver
    if case.get('tag') == 'key_escape':
        sig['key_escape'] = True
    what = f'{fam.name} layout={layout} n={case.get("n")} tag={case.get("tag")} devs={case.get("devs")}'

    def fail(kind, detail, **extra):
        s = dict(sig)
        s.update(extra)
        acc.fail(kind, case, f'{what}: {detail}', **s)

    sprp = world['props']['version'] if 'props' in world else None
    bsp = B.BSP(base_file(layout, sprp))
    if 'sep' in case and case['sep'] is not None:
        bsp.out_comma_sep = case['sep']
        for e in world['ents']:
            for o in e['outs']:
                o[8] = case['sep']
    out = os.path.join(work_dir(), 'out.bsp')
    stage = 'construct'
    try:
        G.assign_views(bsp, world)
        if case.get('flip_own'):
            for ent in bsp.ents.entities:
                for o in ent.outputs:
                    o.comma_sep = not case['sep']
        if case.get('also_read'):
            for other in G.VIEWS:
                if other not in world:
                    try:
                        getattr(bsp, other)
                    except Exception:  # noqa: BLE001 - some views cannot be parsed from the empty base file; not this clause's business
                        acc.count('other_view_unreadable_on_empty_base')
        if 'props' in world:
            for rec in world['props']['props']:
                rec.pop('scaling_is_float', None)      # builder hint, not content
        stage = 'save'
        with G.quiet():
            bsp.save(out)
    except Exception as exc:  # noqa: BLE001
        acc.outcome((fam.main, stage + '_raises', type(exc).__name__, overflow))
        if overflow:
            acc.count('overflow_rejected')
            return
        fail(stage + '_raises', f'{type(exc).__name__}: {exc}', clause=stage + '_raises', exc=type(exc).__name__)
        return
    subject = world.get(fam.main)
    if isinstance(subject, dict) and 'props' in subject:
        subject = subject['props']
    if subject not in ([], None) or case.get('devs'):
        acc.nontrivial += 1
    try:
        obs = G.observe(B.BSP(out), names=set(check) | set(world) - {'texdata', 'extras'})
    except Exception as exc:  # noqa: BLE001
        fail('reread_raises', f'{type(exc).__name__}: {exc}', clause='reread_raises', exc=type(exc).__name__)
        return
    if 'props' in world and not world['props']['props']:
        world['props']['version'] = obs.get('props', {}).get('version') if isinstance(obs.get('props'), dict) else None
    want, got = G.Deep(world), G.Deep(obs)
    diffs = []
    for name in check:
        wv, gv = want.view(name), got.view(name)
        if check_prefix and isinstance(wv, list) and isinstance(gv, list) and len(gv) > len(wv):
            gv = gv[:len(wv)]     # referenced-only objects are appended by the writer; their content is compared through the links
        d = G.first_diff(wv, gv, name)
        if d:
            diffs.append((name, d))
    if overflow:
        if diffs:
            name, d = diffs[0]
            fail('silent_truncation', f'out-of-range value was saved without an error and read back differently: {d}',
                 clause='truncation')
            acc.outcome((fam.main, 'truncated'))
        else:
            acc.count('overflow_value_fits')
            acc.outcome((fam.main, 'overflow_fits', field))
        return
    for name, d in diffs:
        got_field = strip_idx(d.split(':')[0])
        if '__error__' in d:
            fail('reread_view_raises', d, clause='reread_raises', view=name)
        else:
            fail('value_changed', f'assigned != re-read at {d}', clause='roundtrip', view=name, field=got_field)
    # lists that were assigned but are not the subject: what was assigned must still be there, in place
    for name in world:
        if name in check or name in ('texdata', 'extras') or name not in G.VIEWS:
            continue
        a, b_ = want.view(name), got.view(name)
        if isinstance(a, list) and isinstance(b_, list):
            d = G.first_diff(a, b_[:len(a)], name)
            if d:
                fail('referenced_list_changed', f'list assigned alongside changed: {d}', clause='roundtrip', view=name,
                     field=strip_idx(d.split(':')[0]))
    acc.outcome((fam.main, 'ok' if not diffs else 'diff'))


# ---------------------------------------------------------------------------------------------------------
# enumeration

def family_layouts(fam: Family) -> tuple[list, list]:
    """(all usable layouts, one representative per layout class)"""
    usable = [lay for lay in G.LAYOUT_NAMES if fam.usable(lay)]
    reps: dict = {}
    for lay in usable:
        reps.setdefault(fam.class_key(lay), lay)
    return usable, list(reps.values())


def deviations(fam: Family, layout: str, world: dict, n: int) -> list:
    """positions of the deviated record: every position for n <= 2, the last for n == 3"""
    if n == 0:
        return []
    return list(range(n)) if n <= 2 else [n - 1]


def check_index_builders(acc: core.Acc, maxlen: int) -> None:
    """binformat.find_or_insert / find_or_extend (the cross-lump index builders) against their contract, exhaustively:
    every initial list and every sequence of two queries over a 3-symbol alphabet up to maxlen.  After finder(items) == i
    the list must hold exactly `items` at i .. i+len (that is what the lump readers will dereference), earlier content
    must be unchanged, and the list may only have grown by appending."""
    import itertools as it
    from srctools.binformat import find_or_extend, find_or_insert
    alpha = 'abc'
    seqs = [list(t) for n in range(0, maxlen + 1) for t in it.product(alpha, repeat=n)]
    for base in seqs:
        for q1 in seqs:
            for q2 in seqs[:40]:
                acc.evaluations += 1
                lst = list(base)
                finder = find_or_extend(lst, lambda x: x)
                ok = True
                for q in (q1, q2):
                    before = list(lst)
                    i = finder(list(q))
                    if lst[:len(before)] != before or (q and lst[i:i + len(q)] != q):
                        acc.fail('index_builder_wrong', {'index_builder': 'find_or_extend', 'base': base, 'queries': [q1, q2]},
                                 f'find_or_extend on {base}: query {q} returned {i}, list is now {lst}', lump='index_builder', field='find_or_extend',
                                 variant='index_builder', layout_class='n/a')
                        ok = False
                        break
                if ok and q1:
                    acc.nontrivial += 1
        for q in alpha:
            lst = list(base)
            fi = find_or_insert(lst, lambda x: x)
            i = fi(q)
            acc.evaluations += 1
            if lst[:len(base)] != base or lst[i] != q or (q in base and len(lst) != len(base)):
                acc.fail('index_builder_wrong', {'index_builder': 'find_or_insert', 'base': base, 'queries': [[q]]},
                         f'find_or_insert on {base}: {q!r} -> {i}, list {lst}', lump='index_builder', field='find_or_insert',
                         variant='index_builder', layout_class='n/a')


def check_index_builder_histories(acc: core.Acc, maxlen: int) -> None:
    """The same list OBJECT served by two builders one after the other (what two saves of one BSP, or a list moved to another
    BSP, do), with an in-place edit between them that keeps the length: reverse, swap, item assignment, clear-and-refill,
    pop-and-append.  The second builder answers for the list as it is now.  Both module functions, same key function object."""
    import itertools as it
    from srctools.binformat import find_or_extend, find_or_insert

    def key(x):
        return x

    edits = {
        'reverse': lambda l: l.reverse(),
        'swap_ends': lambda l: l.__setitem__(slice(None), [l[-1]] + l[1:-1] + [l[0]]) if len(l) > 1 else None,
        'assign_first': lambda l: l.__setitem__(0, 'z') if l else None,
        'refill': lambda l: (lambda c: (l.clear(), l.extend(c[1:] + c[:1])))(list(l)),
        'pop_append': lambda l: l.append(l.pop(0)) if l else None,
        'sort': lambda l: l.sort(),
    }
    alpha = 'abc'
    bases = [list(t) for n in range(1, maxlen + 1) for t in it.product(alpha, repeat=n)]
    for base in bases:
        for ename, edit in edits.items():
            for builder in ('find_or_insert', 'find_or_extend'):
                for q in alpha + 'z':
                    acc.evaluations += 1
                    lst = list(base)
                    if builder == 'find_or_insert':
                        find_or_insert(lst, key)(base[0])          # first builder, a query that does not grow the list
                    else:
                        find_or_extend(lst, key)([base[0]])
                    if lst != base:
                        continue        # (reported by check_index_builders)
                    edit(lst)
                    now = list(lst)
                    if now != base:
                        acc.nontrivial += 1
                    if builder == 'find_or_insert':
                        i = find_or_insert(lst, key)(q)
                        good = lst[:len(now)] == now and 0 <= i < len(lst) and lst[i] == q and (q not in now or len(lst) == len(now))
                    else:
                        i = find_or_extend(lst, key)([q])
                        good = lst[:len(now)] == now and 0 <= i < len(lst) and lst[i] == q
                    if not good:
                        acc.fail('index_builder_wrong', {'index_builder': builder, 'base': base, 'edit_between': ename, 'queries': [[q]]},
                                 f'{builder} on one list object: built once for {base}, list then edited in place ({ename}) to {now}; a second '
                                 f'builder answered {q!r} -> {i}, list is now {lst}', lump='index_builder', field=builder,
                                 variant='index_builder_history', layout_class='n/a')


def enum_cases(fam: Family, depth: int):
    """Yield every case of one family once."""
    usable, reps = family_layouts(fam)
    # d = 0: every list length on every layout
    for lay in usable:
        for n in range(0, fam.max_n + 1):
            yield {'fam': fam.name, 'layout': lay, 'n': n, 'tag': 'base'}
    for lay in reps:
        for tag, world in fam.variants(lay):
            yield {'fam': fam.name, 'layout': lay, 'world': world, 'tag': tag}
        # cross-view interference: every OTHER view is looked at (unmodified, empty in the base file) before saving;
        # its writer runs too and must not clobber what this family's writer produced (shared lumps such as FACEIDS)
        for n in (1, 2):
            yield {'fam': fam.name, 'layout': lay, 'n': n, 'tag': 'other_views_read', 'also_read': True}
        if hasattr(fam, 'overflow_worlds'):
            for tag, world, path in fam.overflow_worlds(lay):
                yield {'fam': fam.name, 'layout': lay, 'world': world, 'tag': tag, 'overflow': True}
        for n in range(1, fam.max_n + 1):
            world = fam.base(lay, n)
            for i in deviations(fam, lay, world, n):
                # bmodels: slot 0 is the world; props: records sit one level deeper
                flds = fam.fields(lay, world, i)
                singles = [(path, v) for path, kind in flds for v in values(kind)]
                for path, v in singles:
                    yield {'fam': fam.name, 'layout': lay, 'n': n, 'devs': [[path, v]]}
                for path, kind in flds:
                    for v in overflow_values(kind):
                        yield {'fam': fam.name, 'layout': lay, 'n': n, 'devs': [[path, v]], 'overflow': True}
                if hasattr(fam, 'overflow_extra'):
                    for path, v in fam.overflow_extra(lay, world, i):
                        yield {'fam': fam.name, 'layout': lay, 'n': n, 'devs': [[path, v]], 'overflow': True}
                if depth >= 2 and n == 1:
                    for (p1, v1), (p2, v2) in itertools.combinations(singles, 2):
                        if p1 != p2:
                            yield {'fam': fam.name, 'layout': lay, 'n': n, 'devs': [[p1, v1], [p2, v2]]}


def enum_ents(depth: int):
    fam = FAM['ents']
    lay_all = G.LAYOUT_NAMES
    for lay in lay_all:
        for n in range(0, 4):
            yield {'fam': 'ents', 'layout': lay, 'n': n, 'tag': 'base'}
    lay = 'v20'
    # plain keyvalues: every key x every value on an extra entity; every value on worldspawn
    for key in ENT_KEYS:
        for val in ENT_VALUES:
            w = fam.base(lay, 1)
            w['ents'][1]['kv'].append([key, val])
            w['ents'][1]['kv'].sort()
            tag = 'key_escape' if any(c in key for c in '\\"\n') else 'keyvalue'
            yield {'fam': 'ents', 'layout': lay, 'world': w, 'tag': tag, 'devs_doc': [key, val]}
    for val in ENT_VALUES:
        w = fam.base(lay, 0)
        w['ents'][0]['kv'].append(['message', val])
        w['ents'][0]['kv'].sort()
        yield {'fam': 'ents', 'layout': lay, 'world': w, 'tag': 'keyvalue', 'devs_doc': ['message', val]}
    # outputs: one / two fields deviated, both separators, forced and per-output
    for comma in (False, True):
        for sep in (None, comma):
            singles = [(k, v) for k, vs in OUT_FIELDS.items() for v in vs]
            combos = [(s,) for s in singles]
            if depth >= 2:
                combos += [c for c in itertools.combinations(singles, 2) if c[0][0] != c[1][0]]
            for combo in combos:
                if comma and any(k == 5 and ',' in v for k, v in combo):
                    continue   # not representable: with comma separators the lump reader takes exactly four commas for an output
                w = fam.base(lay, 1)
                o = w['ents'][1]['outs'][0]
                o[8] = comma
                for k, v in combo:
                    o[k] = v
                tag = 'output_delay_precision' if any(k == 6 and v in (2.0 ** -10, 1234567.0, G.F32_MAX) for k, v in combo) else 'output'
                yield {'fam': 'ents', 'layout': lay, 'world': w, 'tag': tag, 'sep': sep,
                       'devs_doc': [list(c) for c in combo] + ['comma' if comma else 'esc']}
                if sep is not None and len(combo) == 1:
                    # the forced separator differs from the flag the output object itself carries (an output created with the default
                    # flag and added to a map compiled with the other separator): the lump is written with the forced one, nothing else changes
                    yield {'fam': 'ents', 'layout': lay, 'world': copy.deepcopy(w), 'tag': tag, 'sep': sep, 'flip_own': True,
                           'devs_doc': [list(c) for c in combo] + ['comma' if comma else 'esc', 'own flag is the other separator']}
        # several outputs on one entity, mixed with keyvalues
        w = fam.base(lay, 2)
        w['ents'][1]['outs'] = [['OnX', None, 't', 'A', None, '', 0.0, -1, comma], ['OnX', None, 't', 'A', None, '', 0.0, -1, comma],
                                ['OnY', 'i', 'u', 'B', 'j', 'p q', 0.5, 1, comma]]
        yield {'fam': 'ents', 'layout': lay, 'world': w, 'tag': 'output_list'}
        # both separator forms inside one lump (either order), written per output (no forced separator)
        w = fam.base(lay, 2)
        w['ents'][1]['outs'] = [['OnA', None, 't', 'A', None, 'p', 0.0, -1, comma], ['OnB', None, 'u', 'B', None, '', 1.0, 1, not comma]]
        w['ents'][2]['outs'] = [['OnC', None, 'v', 'C', None, 'q r', 0.5, -1, not comma], ['OnD', None, 'w', 'D', None, '', 0.0, 2, comma]]
        yield {'fam': 'ents', 'layout': lay, 'world': w, 'tag': 'mixed_separators', 'sep': None}
    w = fam.base(lay, 1)
    w['ents'][1]['outs'] = [['OnX', None, 't', 'A', None, '', 0.0, -1, True], ['OnX', None, 't', 'B', None, '', 0.0, -1, False]]
    yield {'fam': 'ents', 'layout': lay, 'world': w, 'tag': 'output_mixed_separators'}


def ents_field(case) -> str:
    doc = case.get('devs_doc')
    if case.get('tag') in ('output', 'output_delay_precision') and doc:
        names = ['output', 'inst_out', 'target', 'input', 'inst_in', 'params', 'delay', 'times']
        return 'output.' + '+'.join(names[c[0]] for c in doc if isinstance(c, list))
    return case.get('tag', 'base')


# visibility ------------------------------------------------------------------------------------------------

VIS_ALPHA = [0x00, 0x01, 0xFF]


def vis_world(nbytes: int, pvs0: bytes, pas0: bytes) -> dict:
    n = 8 * nbytes
    fill = (b'\xff' * nbytes).hex()
    return {'visibility': {'pvs': [pvs0.hex()] + [fill] * (n - 1), 'pas': [pas0.hex()] + [fill] * (n - 1)}}


def enum_vis(depth: int):
    yield {'fam': 'visibility', 'layout': 'v20', 'world': {'visibility': None}, 'tag': 'none'}
    yield {'fam': 'visibility', 'layout': 'v20', 'world': {'visibility': {'pvs': [], 'pas': []}}, 'tag': 'zero_clusters'}
    for lay in G.LAYOUT_NAMES:
        yield {'fam': 'visibility', 'layout': lay, 'world': vis_world(1, b'\x01', b'\x00'), 'tag': 'smoke'}
    for ln in (1, 2, 3):
        strs = [bytes(t) for t in itertools.product(VIS_ALPHA, repeat=ln)]
        for s in strs:
            for t in strs:
                yield {'fam': 'visibility', 'layout': 'v20', 'vis': [ln, s.hex(), t.hex()], 'tag': 'strings'}
    for run in (254, 255, 256, 257, 511):
        for pre, post in ((b'', b''), (b'\x01', b''), (b'', b'\xff'), (b'\xff', b'\x01')):
            ln = len(pre) + run + len(post)
            s = pre + bytes(run) + post
            yield {'fam': 'visibility', 'layout': 'v20', 'vis': [ln, s.hex(), s[::-1].hex()], 'tag': f'zero_run_{run}'}
    # fewer clusters than a multiple of eight: the last byte is partially used
    for n in (1, 2, 7, 9):
        nb = (n + 7) // 8
        rows = [(bytes([0x01] * nb)).hex()] * n
        yield {'fam': 'visibility', 'layout': 'v20', 'world': {'visibility': {'pvs': rows, 'pas': list(rows)}}, 'tag': f'clusters_{n}'}


class Vis(Family):
    name, main, check = 'visibility', 'visibility', ['visibility']


FAM['visibility'] = Vis()


def rle_strings(depth: int):
    mx = 6 if depth < 2 else 8
    for ln in range(0, mx + 1):
        for t in itertools.product(VIS_ALPHA, repeat=ln):
            yield bytes(t)
    for run in (253, 254, 255, 256, 257, 509, 510, 511, 512, 765, 766):
        for pre in (b'', b'\x01', b'\x00\x01'):
            for post in (b'', b'\xff', b'\x01\x00'):
                yield pre + bytes(run) + post


def check_rle(acc: core.Acc, data: bytes) -> None:
    acc.evaluations += 1
    case = {'rle': data.hex() if len(data) <= 16 else None, 'rle_spec': None if len(data) <= 16 else _rle_spec(data)}
    sig = dict(lump='visibility', field='runlength', layout_class='n/a')
    try:
        enc = bytes(B.runlength_encode(data))
        ref = G.rle(data)
        own = G.unrle(enc + b'\x01\x01', 0, len(data)) if data else b''
        back = bytes(B.runlength_decode(enc, 0, len(data) * 8)) if data else b''
        back2 = bytes(B.runlength_decode(ref, 0, len(data) * 8)) if data else b''
    except Exception as exc:  # noqa: BLE001
        acc.fail('rle_raises', case, f'runlength coding of {data[:20].hex()}.. ({len(data)} bytes): {type(exc).__name__}: {exc}',
                 clause='raises', **sig)
        return
    if data:
        acc.nontrivial += 1
    acc.outcome(('rle', len(enc) < len(data), len(enc) == len(ref)))
    if own != data:
        acc.fail('rle_encode_wrong', case, f'runlength_encode({len(data)} bytes) does not decode (reference decoder) to the input; '
                 f'encoded={enc[:24].hex()}', clause='roundtrip', **sig)
    if back != data:
        acc.fail('rle_roundtrip', case, f'runlength_decode(runlength_encode(x)) != x for {len(data)} bytes {data[:12].hex()}', clause='roundtrip', **sig)
    if back2 != data:
        acc.fail('rle_decode_wrong', case, f'runlength_decode(reference encoding) != x for {len(data)} bytes', clause='roundtrip', **sig)
    # structural: zero is always followed by a non-zero count
    i = 0
    while i < len(enc):
        if enc[i] == 0:
            if i + 1 >= len(enc) or enc[i + 1] == 0:
                acc.fail('rle_malformed', case, f'encoding has a zero byte without a positive count at {i}', clause='format', **sig)
                break
            i += 2
        else:
            i += 1


def _rle_spec(data: bytes) -> list:
    out = []
    i = 0
    while i < len(data):
        j = i
        while j < len(data) and data[j] == data[i]:
            j += 1
        out.append([data[i], j - i])
        i = j
    return out


def _rle_from_case(case: dict) -> bytes:
    if case.get('rle') is not None:
        return bytes.fromhex(case['rle'])
    return b''.join(bytes([b]) * n for b, n in case['rle_spec'])


# ---------------------------------------------------------------------------------------------------------
# shards

def dispatch(acc: core.Acc, case: dict) -> None:
    run_case(acc, case)


def cases_of(name: str, depth: int):
    if name == 'ents':
        return enum_ents(depth)
    if name == 'visibility':
        return enum_vis(depth)
    return enum_cases(FAM[name], depth)


def shard(spec) -> core.Acc:
    acc = core.Acc()
    kind = spec[0]
    if kind == 'fam':
        _, name, depth, k, nshards = spec
        for idx, case in enumerate(cases_of(name, depth)):
            if idx % nshards != k:
                continue
            dispatch(acc, case)
            acc.count('cases_' + name.split('_')[0])
            if idx == k:
                acc.sample({kk: vv for kk, vv in case.items() if kk != 'world'}, 1)
    elif kind == 'index':
        check_index_builders(acc, spec[1])
        check_index_builder_histories(acc, min(spec[1], 3))
        acc.count('cases_index_builders')
    elif kind == 'rle':
        _, depth, k, nshards = spec
        for idx, data in enumerate(rle_strings(depth)):
            if idx % nshards == k:
                check_rle(acc, data)
                acc.count('cases_rle')
    return acc


def run(ctx: core.Ctx) -> None:
    global _BASE_DIR
    _BASE_DIR = ctx.scratch
    depth = ctx.pick(1, 2)
    shards = []
    names = [f.name for f in FAMILIES] + ['visibility']
    for name in names:
        total = sum(1 for _ in cases_of(name, depth))
        nshards = max(1, min(64 if depth == 1 else 512, total // 150))
        for k in range(nshards):
            shards.append(('fam', name, depth, k, nshards))
        ctx.coverage_extra.setdefault('cases_per_family', {})[name] = total
    for k in range(8):
        shards.append(('rle', depth, k, 8))
    shards.append(('index', 3 if depth == 1 else 4))
    k = ctx.seed % len(shards)
    shards = shards[k:] + shards[:k]
    deadline = ctx.t0 + (300 if ctx.quick else 14 * 60)
    try:
        core.par_map(shard, shards, ctx.acc, deadline=deadline)
    finally:
        _BASE_DIR = None    # replays after the run use (and remove) their own directory
    ctx.rule = (
        f'per structured lump (planes, vertexes, texture names, texinfo+texdata, surfedges+edges, primitives, faces, original faces, HDR '
        f'faces, brushes+sides, leafs (+leaf faces/brushes/min-dist), nodes, water leaf info, visibility, brush models+physics+entity link, '
        f'cubemaps, overlays (+fades, levels), static props V4..V13 + lightmap v7/v10 + Mesa, detail props, pakfile, entity lump): lists of length '
        f'0,1,2,3 on all 7 layouts; on one representative layout per distinct on-disk struct: every record position (n<=2; last for n=3) x '
        f'every field x every boundary value of its on-disk type (ints 0,1,-1,min,max; float32 0,-0,1.5,2^-10,max,-1; every enum member; every '
        f'single flag bit; names of 0..127/128 chars) with <= {depth} field(s) deviated' + (' (pairs on single-record lists)' if depth > 1 else '') +
        f', plus structural variants (same object referenced twice, equal-but-distinct objects, references to objects not yet in their '
        f'list); out-of-range: max+1 and min-1 of every integer field, 129/128-char names, 65 overlay faces must make save() raise. '
        f'Entity lump: {len(ENT_KEYS)} keys x {len(ENT_VALUES)} values, outputs with <= {depth} of 8 fields deviated x both separators x '
        f'forced/per-output separator. Visibility: all (PVS, PAS) pairs of byte strings of length <= 3 over {{00,01,FF}}, zero runs of '
        f'254,255,256,257,511 bytes, 0/1/2/7/9 clusters; runlength_encode/decode directly on all strings of length <= {6 if depth < 2 else 8} over that '
        f'alphabet and zero runs around 255/510/765. Oracle: observer(assigned) == observer(re-read) in reference-free (deep) form. '
        f'Non-trivial = the list under test is non-empty or a field is deviated and save() succeeded.')
    ctx.assumptions += [
        'representability: static-prop fields a version does not store are left at the value the reader supplies; flags are limited to the '
        'bits the version stores; V11 props are not placed in a version-20 BSP (that byte layout is Black Mesa for the reader) and Mesa only there.',
        'representability: angles lie in [0,360); cubemap origins, prop tints and (non-Chaos) node/leaf bounds are integral; VitaminSource leaf '
        'bounds are non-negative; brush-side unknown bevel bits have bit 0 clear; PVS/PAS rows have exactly ceil(clusters/8) bytes.',
        'representability: entity values avoid 0x1B and NUL, and the pre-L4D ambiguity (exactly four commas with two trailing numbers); '
        'output parameters contain no comma when commas are the separator; '
        'non-ASCII bytes are given as surrogate escapes; texture names in one file differ by more than case; names contain no NUL; '
        'a face with an original face carries an integer hammer id (FACEIDS has no "none").',
        'the empty base files are produced by the independent encoder in checks/bspgen.py; values are compared with ==, so -0.0 equals 0.0.',
        'index-width overflows that need > 32767 records (texinfo index in overlays, > 65535 vertexes) are not generated.',
    ]


def replay(case: dict) -> list:
    acc = core.Acc()
    try:
        if 'edit_between' in case:
            check_index_builder_histories(acc, 3)
            return [f for f in acc.all_failures() if f.case == case]
        elif 'index_builder' in case:
            check_index_builders(acc, 3)
        elif 'rle' in case or 'rle_spec' in case:
            check_rle(acc, _rle_from_case(case))
        else:
            dispatch(acc, case)
    finally:
        if _BASE_DIR is None:
            import shutil
            shutil.rmtree(f'/dev/shm/verif-C11-replay-{os.getpid()}', ignore_errors=True)
            _BASE_FILES.clear()
    return acc.all_failures()
