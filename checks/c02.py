"""C02 — escape_text and the tokenizer are exact inverses on every string.

Enumerated: every string of length <= L over the escape-relevant alphabet x multiline in {F,T};
every Unicode scalar value alone and in four contexts; every short string embedded as first / middle /
last quoted string of a line, read with the tokenizer settings of the KeyValues (string_bracket) and
the default (BSP entity lump, DMX KV2, VMF) readers.
"""
from __future__ import annotations

import itertools

from srctools.tokenizer import Tokenizer, TokenSyntaxError, Token, escape_text

from mcv import core

PROPERTY = 'C02'
LEVEL = 'exploration'

SIGMA = ['\\', '"', "'", '\n', '\r', '\t', '\v', '\b', '\f', '\a', '?', '/', 'n', 't', 'a', ' ']
READERS = {
    'keyvalues': dict(string_bracket=True, allow_escapes=True),
    'default(bsp-ents/dmx-kv2/vmf)': dict(allow_escapes=True),
}


def raw_scan(esc: str):
    """Independent scanner: positions of characters not consumed as the second half of a backslash pair."""
    i = 0
    n = len(esc)
    while i < n:
        c = esc[i]
        if c == '\\':
            i += 2
            continue
        yield c
        i += 1


def toks(text: str, **opts):
    out = []
    try:
        for t, v in Tokenizer(text, None, **opts):
            out.append((t.name, v))
            if len(out) > len(text) + 2:
                break
    except TokenSyntaxError as exc:
        out.append(('ERR', exc.mess))
    except Exception as exc:  # noqa: BLE001
        out.append(('EXC', f'{type(exc).__name__}: {exc}'))
    return out


def check_one(acc: core.Acc, s: str, multiline: bool, embed: bool) -> None:
    acc.evaluations += 1
    case = {'s': s, 'multiline': multiline, 'embed': embed}
    try:
        esc = escape_text(s, multiline)
    except Exception as exc:  # noqa: BLE001
        acc.fail('escape_raises', case, f'escape_text({s!r}, {multiline}) raised {type(exc).__name__}: {exc}')
        return
    if esc != s:
        acc.nontrivial += 1
        acc.outcome(''.join(sorted({esc[i + 1] for i in range(len(esc) - 1) if esc[i] == '\\'})) + ('M' if multiline else 'S'))
    for c in raw_scan(esc):
        if c == '"':
            acc.fail('raw_quote', case, f'escape_text({s!r}, {multiline}) = {esc!r} contains a raw double quote')
            break
        if not multiline and c in '\r\n':
            acc.fail('raw_linebreak', case, f'escape_text({s!r}, False) = {esc!r} contains a raw line break')
            break
    got = toks('"' + esc + '"', allow_escapes=True)
    if got != [('STRING', s)]:
        acc.fail('not_inverse', case, f's={s!r} multiline={multiline} escaped={esc!r} tokenizes to {got!r}',
                 multiline=multiline)
        return
    if '\n' in esc or '\r' in esc:
        # the escaped text spans lines: deliver it the way files are read (a text file object, a list of lines)
        import io as _io
        whole = '"' + esc + '"\n'
        for dname, data in (('StringIO', _io.StringIO(whole)), ('lines', whole.splitlines(keepends=True)),
                            ('StringIO_crlf', _io.StringIO(whole, newline=''))):
            acc.evaluations += 1
            out = []
            try:
                for t, v in Tokenizer(data, None, allow_escapes=True):
                    out.append((t.name, v))
                    if len(out) > len(whole) + 2:
                        break
            except Exception as exc:  # noqa: BLE001
                out.append(('EXC', f'{type(exc).__name__}: {exc}'))
            if out != [('STRING', s), ('NEWLINE', '\n')]:
                acc.fail('not_inverse', dict(case, delivery=dname), f's={s!r} multiline={multiline} escaped={esc!r} read from a {dname} tokenizes to {out!r}',
                         multiline=multiline, delivery=dname)
                return
    # the other ways of consuming a tokenizer hand back the same string: tok() calls, skipping_newlines(), expect(), peek + call
    if len(s) <= 3:
        text = '"' + esc + '"\n'
        routes = {}
        try:
            t = Tokenizer(text, None, allow_escapes=True)
            routes['call'] = t()
            t = Tokenizer(text, None, allow_escapes=True)
            routes['skipping_newlines'] = next(iter(t.skipping_newlines()))
            t = Tokenizer('\n' + text, None, allow_escapes=True)
            routes['skipping_newlines_after_blank_line'] = next(iter(t.skipping_newlines()))
            t = Tokenizer(text, None, allow_escapes=True)
            routes['expect'] = (Token.STRING, t.expect(Token.STRING))
            t = Tokenizer(text, None, allow_escapes=True)
            pk = t.peek()
            routes['peek_then_call'] = t() if pk == (Token.STRING, s) else pk
            t = Tokenizer(text, None, allow_escapes=True)
            first = t()
            t.push_back(*first)
            routes['push_back_then_call'] = t()
            t = Tokenizer(text, None, allow_escapes=False)
            t.allow_escapes = True          # the option is a public attribute; readers switch it after construction
            routes['allow_escapes_set_after_construction'] = t()
            # every two-chunk split of the quoted text, and the text one character per chunk
            for i in range(1, len(text)):
                routes[f'chunks@{i}'] = Tokenizer([text[:i], text[i:]], None, allow_escapes=True)()
            routes['chunk_per_char'] = Tokenizer(iter(list(text)), None, allow_escapes=True)()
        except Exception as exc:  # noqa: BLE001
            acc.fail('consume_route_raises', case, f's={s!r}: {sorted(routes)[-1:] or "first route"} then {type(exc).__name__}: {exc}', multiline=multiline)
            return
        acc.evaluations += len(routes)
        for rn, got_r in routes.items():
            if got_r != (Token.STRING, s):
                acc.fail('consume_route_differs', dict(case, route=rn), f's={s!r} escaped={esc!r}: read through {rn} gives {got_r!r}', route=rn)
                return
    if embed:
        for rname, opts in READERS.items():
            for pos, line, want in (
                ('first', f'"{esc}" "v" "z"\n"k2" "v2"\n', [s, 'v', 'z', None, 'k2', 'v2', None]),
                ('middle', f'\t"k" "{esc}" "z"\n"k2" "v2"\n', ['k', s, 'z', None, 'k2', 'v2', None]),
                ('last', f'"k" "v" "{esc}"\n"k2" "v2"\n', ['k', 'v', s, None, 'k2', 'v2', None]),
            ):
                acc.evaluations += 1
                want_t = [('NEWLINE', '\n') if w is None else ('STRING', w) for w in want]
                got = toks(line, **opts)
                if got != want_t:
                    acc.fail('embedded_not_inverse', dict(case, reader=rname, pos=pos),
                             f's={s!r} multiline={multiline} in line {line!r} ({rname}) tokenizes to {got!r}',
                             multiline=multiline)
                    return


# ---------------------------------------------------------------------------------------------
# the string embedded by the REAL writers of each format (every call site of escape_text), read back with the tokenizer
# settings that format's reader uses

def writer_sites():
    """name -> (needs_single_line_name, fn(s) -> (text, options, expected token values that must appear in order))"""
    import io as _io
    import uuid as _uuid
    from srctools.keyvalues import Keyvalues
    from srctools.vmf import VMF, Output, Cordon, Vec
    from srctools.bsp import BSP
    from srctools import dmx
    kvopts = dict(string_bracket=True, allow_escapes=True)
    dflt = dict(allow_escapes=True)

    def kv_leaf_name(s):
        return Keyvalues(s, 'v').serialise(), kvopts, [s, 'v']

    def kv_leaf_value(s):
        return Keyvalues('k', s).serialise(), kvopts, ['k', s]

    def kv_block_name(s):
        return Keyvalues(s, [Keyvalues('in', '1')]).serialise(indent_braces=True, start_indent='\t'), kvopts, [s, 'in', '1']

    def kv_export_value(s):
        import warnings
        with warnings.catch_warnings():
            warnings.simplefilter('ignore', DeprecationWarning)
            return ''.join(Keyvalues('k', s).export()), kvopts, ['k', s]

    def kv_export_block(s):
        import warnings
        with warnings.catch_warnings():
            warnings.simplefilter('ignore', DeprecationWarning)
            return ''.join(Keyvalues(s, [Keyvalues('in', s)]).export()), kvopts, [s, 'in', s]

    def ent_text(ent):
        buf = _io.StringIO()
        ent.export(buf)
        return buf.getvalue()

    def vmf_key(s):
        v = VMF()
        e = v.create_ent('info_x')
        e[s] = 'val'
        return ent_text(e), kvopts, [s, 'val']

    def vmf_value(s):
        v = VMF()
        e = v.create_ent('info_x', zkey=s)
        return ent_text(e), kvopts, ['zkey', s]

    def vmf_comments(s):
        v = VMF()
        e = v.create_ent('info_x')
        e.comments = s or 'x'
        return ent_text(e), kvopts, ['comments', s or 'x']

    def vmf_fixup(s):
        v = VMF()
        e = v.create_ent('func_instance')
        e.fixup['var'] = s
        return ent_text(e), kvopts, ['replace01', '$var ' + s]

    def vmf_material(s):
        v = VMF()
        p_ = v.make_prism(Vec(0, 0, 0), Vec(8, 8, 8), mat=s)
        buf = _io.StringIO()
        p_.top.export(buf)
        return buf.getvalue(), kvopts, ['material', s]

    def vmf_cordon(s):
        v = VMF()
        c = Cordon(v, Vec(0, 0, 0), Vec(1, 1, 1), True, s)
        buf = _io.StringIO()
        c.export(buf)
        return buf.getvalue(), kvopts, ['name', s]

    def vmf_visgroup(s):
        v = VMF()
        g = v.create_visgroup(s)
        buf = _io.StringIO()
        g.export(buf)
        return buf.getvalue(), kvopts, ['name', s]

    def out_fields(field, comma):
        def fn(s):
            kw = dict(out='OnX', targ='t', inp='In', param='p', inst_out=None, inst_in=None)
            kw[field] = s if (s or field in ('param', 'targ')) else 'x'
            val = kw[field]
            o = Output(kw['out'], kw['targ'], kw['inp'], kw['param'], 0.5, times=2, inst_out=kw['inst_out'], inst_in=kw['inst_in'],
                       comma_sep=comma)
            sep = ',' if comma else '\x1b'
            name = ('instance:' + kw['inst_out'] + ';' if kw['inst_out'] else '') + kw['out']
            inp = ('instance:' + kw['inst_in'] + ';' if kw['inst_in'] else '') + kw['inp']
            value = sep.join([kw['targ'], inp, kw['param'], '0.5', '2'])
            return o.as_keyvalue(), kvopts, [name, value]
        return fn

    def bsp_key(s):
        v = VMF()
        e = v.create_ent('info_x')
        e[s] = 'val'
        text = BSP.write_ent_data(v, _show_dep=False).decode('ascii', 'surrogateescape').rstrip('\x00')
        return text, dflt, [s, 'val']

    def bsp_value(s):
        v = VMF()
        v.create_ent('info_x', zkey=s)
        text = BSP.write_ent_data(v, _show_dep=False).decode('ascii', 'surrogateescape').rstrip('\x00')
        return text, dflt, ['zkey', s]

    def dmx_doc(where):
        def fn(s):
            uid = _uuid.UUID(int=7)
            el = dmx.Element(s if where == 'elem_name' else 'elname', s if where == 'elem_type' else 'DmElement', uid)
            if where == 'attr_name':
                el[s or 'x'] = 'val'
                want = [s or 'x', 'string', 'val']
            elif where == 'attr_value':
                el['attr'] = s
                want = ['attr', 'string', s]
            elif where == 'array_value':
                el['arr'] = dmx.Attribute.array('arr', dmx.ValueType.STRING)
                el['arr'].append(s)
                want = ['arr', 'string_array', s]
            elif where == 'elem_name':
                want = ['name', 'string', s]
            else:
                want = [s]
            buf = _io.BytesIO()
            el.export_kv2(buf, unicode='silent')
            text = buf.getvalue().decode('utf8')
            text = text[text.index('-->') + 3:]
            return text, dflt, want
        return fn

    # ---- the REAL readers of the same formats (the property is about what they hand back, not only about token streams)
    def rd_kv(text):
        kv = Keyvalues.parse(text)
        out = []
        for ch in kv:
            out.append(ch.real_name)
            if ch.has_children():
                out.extend(x for c2 in ch for x in (c2.real_name, c2.value))
            else:
                out.append(ch.value)
        return out

    def rd_vmf_ent(text):
        v = VMF.parse(Keyvalues.parse(text))
        out = []
        for e in v.entities:
            for k in e:
                out.extend([k, e[k]])
            out.extend(['comments', e.comments])
        return out

    _bsp_base = {}

    def rd_bsp(text):
        import os as _os
        from checks import bspgen as _G
        if 'path' not in _bsp_base:
            d = _os.path.join('/dev/shm', f'verif-C02-{_os.getpid()}')
            _os.makedirs(d, exist_ok=True)
            _bsp_base['path'] = _os.path.join(d, 'base.bsp')
            with open(_bsp_base['path'], 'wb') as f:
                f.write(_G.empty_file('v20'))
        from srctools.bsp import BSP_LUMPS
        bsp = BSP(_bsp_base['path'])
        bsp.lumps[BSP_LUMPS.ENTITIES].data = text.encode('ascii', 'surrogateescape') + b'\0'
        out = []
        for e in bsp.ents.entities:
            for k in e:
                out.extend([k, e[k]])
        return out

    def rd_dmx(text):
        root, _, _ = dmx.Element.parse(_io.BytesIO(b'<!-- dmx encoding keyvalues2 1 format dmx 1 -->\n' + text.encode('utf8')), unicode=True)
        out = [root.type, 'name', root.name]
        for attr in root.values():
            if attr.name == 'name':
                continue
            out.append(attr.name)
            if attr.is_array:
                out.extend(list(attr.iter_str()))
            else:
                out.append(attr.val_str)
        return out

    def rd_vmf_fixup(text):
        v = VMF.parse(Keyvalues.parse(text))
        out = []
        for e in v.entities:
            for var, val in e.fixup.items():
                out.extend(['replace01', '$' + var + ' ' + val])
        return out

    def rd_output(comma):
        def rd(text):
            [kv] = list(Keyvalues.parse(text))
            o = Output.parse(kv)
            sep = ',' if comma else '\x1b'
            name = ('instance:' + o.inst_out + ';' if o.inst_out else '') + o.output
            inp = ('instance:' + o.inst_in + ';' if o.inst_in else '') + o.input
            return [name, sep.join([o.target, inp, o.params, format(o.delay, 'g'), str(o.times)])]
        return rd

    readers = {'vmf.fixup': rd_vmf_fixup, 'kv': rd_kv, 'vmf.key': rd_vmf_ent, 'vmf.value': rd_vmf_ent, 'vmf.comments': rd_vmf_ent, 'bsp': rd_bsp, 'dmx': rd_dmx}
    for comma in (False, True):
        for field in ('out', 'targ', 'inp', 'param', 'inst_out', 'inst_in'):
            readers[f'output.{field}.{"comma" if comma else "esc"}'] = rd_output(comma)
    _REAL_READERS.update(readers)

    sites = {
        'kv.leaf_name': (True, kv_leaf_name), 'kv.leaf_value': (False, kv_leaf_value), 'kv.block_name': (True, kv_block_name),
        'kv.export_value': (False, kv_export_value), 'kv.export_block': (True, kv_export_block),
        'vmf.key': (True, vmf_key), 'vmf.value': (False, vmf_value), 'vmf.comments': (False, vmf_comments), 'vmf.fixup': (False, vmf_fixup),
        'vmf.material': (False, vmf_material), 'vmf.cordon_name': (False, vmf_cordon), 'vmf.visgroup_name': (False, vmf_visgroup),
        'bsp.key': (True, bsp_key), 'bsp.value': (False, bsp_value),
        'dmx.attr_name': (True, dmx_doc('attr_name')), 'dmx.attr_value': (False, dmx_doc('attr_value')),
        'dmx.array_value': (False, dmx_doc('array_value')), 'dmx.elem_name': (False, dmx_doc('elem_name')),
        'dmx.elem_type': (True, dmx_doc('elem_type')),
    }
    for comma in (False, True):
        for field in ('out', 'targ', 'inp', 'param', 'inst_out', 'inst_in'):
            sites[f'output.{field}.{"comma" if comma else "esc"}'] = (field != 'param', out_fields(field, comma))
    return sites


_SITES: dict = {}
_REAL_READERS: dict = {}
SITE_EXTRA = ['\x00', '\ufeff', '\u00df', '\x1b',      # only for the writer/reader call-site strings
              '\x1c', '\x1d', '\x1e', '\x85', '\u2028', '\u2029',      # what str.splitlines() treats as line breaks besides CR / LF
              '%', 'b', 'd', 's', '{', '}', ',']           # printf / str.format metacharacters, the output separator


def real_reader_for(name: str):
    return _REAL_READERS.get(name) or _REAL_READERS.get(name.split('.')[0])


def check_sites(acc: core.Acc, s: str, only_prefix: tuple = ()) -> None:
    if not _SITES:
        _SITES.update(writer_sites())
    for name, (single_line, fn) in _SITES.items():
        if only_prefix and not name.startswith(only_prefix):
            continue
        if single_line and ('\n' in s or '\r' in s):
            continue          # names are single-line by the format (readers reject line breaks in keys)
        if name.startswith('output.') and ((',' in s and 'comma' in name and 'param' not in name) or '\x1b' in s or (';' in s and 'inst' in name)):
            continue          # an output field cannot contain its own separator (the parameter may: spare commas belong to it)
        if name.startswith('bsp.') and (not s.isascii() or '\x1b' in s or s == '\x00'):
            continue          # the entity lump is ASCII (+surrogateescape bytes); ESC makes a value an output; a lone NUL token is the lump terminator
        _check_site(acc, name, fn, s, {'s': s, 'site': name})
        # a pair in order: the same site then writes and reads the string in the other letter case (and its casefold()), which
        # must come back as spelled - nothing remembered from the first string may be reused for the second
        # ... nor anything remembered under a key that treats the two slashes alike (path-like values: materials, models)
        for variant in dict.fromkeys((s.swapcase(), s.casefold(), s.upper(), s.replace('\\', '/'), s.replace('/', '\\'))):
            if variant != s and len(variant) <= len(s) + 2:
                _check_site(acc, name, fn, variant, {'s': variant, 'site': name, 'after': s})


def _check_site(acc: core.Acc, name: str, fn, s: str, case: dict) -> None:
    if True:
        acc.evaluations += 1
        try:
            text, opts, want = fn(s)
        except Exception as exc:  # noqa: BLE001
            acc.fail('site_writer_raises', case, f'{name}: writing {s!r} raised {type(exc).__name__}: {exc}', site=name.split('.')[0])
            return
        got = [v for t, v in toks(text, **opts) if t in ('STRING', 'ERR', 'EXC')]
        # the expected values must appear consecutively
        n = len(want)
        if not any(got[i:i + n] == want for i in range(len(got) - n + 1)):
            acc.fail('site_not_inverse', case, f'{name}: {s!r} written as {text[:300]!r}; string tokens read back {got[:12]!r}, expected to contain {want!r}',
                     site=name)
            return
        rd = real_reader_for(name)
        if rd is None:
            return
        acc.evaluations += 1
        want_r = [w for w in want if w not in ('string', 'string_array')]
        try:
            got_r = rd(text)
        except Exception as exc:  # noqa: BLE001
            acc.fail('site_reader_raises', case, f'{name}: {s!r} written as {text[:300]!r}; the format\'s own reader raised {type(exc).__name__}: {exc}', site=name)
            return
        n = len(want_r)
        if not any(got_r[i:i + n] == want_r for i in range(len(got_r) - n + 1)):
            acc.fail('site_reader_not_inverse', case, f'{name}: {s!r} written as {text[:300]!r}; the format\'s own reader returned {got_r[:14]!r}, expected to contain {want_r!r}',
                     site=name)


FIRST_LEN = 2
FIRST_STRINGS = ['', 'a', '\n', '"', '\\', '\t']


def _first_call_body(s0: str, m0: bool, only: 'dict | None') -> list:
    """Runs INSIDE the fresh interpreter."""
    acc = core.Acc()
    escape_text(s0, m0)
    if only is not None:
        check_one(acc, only['s'], only['multiline'], False)
    else:
        for n in range(FIRST_LEN + 1):
            for tail in itertools.product(SIGMA, repeat=n):
                for m in (False, True):
                    check_one(acc, ''.join(tail), m, False)
    out = []
    for f in acc.all_failures():
        f.case = dict(f.case, first_call=[s0, m0])
        out.append(core.Failure(f.kind, f.case, f'after a first call escape_text({s0!r}, {m0}) in this process: ' + f.detail, dict(f.sig, first_call=True)))
    return out


def _first_call_run(s0: str, m0: bool, only: 'dict | None') -> list:
    import json
    import subprocess
    import sys
    r = subprocess.run([sys.executable, '-m', 'checks.c02', json.dumps([s0, m0, only])], capture_output=True, text=True, timeout=600)
    if r.returncode != 0:
        return [core.Failure('first_call_process_failed', {'s': '', 'multiline': m0, 'first_call': [s0, m0]},
                             f'the interpreter running the history ended with status {r.returncode}: {r.stderr[-600:]}')]
    return [core.Failure.from_json(d) for d in json.loads(r.stdout.splitlines()[-1])]


def shard(spec) -> core.Acc:
    acc = core.Acc()
    kind = spec[0]
    if kind == 'str':
        _, prefix, length, embed_upto = spec
        rest = length - len(prefix)
        for tail in itertools.product(SIGMA, repeat=rest):
            s = prefix + ''.join(tail)
            for m in (False, True):
                check_one(acc, s, m, len(s) <= embed_upto)
        acc.sample({'s': prefix + SIGMA[1] * rest, 'multiline': True}, 1)
    elif kind == 'sites':
        _, prefix, length = spec
        rest = length - len(prefix)
        for tail in itertools.product(SIGMA + SITE_EXTRA, repeat=rest):
            check_sites(acc, prefix + ''.join(tail))
        acc.sample({'s': prefix + SIGMA[1] * rest, 'sites': 'all writer call sites'}, 1)
    elif kind == 'long':
        # length classes around powers of two up to 16 KiB, each escapable character at the start / middle / end of a filler run
        for n in spec[1]:
            for c in SIGMA + ['\x00']:
                for pos in (0, n // 2, n - 1):
                    for filler in ('x', ' '):
                        body = [filler] * n
                        body[pos] = c
                        s_long = ''.join(body)
                        for m in (False, True):
                            check_one(acc, s_long, m, False)
                        if n in (4096, 8191):
                            check_sites(acc, s_long, only_prefix=('kv.', 'vmf.value', 'dmx.attr_value'))
        acc.sample({'long_lengths': list(spec[1])}, 1)
    elif kind == 'first':
        # process histories: the FIRST escape_text call of an interpreter (string s0, mode m0), then every short string in
        # both modes.  Lazily built module state (compiled patterns, tables) is decided by that first call, and a worker of
        # this check has long made its first call, so each history runs in an interpreter of its own.
        _, s0, m0 = spec
        for f in _first_call_run(s0, m0, None):
            acc.add_failure(f)
        acc.evaluations += 2 * sum(len(SIGMA) ** n for n in range(FIRST_LEN + 1))
        acc.count('first_call_histories', 1)
    elif kind == 'uni':
        _, lo, hi, contexts = spec
        for cp in range(lo, hi):
            if 0xD800 <= cp <= 0xDFFF:
                continue
            c = chr(cp)
            for ctx_s in ((c, '\\' + c, c + '\\', '"' + c, c + '\n') if contexts else (c,)):
                for m in (False, True):
                    check_one(acc, ctx_s, m, False)
        acc.count('unicode_scalars', sum(1 for cp in range(lo, hi) if not 0xD800 <= cp <= 0xDFFF))
    return acc


def run(ctx: core.Ctx) -> None:
    L = ctx.pick(5, 6)
    E = ctx.pick(2, 3)
    shards = []
    for n in range(0, L + 1):
        if n <= 2:
            shards.append(('str', '', n, E))
        else:
            for c in itertools.product(SIGMA, repeat=2 if n <= 5 else 3):
                shards.append(('str', ''.join(c), n, E))
    SL = ctx.pick(2, 3)
    for n in range(0, SL + 1):
        if n <= 1:
            shards.append(('sites', '', n))
        else:
            for c in (itertools.product(SIGMA + SITE_EXTRA, repeat=1) if n == 2 else itertools.product(SIGMA + SITE_EXTRA, repeat=2)):
                shards.append(('sites', ''.join(c), n))
    for lens in ([255, 256, 257], [511, 512, 1000, 1001], [1023, 1024, 2047, 2048], [4095, 4096], [4097, 8191], [8192, 16384]):
        shards.append(('long', lens))
    for s0 in FIRST_STRINGS:
        for m0 in (False, True):
            shards.append(('first', s0, m0))
    step = 0x1000
    for lo in range(0, 0x110000, step):
        shards.append(('uni', lo, lo + step, (lo < 0x10000) or not ctx.quick))
    k = ctx.seed % len(shards)
    core.par_map(shard, shards[k:] + shards[:k], ctx.acc)
    ctx.rule = (f'every string of length <= {L} over the {len(SIGMA)}-character escape alphabet x multiline in (False, True); '
                f'strings of 255..16384 characters with each alphabet character at the start / middle / end; every Unicode scalar value alone ({"and in 4 contexts for the BMP" if ctx.quick else "and in 4 contexts"}); '
                f'strings of length <= {E} additionally embedded first/middle/last in a line under both reader option sets; strings of length '
                f'<= {SL} written by the REAL writers at every call site of escape_text (Keyvalues names/values/block names, VMF keys, values, '
                f'comments, fixups, materials, cordon and visgroup names, every Output field with both separators incl. instance names, '
                f'BSP entity-lump keys and values, DMX KV2 attribute names, values, array items, element names and types) and read back '
                f'with that reader\'s tokenizer settings and by the format\'s own reader, each followed at the same site by its other-case / casefold() spelling; strings of length <= 3 also through every way of consuming a tokenizer, every two-chunk split and with allow_escapes switched on after construction. '
                f'every string of length <= {FIRST_LEN} in both modes again in {2 * len(FIRST_STRINGS)} interpreters of their own, each after a different FIRST escape_text call of the process ({len(FIRST_STRINGS)} strings x both modes); '
                f'Non-trivial = escape_text changes the string. Each (string, mode) pair is enumerated once.')


def replay(case: dict) -> list:
    acc = core.Acc()
    if 'site' in case:
        check_sites(acc, case.get('after', case['s']))
        return [f for f in acc.all_failures() if f.case.get('site') == case['site'] and f.case.get('s') == case['s']]
    if 'first_call' in case:
        return _first_call_run(case['first_call'][0], case['first_call'][1], {'s': case['s'], 'multiline': case['multiline']})
    check_one(acc, case['s'], case['multiline'], True)
    return acc.all_failures()


if __name__ == '__main__':
    import json as _json
    import sys as _sys
    _s0, _m0, _only = _json.loads(_sys.argv[1])
    print(_json.dumps([f.to_json() for f in _first_call_body(_s0, _m0, _only)]))
