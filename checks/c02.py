"""C02 — escape_text and the tokenizer are exact inverses on every string.

Enumerated: every string of length <= L over the escape-relevant alphabet x multiline in {F,T};
every Unicode scalar value alone and in four contexts; every short string embedded as first / middle /
last quoted string of a line, read with the tokenizer settings of the KeyValues (string_bracket) and
the default (BSP entity lump, DMX KV2, VMF) readers.
"""
from __future__ import annotations

import itertools

from srctools.tokenizer import Tokenizer, TokenSyntaxError, Token, escape_text

from mcv import core

PROPERTY = 'C02'
LEVEL = 'exploration'

SIGMA = ['\\', '"', "'", '\n', '\r', '\t', '\v', '\b', '\f', '\a', '?', '/', 'n', 't', 'a', ' ']
READERS = {
    'keyvalues': dict(string_bracket=True, allow_escapes=True),
    'default(bsp-ents/dmx-kv2/vmf)': dict(allow_escapes=True),
}


def raw_scan(esc: str):
    """Independent scanner: positions of characters not consumed as the second half of a backslash pair."""
    i = 0
    n = len(esc)
    while i < n:
        c = esc[i]
        if c == '\\':
            i += 2
            continue
        yield c
        i += 1


def toks(text: str, **opts):
    out = []
    try:
        for t, v in Tokenizer(text, None, **opts):
            out.append((t.name, v))
            if len(out) > len(text) + 2:
                break
    except TokenSyntaxError as exc:
        out.append(('ERR', exc.mess))
    except Exception as exc:  # noqa: BLE001
        out.append(('EXC', f'{type(exc).__name__}: {exc}'))
    return out


def check_one(acc: core.Acc, s: str, multiline: bool, embed: bool) -> None:
    acc.evaluations += 1
    case = {'s': s, 'multiline': multiline, 'embed': embed}
    try:
        esc = escape_text(s, multiline)
    except Exception as exc:  # noqa: BLE001
        acc.fail('escape_raises', case, f'escape_text({s!r}, {multiline}) raised {type(exc).__name__}: {exc}')
        return
    if esc != s:
        acc.nontrivial += 1
        acc.outcome(''.join(sorted({esc[i + 1] for i in range(len(esc) - 1) if esc[i] == '\\'})) + ('M' if multiline else 'S'))
    for c in raw_scan(esc):
        if c == '"':
            acc.fail('raw_quote', case, f'escape_text({s!r}, {multiline}) = {esc!r} contains a raw double quote')
            break
        if not multiline and c in '\r\n':
            acc.fail('raw_linebreak', case, f'escape_text({s!r}, False) = {esc!r} contains a raw line break')
            break
    got = toks('"' + esc + '"', allow_escapes=True)
    if got != [('STRING', s)]:
        acc.fail('not_inverse', case, f's={s!r} multiline={multiline} escaped={esc!r} tokenizes to {got!r}',
                 multiline=multiline)
        return
    if embed:
        for rname, opts in READERS.items():
            for pos, line, want in (
                ('first', f'"{esc}" "v" "z"\n"k2" "v2"\n', [s, 'v', 'z', None, 'k2', 'v2', None]),
                ('middle', f'\t"k" "{esc}" "z"\n"k2" "v2"\n', ['k', s, 'z', None, 'k2', 'v2', None]),
                ('last', f'"k" "v" "{esc}"\n"k2" "v2"\n', ['k', 'v', s, None, 'k2', 'v2', None]),
            ):
                acc.evaluations += 1
                want_t = [('NEWLINE', '\n') if w is None else ('STRING', w) for w in want]
                got = toks(line, **opts)
                if got != want_t:
                    acc.fail('embedded_not_inverse', dict(case, reader=rname, pos=pos),
                             f's={s!r} multiline={multiline} in line {line!r} ({rname}) tokenizes to {got!r}',
                             multiline=multiline)
                    return


def shard(spec) -> core.Acc:
    acc = core.Acc()
    kind = spec[0]
    if kind == 'str':
        _, prefix, length, embed_upto = spec
        rest = length - len(prefix)
        for tail in itertools.product(SIGMA, repeat=rest):
            s = prefix + ''.join(tail)
            for m in (False, True):
                check_one(acc, s, m, len(s) <= embed_upto)
        acc.sample({'s': prefix + SIGMA[1] * rest, 'multiline': True}, 1)
    elif kind == 'uni':
        _, lo, hi, contexts = spec
        for cp in range(lo, hi):
            if 0xD800 <= cp <= 0xDFFF:
                continue
            c = chr(cp)
            for ctx_s in ((c, '\\' + c, c + '\\', '"' + c, c + '\n') if contexts else (c,)):
                for m in (False, True):
                    check_one(acc, ctx_s, m, False)
        acc.count('unicode_scalars', sum(1 for cp in range(lo, hi) if not 0xD800 <= cp <= 0xDFFF))
    return acc


def run(ctx: core.Ctx) -> None:
    L = ctx.pick(5, 6)
    E = ctx.pick(2, 3)
    shards = []
    for n in range(0, L + 1):
        if n <= 2:
            shards.append(('str', '', n, E))
        else:
            for c in itertools.product(SIGMA, repeat=2 if n <= 5 else 3):
                shards.append(('str', ''.join(c), n, E))
    step = 0x1000
    for lo in range(0, 0x110000, step):
        shards.append(('uni', lo, lo + step, (lo < 0x10000) or not ctx.quick))
    k = ctx.seed % len(shards)
    core.par_map(shard, shards[k:] + shards[:k], ctx.acc)
    ctx.rule = (f'every string of length <= {L} over the {len(SIGMA)}-character escape alphabet x multiline in (False, True); '
                f'every Unicode scalar value alone ({"and in 4 contexts for the BMP" if ctx.quick else "and in 4 contexts"}); '
                f'strings of length <= {E} additionally embedded first/middle/last in a line under both reader option sets. '
                f'Non-trivial = escape_text changes the string. Each (string, mode) pair is enumerated once.')


def replay(case: dict) -> list:
    acc = core.Acc()
    check_one(acc, case['s'], case['multiline'], True)
    return acc.all_failures()
