"""Shared VMF generator (feature lattice) and independent observer for C06 / C09 / C17.

A *feature* is a small constructor acting on a VMF through the public API.  Maps are built from the base
empty map plus a subset of features, applied in the canonical order of FEATURES.  The observer walks the
object graph (never calling export) and yields plain nested data whose numbers are tagged with the tolerance
class the property grants them:  ('c', x) coordinates / texture axes (5e-7 absolute), ('s', x) six significant
digits (face rotation, output delay, multiblend), everything else exact.
"""
from __future__ import annotations

from array import array
from typing import Any, Callable

from srctools.math import Vec, Angle
from srctools.vmf import (
    VMF, Entity, Solid, Side, Output, UVAxis, VisGroup, EntityGroup, Camera, Cordon, FixupValue, DispFlag, TriangleTag, Vec4,
    Strata2DViewport, Strata3DViewport, StrataInstanceVisibility,
)

WEIRD = 'say "hi" \\ back\\slash\ttab'
WEIRD_NL = 'line1\nline2 "q" \\'


def first_ent(vmf: VMF) -> Entity:
    for e in vmf.entities:
        if not e.solids:
            return e
    return vmf.create_ent('info_target', origin='8 16 24', targetname='first')


def first_solid(vmf: VMF) -> Solid:
    if vmf.brushes:
        return vmf.brushes[0]
    s = vmf.make_prism(Vec(0, 0, 0), Vec(64, 32, 16), mat='dev/dev_blendmeasure').solid
    vmf.add_brush(s)
    return s


def first_disp(vmf: VMF, power: int = 1) -> Side:
    for s in vmf.brushes:
        for f in s.sides:
            if f.disp_power > 0:       # own test, not the library's is_disp
                return f
    return add_disp(vmf, power)


def add_disp(vmf: VMF, power: int) -> Side:
    prism = vmf.make_prism(Vec(-128, -128, -16), Vec(128, 128, 0), mat='nature/blend')
    vmf.add_brush(prism.solid)
    top = prism.top
    new = Side(vmf, [p.copy() for p in top.planes], mat='nature/blendgrass', uaxis=top.uaxis.copy(), vaxis=top.vaxis.copy(),
               disp_power=power)  # type: ignore[arg-type]
    prism.solid.sides[prism.solid.sides.index(top)] = new
    new.disp_pos = Vec(-128.5, -128.25, 0.125)
    new.disp_elevation = 2.5
    new.disp_flags = DispFlag.COLL_PHYSICS | DispFlag.SUBDIV
    new.disp_allowed_vert = array('i', [-1, 5, 0, 1 << 30, -(1 << 31), 7, -1, -1, 12345, -2])
    size = new.disp_size
    tags = [TriangleTag.STEEP, TriangleTag.WALKABLE, TriangleTag.BUILDABLE]
    for y in range(size):
        for x in range(size):
            v = new[x, y]
            k = y * size + x
            v.normal = Vec(0.5 * (k % 3), -0.25 * (k % 5), 1.0 - 0.125 * (k % 7))
            v.distance = 1.5 * k + 0.25
            v.offset = Vec(k, -k, 0.5 * k)
            v.offset_norm = Vec(0.0, 0.6, 0.8) if k % 2 else Vec(1.0, 0.0, 0.0)
            v.alpha = float((k * 37) % 256)
            v.triangle_a = tags[k % 3]
            v.triangle_b = tags[(k + 1) % 3]
    return new


# ------------------------------------------------------------------------------------------------
# features

def f_ent_plain(vmf: VMF) -> None:
    vmf.create_ent('info_target', origin='1 2 3', targetname='t1', angles='0 90 0')


def f_ent_special_values(vmf: VMF) -> None:
    vmf.create_ent('env_message', message=WEIRD, other=WEIRD_NL, empty='')


def f_ent_special_keys(vmf: VMF) -> None:
    e = vmf.create_ent('info_keys')
    e['my "key"'] = 'v1'
    e['back\\slash\\tkey'] = 'v2'
    e['Mixed Case Key'] = 'v3'


def f_out_esc(vmf: VMF) -> None:
    first_ent(vmf).add_out(Output('OnTrigger', 'targ', 'Kill'))
    first_ent(vmf).add_out(Output('OnTrigger', 'targ', 'Fire', times=5))       # only the fire count differs from the defaults
    first_ent(vmf).add_out(Output('OnTrigger', 'targ', 'Fire', times=0))


def f_out_comma(vmf: VMF) -> None:
    first_ent(vmf).add_out(Output('OnUser1', 'targ2', 'FireUser1', 'param', 1.5, times=1, comma_sep=True))


def f_out_inst(vmf: VMF) -> None:
    first_ent(vmf).add_out(Output('OnOut', 'inst_name', 'In', inst_out='relay', inst_in='other_relay', delay=0.25))
    first_ent(vmf).add_out(Output('OnOut2', 'inst2', 'In2', inst_in='only_in', comma_sep=True))
    # the instance form is cut at the FIRST semicolon: the command part may hold further ones
    first_ent(vmf).add_out(Output('OnUser1;first', 'inst3', 'In;put;x', inst_out='proxy', inst_in='relay2'))


def f_out_param_comma(vmf: VMF) -> None:
    first_ent(vmf).add_out(Output('OnCase01', 'cmd', 'Command', 'say a,b,c', 0.0, times=3))


def f_out_delay_frac(vmf: VMF) -> None:
    first_ent(vmf).add_out(Output('OnTimer', 'x', 'Trigger', '', 0.1234567, times=-1))
    first_ent(vmf).add_out(Output('OnTimer', 'x', 'Trigger', '', 1e-07, times=-1))
    first_ent(vmf).add_out(Output('OnTimer', 'x', 'Trigger', '', 123456.5, times=12))


def f_out_special(vmf: VMF) -> None:
    first_ent(vmf).add_out(Output('On"Quote', 'ta"rg\\x', 'In\\put', 'multi\nline "param"', 2.0))


def f_fixup_one(vmf: VMF) -> None:
    e = vmf.create_ent('func_instance', file='inst.vmf', targetname='inst1')
    e.fixup['$var'] = 'value'


def f_fixup_collide(vmf: VMF) -> None:
    e = Entity(vmf, keys={'classname': 'func_instance', 'file': 'b.vmf'},
               fixup=[FixupValue('alpha', '1', 1), FixupValue('beta', '2', 1), FixupValue('Gamma', '3', 7)])
    vmf.add_ent(e)


def f_fixup_quote(vmf: VMF) -> None:
    e = vmf.create_ent('func_instance', file='c.vmf')
    e.fixup['msg'] = 'with "quote" and space \\ slash'
    e.fixup['blank'] = ''


def f_ent_hidden(vmf: VMF) -> None:
    e = vmf.create_ent('info_hidden', origin='0 0 0')
    e.hidden = True


def f_brush_ent(vmf: VMF) -> None:
    e = vmf.create_ent('func_detail')
    e.solids.append(vmf.make_prism(Vec(0, 0, 64), Vec(16, 16, 80)).solid)
    e.solids.append(vmf.make_prism(Vec(32, 0, 64), Vec(48, 16, 80), mat='brick/wall').solid)


def f_brush_ent_hidden_solid(vmf: VMF) -> None:
    e = vmf.create_ent('func_brush', targetname='fb')
    s = vmf.make_prism(Vec(0, 64, 64), Vec(16, 80, 80)).solid
    s.hidden = True
    e.solids.append(s)
    e.solids.append(vmf.make_prism(Vec(0, 96, 64), Vec(16, 112, 80)).solid)


def f_world_prism(vmf: VMF) -> None:
    vmf.add_brush(vmf.make_prism(Vec(-64, -64, -64), Vec(64, 64, 0), mat='concrete/floor').solid)


def f_world_hidden_solid(vmf: VMF) -> None:
    s = vmf.make_prism(Vec(128, 0, 0), Vec(192, 64, 64)).solid
    s.hidden = True
    vmf.add_brush(s)


def f_face_arbitrary(vmf: VMF) -> None:
    s = first_solid(vmf)
    f = s.sides[0]
    f.planes = [Vec(1.5, -2.25, 3.125), Vec(100.000001, 0.1234567, -7.5), Vec(0.0000004, 65536.5, 1e-3)]
    f.uaxis = UVAxis(0.6, 0.8, 0.0, offset=12.5, scale=0.125)
    f.vaxis = UVAxis(0.1234567, -0.7071068, 0.7071068, offset=-300.75, scale=1.25)
    f.ham_rot = 33.75
    f.lightmap = 32
    f.smooth = 5


def f_face_rotation_sig(vmf: VMF) -> None:
    s = first_solid(vmf)
    s.sides[1].ham_rot = 123.4567891
    s.sides[2].ham_rot = 1e-05
    s.sides[3].ham_rot = -359.5


def f_face_mat_name(vmf: VMF) -> None:
    s = first_solid(vmf)
    s.sides[0].mat = 'brick\\tile"q'
    s.sides[1].mat = 'Mixed/CASE material'
    s.sides[2].mat = ''


def f_disp1(vmf: VMF) -> None:
    add_disp(vmf, 1)


def f_disp2(vmf: VMF) -> None:
    add_disp(vmf, 2)


def f_disp3(vmf: VMF) -> None:
    add_disp(vmf, 3)


def f_disp4(vmf: VMF) -> None:
    add_disp(vmf, 4)


def f_disp_flags(vmf: VMF) -> None:
    d = first_disp(vmf)
    d.disp_flags = DispFlag.COLL_BULLET
    d.disp_elevation = 0.0
    d.disp_allowed_vert = array('i', [0] * 10)


def f_multiblend(vmf: VMF) -> None:
    d = first_disp(vmf)
    size = d.disp_size
    for y in range(size):
        for x in range(size):
            v = d[x, y]
            k = y * size + x
            v.multi_blend = Vec4(0.25 * (k % 4), 0.5, 0.125 * (k % 8), 1.0)
            v.multi_alpha = Vec4(1.0, 0.75, 0.1234567, 0.0)
            v.multi_colors = [Vec(1, 0.5, 0.25), Vec(0, 0, 0), Vec(0.125, 1, 1), Vec(1, 1, 1)]


def f_multiblend_default_colors(vmf: VMF) -> None:
    d = first_disp(vmf)
    for v in d._disp_verts:  # noqa: SLF001 - public iteration is by index; same objects
        v.multi_blend = Vec4(1.0, 0.0, 0.0, 0.5)


def f_multiblend_partial(vmf: VMF) -> None:
    """Some vertexes blended, others with zero blend but a tinted colour (colour data is independent of the blend)."""
    d = first_disp(vmf)
    for k, v in enumerate(d._disp_verts):  # noqa: SLF001
        if k % 2:
            v.multi_blend = Vec4(0.5, 0.25, 0.0, 1.0)
            v.multi_alpha = Vec4(0.0, 1.0, 0.0, 0.0)
            v.multi_colors = [Vec(1, 1, 1), Vec(1, 1, 1), Vec(1, 1, 1), Vec(1, 1, 1)]
        else:
            v.multi_blend = Vec4()
            v.multi_colors = [Vec(0.5, 0.25, 0.125), Vec(0, 1, 0), Vec(1, 1, 1), Vec(0.75, 0.75, 0)]


def f_multiblend_w_only(vmf: VMF) -> None:
    """Weight only in the fourth blend layer, on a single vertex; every x/y/z weight is zero."""
    d = first_disp(vmf)
    for k, v in enumerate(d._disp_verts):  # noqa: SLF001
        v.multi_blend = Vec4(0.0, 0.0, 0.0, 0.75 if k == 2 else 0.0)
        v.multi_alpha = Vec4(0.0, 0.0, 0.0, 0.5 if k == 3 else 0.0)


def f_disp_fresh(vmf: VMF) -> None:
    """A displacement exactly as the constructor makes it (every vertex at its defaults), plus whole numbers given as ints
    for float fields (accepted by the type hints)."""
    prism = vmf.make_prism(Vec(256, 256, -16), Vec(384, 384, 0), mat='nature/blend')
    vmf.add_brush(prism.solid)
    top = prism.top
    new = Side(vmf, [p.copy() for p in top.planes], mat='nature/blendsand', uaxis=top.uaxis.copy(), vaxis=top.vaxis.copy(),
               disp_power=2)  # type: ignore[arg-type]
    prism.solid.sides[prism.solid.sides.index(top)] = new
    new[1, 1].distance = 5
    new[2, 1].alpha = 128
    new.disp_elevation = 3


def f_brush_ent_vis_flags(vmf: VMF) -> None:
    """Visibility flags on solids tied to a brush entity (the world-brush case is f_vis_flags)."""
    e = vmf.create_ent('func_detail')
    for i, (shown, auto) in enumerate([(True, True), (False, True), (True, False), (False, False)]):
        sol = vmf.make_prism(Vec(64 * i, 256, 64), Vec(64 * i + 16, 272, 80)).solid
        sol.vis_shown = shown
        sol.vis_auto_shown = auto
        e.solids.append(sol)


def f_multiblend_colors_after_first(vmf: VMF) -> None:
    """Tints on some vertexes only, and not on vertex (0, 0): per-vertex state, nothing is implied by the first vertex."""
    d = first_disp(vmf)
    for k, v in enumerate(d._disp_verts):  # noqa: SLF001
        v.multi_blend = Vec4(0.25, 0.0, 0.5, 0.0)
        if k in (1, 3):
            v.multi_colors = [Vec(0.5, 0.25, 1), Vec(0, 1, 0), Vec(1, 1, 1), Vec(0.125, 0.75, 0)]


def f_visgroup_blank_name(vmf: VMF) -> None:
    g = vmf.create_visgroup('')
    g.child_groups.append(VisGroup(vmf, ''))
    g.child_groups.append(VisGroup(vmf, ' '))


def f_fixup_whitespace(vmf: VMF) -> None:
    e = vmf.create_ent('func_instance', file='d.vmf')
    e.fixup['padded'] = 'value with trailing space '
    e.fixup['tabbed'] = 'x\t'
    e.fixup['line'] = 'two\nlines\n'
    e.fixup['blank'] = '   '
    e.fixup['lead'] = '  leading'


def f_strata_points(vmf: VMF) -> None:
    s = first_solid(vmf)
    s.sides[0].strata_points = [Vec(0, 0, 16), Vec(64, 0, 16), Vec(64, 32, 16.5), Vec(0.1234567, 32, 16)]
    s.sides[1].strata_points = []


def f_visgroups(vmf: VMF) -> None:
    a = vmf.create_visgroup('Group "A"', (255, 0, 128))
    b = VisGroup(vmf, 'child\\b', -1, Vec(1, 2, 3))
    c = VisGroup(vmf, 'grand', -1, Vec(0, 0, 0))
    b.child_groups.append(c)
    a.child_groups.append(b)
    vmf.create_visgroup('second')


def f_visgroup_membership(vmf: VMF) -> None:
    g = vmf.create_visgroup('members')
    g2 = vmf.create_visgroup('members2')
    first_ent(vmf).visgroup_ids.update({g.id, g2.id})
    first_solid(vmf).visgroup_ids.add(g.id)


def f_vis_flags(vmf: VMF) -> None:
    e = first_ent(vmf)
    e.vis_shown = False
    e.vis_auto_shown = False
    s = first_solid(vmf)
    s.vis_shown = False
    s.vis_auto_shown = False


def f_groups(vmf: VMF) -> None:
    g = EntityGroup(vmf, shown=False, auto_shown=True, color=Vec(10, 20, 30))
    g2 = EntityGroup(vmf, shown=True, auto_shown=False, color=Vec(40, 50, 60))
    vmf.groups[g.id] = g
    vmf.groups[g2.id] = g2
    first_solid(vmf).group_id = g.id
    first_ent(vmf).groups.add(g2.id)


def f_camera_one(vmf: VMF) -> None:
    Camera(vmf, Vec(1.5, 2, 3), Vec(64, 0.25, -8))
    vmf.active_cam = 1


def f_camera_two(vmf: VMF) -> None:
    Camera(vmf, Vec(0, 0, 0), Vec(0, 64, 0))
    Camera(vmf, Vec(-100, 50.5, 25), Vec(1, 1, 1))
    vmf.active_cam = len(vmf.cameras)


def f_cordon_one(vmf: VMF) -> None:
    Cordon(vmf, Vec(-1024, -1024, -512), Vec(1024.5, 1024, 512), True, 'main')
    vmf.cordon_enabled = True


def f_cordon_two(vmf: VMF) -> None:
    Cordon(vmf, Vec(0, 0, 0), Vec(128, 128, 128), False, 'cordon "quoted"')
    Cordon(vmf, Vec(-8, -8, -8), Vec(8, 8, 8), True, 'back\\slash')


def f_strata_views(vmf: VMF) -> None:
    vmf.strata_viewports = [
        Strata3DViewport(Vec(100, -200.5, 64), Angle(15, 270, 0)),
        Strata2DViewport('x', 12.5, -40.0, 2.0),
        Strata2DViewport('y', -7.0, 8.25, 0.5),
        Strata2DViewport('z', 1024.0, 2048.0, 0.125),
    ]


def f_strata_views_zero(vmf: VMF) -> None:
    vmf.strata_viewports = [
        Strata2DViewport('x', 0.0, 5.0, 1.0),
        Strata2DViewport('y', 3.0, 0.0, 1.0),
        Strata2DViewport('z', 0.0, 0.0, 4.0),
        Strata3DViewport(Vec(0, 0, 0), Angle(0, 0, 0)),
    ]


def f_strata_inst_vis(vmf: VMF) -> None:
    vmf.strata_instance_vis = StrataInstanceVisibility.NORMAL


def f_view_flags(vmf: VMF) -> None:
    vmf.show_grid = False
    vmf.show_3d_grid = True
    vmf.snap_grid = False
    vmf.show_logic_grid = True
    vmf.grid_spacing = 32


def f_comments(vmf: VMF) -> None:
    first_ent(vmf).comments = 'a comment with "quotes"\nand a second line \\ end'


def f_logical_pos(vmf: VMF) -> None:
    first_ent(vmf).logical_pos = '[1500 -2500]'


def f_editor_colors(vmf: VMF) -> None:
    first_ent(vmf).editor_color = Vec(220, 30, 220)
    first_solid(vmf).editor_color = Vec(0, 141, 222)


def f_quickhide(vmf: VMF) -> None:
    vmf.quickhide_count = 3


def f_versions(vmf: VMF) -> None:
    vmf.is_prefab = True
    vmf.hammer_ver = 123
    vmf.hammer_build = 4567
    vmf.map_ver = 42


def f_cordon_solid(vmf: VMF) -> None:
    first_solid(vmf).is_cordon = True


def f_worldspawn_keys(vmf: VMF) -> None:
    vmf.spawn['skyname'] = 'sky_day01_01'
    vmf.spawn['detailmaterial'] = 'detail/detailsprites'
    vmf.spawn['message'] = WEIRD
    vmf.spawn['targetname'] = 'WorldName'


def f_worldspawn_editor(vmf: VMF) -> None:
    vmf.spawn.comments = 'Map notes: "WIP"\nTODO: lighting'
    vmf.spawn.editor_color = Vec(12, 34, 56)


def f_node_ids(vmf: VMF) -> None:
    vmf.create_ent('info_node', nodeid='1', origin='0 0 0')
    vmf.create_ent('info_node', nodeid='1', origin='64 0 0')


def f_zero_ids(vmf: VMF) -> None:
    """Objects numbered 0 (as some tools write them): with preserve_ids=True a parse keeps these numbers like any other."""
    e = vmf.create_ent('info_zero', origin='0 0 0')
    e.id = 0
    s = vmf.make_prism(Vec(512, 512, 0), Vec(528, 528, 16)).solid
    vmf.add_brush(s)
    s.id = 0
    s.sides[0].id = 0


def f_out_negzero_delay(vmf: VMF) -> None:
    first_ent(vmf).add_out(Output('OnZero', 'targ', 'Fire', delay=-0.0))
    first_ent(vmf).add_out(Output('OnZero', 'targ', 'Fire', 'p', delay=-0.0, times=1))


def f_ent_keys_types(vmf: VMF) -> None:
    vmf.create_ent('typed', vec=Vec(1.5, -2, 3), flag=True, num=5, flt=0.125, ang=Angle(0, 270, 15))


def f_face_big_ints(vmf: VMF) -> None:
    # integer fields are written as plain integers of any size (smoothing groups are a bit mask; Hammer++ uses wide lightmap scales)
    s = first_solid(vmf)
    s.sides[2].smooth = 2 ** 53 + 1
    s.sides[3].smooth = 2 ** 31
    s.sides[4].lightmap = 2 ** 62 + 3
    s.sides[5].smooth = 4294967295
    vmf.grid_spacing = 2 ** 54 + 1
    vmf.map_ver = 2 ** 60 + 12345


def f_face_axis_nonunit(vmf: VMF) -> None:
    # texture axes need not be unit vectors (skewed / scaled by a tool)
    s = first_solid(vmf)
    s.sides[4].uaxis = UVAxis(1.2345678, -123.456789, 2.5, offset=1000.123456, scale=0.25)
    s.sides[4].vaxis = UVAxis(-17.0000004, 0.0001234567, 100000.25, offset=-0.5, scale=-1.0)


def f_strata_views_far(vmf: VMF) -> None:
    vmf.strata_viewports = [
        Strata2DViewport('x', 70000.0, -98304.0, 1.0),
        Strata2DViewport('y', -65537.0, 12.0, 0.25),
        Strata2DViewport('z', 3.0, 131072.5, 8.0),
        Strata3DViewport(Vec(70000, -98304, 65536), Angle(0, 90, 0)),
    ]


FEATURES: list[tuple[str, Callable[[VMF], None]]] = [(f.__name__[2:], f) for f in [
    f_ent_plain, f_ent_special_values, f_ent_special_keys, f_out_esc, f_out_comma, f_out_inst, f_out_param_comma,
    f_out_delay_frac, f_out_special, f_fixup_one, f_fixup_collide, f_fixup_quote, f_fixup_whitespace, f_ent_hidden, f_brush_ent,
    f_brush_ent_hidden_solid, f_world_prism, f_world_hidden_solid, f_face_arbitrary, f_face_rotation_sig, f_face_mat_name,
    f_disp1, f_disp2, f_disp3, f_disp4, f_disp_flags, f_multiblend, f_multiblend_default_colors, f_multiblend_partial, f_multiblend_w_only, f_multiblend_colors_after_first, f_visgroup_blank_name, f_disp_fresh, f_brush_ent_vis_flags, f_strata_points, f_visgroups,
    f_visgroup_membership, f_vis_flags, f_groups, f_camera_one, f_camera_two, f_cordon_one, f_cordon_two, f_strata_views,
    f_strata_views_zero, f_strata_inst_vis, f_view_flags, f_comments, f_logical_pos, f_editor_colors, f_quickhide, f_versions,
    f_cordon_solid, f_worldspawn_keys, f_worldspawn_editor, f_node_ids, f_zero_ids, f_out_negzero_delay, f_ent_keys_types,
    f_face_big_ints, f_face_axis_nonunit, f_strata_views_far,
]]
FEATURE_MAP = dict(FEATURES)


def build(names) -> VMF:
    vmf = VMF()
    order = [n for n, _ in FEATURES]
    for n in sorted(names, key=order.index):
        FEATURE_MAP[n](vmf)
    return vmf


# ------------------------------------------------------------------------------------------------
# observer

def C(x: float):
    return ('c', float(x))


def S(x: float):
    return ('s', float(x))


def cvec(v) -> list:
    return [C(v.x), C(v.y), C(v.z)]


def obs_uv(a: UVAxis) -> dict:
    return {'x': C(a.x), 'y': C(a.y), 'z': C(a.z), 'offset': C(a.offset), 'scale': C(a.scale)}


def obs_side(f: Side, multiblend: bool = True) -> dict:
    d: dict[str, Any] = {
        'id': ('id', 'face', f.id), 'planes': [cvec(p) for p in f.planes], 'lightmap': f.lightmap, 'smooth': f.smooth, 'mat': f.mat,
        'rotation': S(f.ham_rot), 'uaxis': obs_uv(f.uaxis), 'vaxis': obs_uv(f.vaxis),
        'points': None if f.strata_points is None else [cvec(p) for p in f.strata_points],
        'disp_power': f.disp_power,
    }
    if f.disp_power > 0:       # own test, not the library's is_disp
        d['disp_pos'] = cvec(f.disp_pos)
        d['disp_elevation'] = C(f.disp_elevation)
        d['disp_flags'] = f.disp_flags.value
        d['disp_allowed'] = list(f.disp_allowed_vert)
        verts = []
        size = f.disp_size
        # own zero test (not the library's Vec4.__bool__): any non-zero weight in any of the four layers
        any_blend = any((v.multi_blend.x, v.multi_blend.y, v.multi_blend.z, v.multi_blend.w) != (0.0, 0.0, 0.0, 0.0) for v in f._disp_verts)
        for v in f._disp_verts:
            last = v.x == size - 1 or v.y == size - 1
            vd: dict[str, Any] = {
                'xy': (v.x, v.y), 'normal': cvec(v.normal), 'distance': C(v.distance), 'offset': cvec(v.offset),
                'offset_norm': cvec(v.offset_norm), 'alpha': C(v.alpha),
                # tags of the last row/column describe no quad and are documented as ignored
                'tri': None if last else (v.triangle_a.value, v.triangle_b.value),
            }
            if multiblend and any_blend:
                vd['blend'] = [S(v.multi_blend.x), S(v.multi_blend.y), S(v.multi_blend.z), S(v.multi_blend.w)]
                vd['malpha'] = [S(v.multi_alpha.x), S(v.multi_alpha.y), S(v.multi_alpha.z), S(v.multi_alpha.w)]
                cols = v.multi_colors if v.multi_colors is not None else [Vec(1, 1, 1)] * 4
                vd['colors'] = [[S(c.x), S(c.y), S(c.z)] for c in cols]
            verts.append(vd)
        d['verts'] = verts
    return d


def obs_solid(s: Solid, in_entity: bool, multiblend: bool = True) -> dict:
    d = {'id': ('id', 'brush', s.id), 'sides': [obs_side(f, multiblend) for f in s.sides], 'hidden': s.hidden, 'vis_shown': s.vis_shown,
         'vis_auto_shown': s.vis_auto_shown, 'is_cordon': s.is_cordon, 'color': cvec(s.editor_color)}
    if not in_entity:
        # group / visgroup membership of brushes inside entities is documented as not written
        d['group'] = None if s.group_id is None else ('id', 'group', s.group_id)
        d['visgroups'] = sorted(('id', 'visgroup', i) for i in s.visgroup_ids)
    return d


def obs_output(o: Output) -> dict:
    return {'output': o.output, 'inst_out': o.inst_out or None, 'target': o.target, 'input': o.input, 'inst_in': o.inst_in or None,
            'params': o.params, 'delay': S(o.delay), 'times': o.times, 'comma': o.comma_sep}


def obs_entity(e: Entity, world: bool = False, multiblend: bool = True) -> dict:
    keys = {k: v for k, v in e.items() if not (world and k.casefold() == 'mapversion')}
    d = {
        'id': ('id', 'ent', e.id), 'keys': keys,
        'fixup': {f.var: (f.value, f.id) for f in (e._fixup._fixup.values() if e._fixup is not None else ())},
        'outputs': [obs_output(o) for o in e.outputs],
        'solids': [obs_solid(s, not world, multiblend) for s in e.solids],
        'color': cvec(e.editor_color), 'comments': e.comments,
    }
    if not world:
        d.update({'hidden': e.hidden, 'groups': sorted(('id', 'group', i) for i in e.groups),
                  'visgroups': sorted(('id', 'visgroup', i) for i in e.visgroup_ids), 'vis_shown': e.vis_shown,
                  'vis_auto_shown': e.vis_auto_shown, 'logical_pos': e.logical_pos})
    return d


def obs_vis(g: VisGroup) -> dict:
    return {'name': g.name, 'id': ('id', 'visgroup', g.id), 'color': cvec(g.color), 'children': [obs_vis(c) for c in g.child_groups]}


def obs_view(v) -> dict:
    if isinstance(v, Strata3DViewport):
        return {'3d': True, 'pos': cvec(v.position), 'angle': [C(v.angle.pitch), C(v.angle.yaw), C(v.angle.roll)]}
    return {'3d': False, 'axis': v.axis, 'u': C(v.u), 'v': C(v.v), 'zoom': C(v.zoom)}


def observe(vmf: VMF, minimal: bool = False, multiblend: bool = True) -> dict:
    d: dict[str, Any] = {
        'versions': {'prefab': vmf.is_prefab, 'map_ver': vmf.map_ver, 'format': vmf.format_ver, 'hammer_ver': vmf.hammer_ver,
                     'hammer_build': vmf.hammer_build},
        'visgroups': [obs_vis(g) for g in vmf.vis_tree],
        'groups': {('id', 'group', k): {'id': ('id', 'group', g.id), 'shown': g.shown, 'auto_shown': g.auto_shown, 'color': cvec(g.color)}
                   for k, g in vmf.groups.items()},
        'world': obs_entity(vmf.spawn, True, multiblend),
        'entities': [obs_entity(e, False, multiblend) for e in vmf.entities],
        'quickhide': vmf.quickhide_count,
    }
    if not minimal:
        d['view'] = {'show_grid': vmf.show_grid, 'show_3d_grid': vmf.show_3d_grid, 'snap_grid': vmf.snap_grid,
                     'show_logic_grid': vmf.show_logic_grid, 'grid_spacing': vmf.grid_spacing,
                     'inst_vis': None if vmf.strata_instance_vis is None else vmf.strata_instance_vis.value,
                     'views': None if vmf.strata_viewports is None else [obs_view(v) for v in vmf.strata_viewports]}
        d['cameras'] = {'active': vmf.active_cam if vmf.cameras else -1, 'list': [{'pos': cvec(c.pos), 'target': cvec(c.target)} for c in vmf.cameras]}
        d['cordons'] = {'enabled': vmf.cordon_enabled if vmf.cordons else False,
                        'list': [{'name': c.name, 'min': cvec(c.bounds_min), 'max': cvec(c.bounds_max), 'active': c.active} for c in vmf.cordons]}
    return d


class IdMap:
    """Consistent renumbering: per kind a bijection original id -> re-read id, built on first occurrence."""

    def __init__(self, exact: bool) -> None:
        self.exact = exact
        self.fwd: dict = {}
        self.back: dict = {}

    def same(self, a, b) -> bool:
        _, kind, x = a
        _, kind2, y = b
        if kind != kind2:
            return False
        if self.exact:
            return x == y
        f = self.fwd.setdefault(kind, {})
        r = self.back.setdefault(kind, {})
        if x in f or y in r:
            return f.get(x) == y and r.get(y) == x
        f[x] = y
        r[y] = x
        return True


def diff(a, b, ids: IdMap, path: str = '') -> list:
    """First few differences between two observations, honouring the tolerance tags."""
    out: list = []

    def rec(x, y, p: str) -> None:
        if len(out) >= 5:
            return
        if isinstance(x, tuple) and len(x) == 2 and x[0] in ('c', 's') and isinstance(y, tuple) and len(y) == 2 and y[0] == x[0]:
            u, v = x[1], y[1]
            if x[0] == 'c':
                ok = abs(u - v) <= 5e-7 + 1e-12 * abs(u)
            else:
                ok = abs(u - v) <= 5e-6 * max(abs(u), abs(v)) + 1e-300
            if not ok:
                out.append((p, u, v))
            return
        if isinstance(x, tuple) and len(x) == 3 and x[0] == 'id' and isinstance(y, tuple) and len(y) == 3 and y[0] == 'id':
            if not ids.same(x, y):
                out.append((p, x, y))
            return
        if type(x) is not type(y):
            out.append((p, x, y))
            return
        if isinstance(x, dict):
            kx = list(x)
            ky = list(y)
            if len(kx) != len(ky):
                out.append((p + '#keys', sorted(map(str, kx)), sorted(map(str, ky))))
                return
            # keys may themselves be id-tagged (groups); pair in insertion order then
            if all(isinstance(k, tuple) for k in kx):
                for k1, k2 in zip(kx, ky):
                    rec(k1, k2, p + '.key')
                    rec(x[k1], y[k2], f'{p}[{k1[-1]}]')
                return
            if set(kx) != set(ky):
                out.append((p + '#keys', sorted(map(str, kx)), sorted(map(str, ky))))
                return
            for k in kx:
                rec(x[k], y[k], f'{p}.{k}')
            return
        if isinstance(x, (list, tuple)):
            if len(x) != len(y):
                out.append((p + '#len', len(x), len(y)))
                return
            for i, (u, v) in enumerate(zip(x, y)):
                rec(u, v, f'{p}[{i}]')
            return
        if x != y:
            out.append((p, x, y))

    rec(a, b, path)
    return out


def generalise(path: str) -> str:
    """Drop indexes from a difference path so that it can serve as a stable signature."""
    import re
    return re.sub(r'\[[^\]]*\]', '[]', path)
