"""C14 - DMX export/parse preserves the element graph (binary v1..5 and KeyValues2), KV1 bridge.

Bounded exhaustive exploration on the real srctools.dmx code.  A document is composed from <= 2
*features* (a value attribute, a name in a role, a small element graph, a mixed-case `name` key) on
top of a one-element base document, or is one member of the exhaustively enumerated family of small
element graphs.  Every document is exported under every configuration, parsed back with
Element.parse and compared with the *specification* it was built from (never with library `==`):
simultaneous walk from the roots + an independent decoder for the binary stream.

A failing document is shrunk (drop a feature / an attribute / an array item / a character) while
the same oracle clause keeps failing; the failure signature names the coarse class of the *minimal*
document, so one defect yields few, stable (kind, sig) groups.
"""
from __future__ import annotations

import io
import itertools
import resource
import signal
import struct
from uuid import UUID

from srctools.dmx import (
    NULL, Attribute, Color, Element, Quaternion, StubElement, Time, ValueType, Vec2, Vec4,
)
from srctools.keyvalues import Keyvalues
from srctools.math import FrozenAngle, FrozenMatrix, FrozenVec, Matrix

from mcv import core
from mcv.enum import trees

PROPERTY = 'C14'
LEVEL = 'exploration'


def f32(x: float) -> float:
    return struct.unpack('<f', struct.pack('<f', x))[0]


def EU(i: int, doc: dict = None) -> UUID:
    """UUID of element i of a document."""
    if doc is not None and doc.get('uu') == 'nil_elem' and i == len(doc['els']) - 1 and i > 0:
        return UUID(int=0)          # a real element may carry the all-zero UUID (NULL references are not UUIDs)
    return UUID(int=(0xC14E << 96) + 0x1000 + i)


def SU(k: int, doc: dict = None) -> UUID:
    """UUID of stub k of a document."""
    if doc is not None and doc.get('uu') == 'stub_twin' and k == 0:
        return EU(len(doc['els']) - 1)     # a stub may name the UUID of an element that is also present in this file
    return UUID(int=(0xC145 << 96) + 0x2000 + k)


# ---------------------------------------------------------------------------------------------
# value tables: type -> [(tag, json value)]; floats are exactly representable in float32, times are
# multiples of 1/10000 s inside int32 (the wire types), angles lie in [0, 360).

F32MAX = 3.4028234663852886e38
VT_ELEMENT = 'element'
TYPES = ['int', 'float', 'bool', 'string', 'binary', 'time', 'color', 'vector2', 'vector3', 'vector4',
         'qangle', 'quaternion', 'vmatrix']
ALL_TYPES = [VT_ELEMENT] + TYPES     # every member of srctools.dmx.ValueType
SUFFIX = {'element': 'elem', 'int': 'int', 'float': 'float', 'bool': 'bool', 'string': 'str', 'binary': 'bin',
          'time': 'time', 'color': 'color', 'vector2': 'vec2', 'vector3': 'vec3', 'vector4': 'vec4',
          'qangle': 'ang', 'quaternion': 'quat', 'vmatrix': 'mat'}
TYPE_CODE = {'element': 1, 'int': 2, 'float': 3, 'bool': 4, 'string': 5, 'binary': 6, 'time': 7, 'color': 8,
             'vector2': 9, 'vector3': 10, 'vector4': 11, 'qangle': 12, 'quaternion': 13, 'vmatrix': 14}
CODE_TYPE = {v: k for k, v in TYPE_CODE.items()}
FIRST_ARRAY_CODE = 15            # Valve: AT_FIRST_ARRAY_TYPE = AT_ELEMENT_ARRAY = 15 (scalar code + 14)

BLOB300 = (bytes(range(256)) + bytes(range(44))).hex()

VALUES: dict[str, list] = {
    'int': [('0', 0), ('1', 1), ('neg1', -1), ('min', -2 ** 31), ('max', 2 ** 31 - 1),
            # text carries integers of any size (binary has 32 bits: there the export has to refuse)
            ('big53', 2 ** 53 + 1), ('negbig', -(2 ** 63) - 5)],
    'float': [('0', 0.0), ('1p5', 1.5), ('neg0', -0.0), ('neg', -2.25), ('f32max', F32MAX),
              ('f32minnorm', f32(1.1754943508222875e-38)), ('denorm', f32(1.401298464324817e-45)),
              ('tiny', f32(1e-7)), ('edge', f32(1.0000005)), ('big', 16777216.0), ('frac', f32(0.1)), ('micro', f32(1e-6))],
    'bool': [('t', True), ('f', False)],
    'string': [('ascii', 'abc'), ('nonascii', 'é'), ('empty', ''), ('quote', 'say "hi"'), ('bslash', 'a\\b'),
               ('nl', 'l1\nl2'), ('crlf', 'a\r\nb'), ('tab', '\tx'), ('astral', '\U0001F600x'), ('squote', "it's"),
               ('brace', '{[x]}'), ('comment', '//c'), ('trailbs', 'end\\'),
               ('len255', 'x' * 255), ('len256', 'y' * 256), ('len600', 'ab' * 300), ('arrow', 'x --> y'),
               # longer than any read block, multi-byte characters at every alignment (2-, 3- and 4-byte sequences, shifted by 0..2 bytes)
               ('u2x9000', 'é' * 9000), ('u2x9000s', 'x' + 'é' * 9000), ('u3x6000', '€' * 6000), ('u3x6000s', 'x' + '€' * 6000),
               ('u3x6000t', 'xy' + '€' * 6000), ('u4x5000', 'q' + '\U0001F600' * 5000 + 'xyz' + '\U0001F600' * 100)],
    'binary': [('one', '00'), ('big300', BLOB300), ('empty', ''), ('ffq', 'ff0022')],
    'time': [('1p5', 15000 / 10000.0), ('max', (2 ** 31 - 1) / 10000.0), ('0', 0.0), ('neg', -22500 / 10000.0),
             ('tick', 1 / 10000.0), ('min', -2 ** 31 / 10000.0),
             # tick counts for which n / 10000.0 and n * 0.0001 differ in the last bit
             ('t3', 3 / 10000.0), ('t13', 13 / 10000.0), ('t12345', 12345 / 10000.0), ('tneg17', -17 / 10000.0),
             # text only (not whole ticks / beyond the binary field): values whose shortest decimal form has an exponent
             ('texp_small', 1.5e-10), ('texp_big', 1.25e+20), ('texp_30', -2.5e+30), ('texp_m5', 2.5e-05)],
    'color': [('c123', [1, 2, 3, 255]), ('zero', [0, 0, 0, 0]), ('full', [255, 255, 255, 255]), ('mix', [255, 0, 128, 0])],
    'vector2': [('simple', [1.5, -2.25]), ('big', [16777216.0, -F32MAX]), ('zero', [0.0, 0.0])],
    'vector3': [('simple', [1.0, 2.0, 3.0]), ('mixed', [-0.5, 1024.25, 1000000.0]), ('zero', [0.0, 0.0, 0.0])],
    'vector4': [('simple', [1.0, 2.0, 3.0, 4.0]), ('frac', [0.25, -0.5, 0.75, -1.0]), ('zero', [0.0, 0.0, 0.0, 0.0])],
    'qangle': [('simple', [10.0, 20.0, 30.0]), ('hi', [359.5, 0.0, 0.0]), ('zero', [0.0, 0.0, 0.0]),
               ('quarter', [90.25, 180.0, 270.5])],
    'quaternion': [('ident', [0.0, 0.0, 0.0, 1.0]), ('half', [0.5, 0.5, 0.5, 0.5]),
                   ('rot', [0.0, f32(0.70710678), 0.0, f32(0.70710678)])],
    'vmatrix': [('ident', [1.0, 0.0, 0.0, 0.0, 1.0, 0.0, 0.0, 0.0, 1.0]),
                ('rot90', [0.0, 1.0, 0.0, -1.0, 0.0, 0.0, 0.0, 0.0, 1.0]),
                ('general', [0.5, 0.25, -1.0, 2.0, -0.125, 0.0, 3.0, 4.0, 5.0])],
}
TAG_OF = {vt: {core.jdump(v): t for t, v in lst} for vt, lst in VALUES.items()}

# harness self-check of the representability rule for TIME (value * 10000 is an exact int32)
TEXT_ONLY_TIMES = {1.5e-10, 1.25e+20, -2.5e+30, 2.5e-05}
for _t, _v in VALUES['time']:
    if _v in TEXT_ONLY_TIMES:
        continue
    _n = round(_v * 10000.0)
    assert -2 ** 31 <= _n < 2 ** 31 and _n / 10000.0 == _v, _v
for _vt in ('float', 'vector2', 'vector3', 'vector4', 'qangle', 'quaternion', 'vmatrix'):
    for _t, _v in VALUES[_vt]:
        for _x in (_v if isinstance(_v, list) else [_v]):
            assert f32(_x) == _x, (_vt, _t, _x)


def mk_value(vt: str, j):
    """JSON value -> the Python value srctools expects for this type."""
    if vt in ('int', 'bool', 'string'):
        return j
    if vt == 'float':
        return float(j)
    if vt == 'binary':
        return bytes.fromhex(j)
    if vt == 'time':
        return Time(float(j))
    if vt == 'color':
        return Color(*j)
    if vt == 'vector2':
        return Vec2(*j)
    if vt == 'vector3':
        return FrozenVec(*j)
    if vt == 'vector4':
        return Vec4(*j)
    if vt == 'qangle':
        return FrozenAngle(*j)
    if vt == 'quaternion':
        return Quaternion(*j)
    if vt == 'vmatrix':
        m = Matrix()
        for r in range(3):
            for c in range(3):
                m[r, c] = j[3 * r + c]
        return m.freeze()
    raise AssertionError(vt)


def wire_bytes(vt: str, j) -> bytes:
    """Harness's own packing of a fixed-size value (Valve's binary DMX layout)."""
    if vt == 'int':
        return struct.pack('<i', j)
    if vt == 'float':
        return struct.pack('<f', j)
    if vt == 'bool':
        return b'\x01' if j else b'\x00'
    if vt == 'time':
        return struct.pack('<i', round(j * 10000.0))
    if vt == 'color':
        return bytes(j)
    if vt in ('vector2', 'vector3', 'vector4', 'qangle', 'quaternion'):
        return struct.pack('<%df' % len(j), *j)
    if vt == 'vmatrix':
        return struct.pack('<16f', j[0], j[1], j[2], 0.0, j[3], j[4], j[5], 0.0, j[6], j[7], j[8], 0.0,
                           0.0, 0.0, 0.0, 1.0)
    raise AssertionError(vt)


FIXED_SIZE = {'int': 4, 'float': 4, 'bool': 1, 'time': 4, 'color': 4, 'vector2': 8, 'vector3': 12, 'vector4': 16,
              'qangle': 12, 'quaternion': 16, 'vmatrix': 64}


# ---------------------------------------------------------------------------------------------
# documents.  doc = {'els': [{'t': type, 'n': name, 'a': [[attr_name, vtype, 's'|'a', payload], ...],
#                             'nk': optional key the name was assigned through}, ...]}
# element payloads: int = element index, 'N' = NULL, 'S0'/'S1' = stub k.

def build(doc: dict) -> Element:
    els = [Element(el['n'], el['t'], EU(i, doc)) for i, el in enumerate(doc['els'])]
    stubs: dict[str, StubElement] = {}

    def ref(r):
        if r == 'N':
            return NULL
        if isinstance(r, str):
            if r not in stubs:
                stubs[r] = StubElement.stub(SU(int(r[1:]), doc))
            return stubs[r]
        return els[r]

    for e, el in zip(els, doc['els']):
        if el.get('nk'):
            e[el['nk']] = el['n']
        if el.get('noname') == 'clear':
            e.clear()
        for name, vt, shape, payload in el['a']:
            if vt == VT_ELEMENT:
                if shape == 's':
                    e[name] = ref(payload)
                else:
                    e[name] = Attribute.array(name, ValueType.ELEMENT, [ref(r) for r in payload])
            elif shape == 's':
                if vt == 'time':
                    e[name] = Attribute.time(name, mk_value(vt, payload))
                else:
                    e[name] = mk_value(vt, payload)
            else:
                e[name] = Attribute.array(name, ValueType(vt), [mk_value(vt, p) for p in payload])
        if el.get('noname') == 'del':
            del e['name']
        elif el.get('noname') == 'pop':
            e.pop('name')
    return els[0]


def doc_strings(doc: dict):
    """Every string the encodings have to write for this document."""
    for el in doc['els']:
        yield el['t']
        yield el['n']
        for name, vt, shape, payload in el['a']:
            yield name
            if vt == 'string':
                if shape == 's':
                    yield payload
                else:
                    yield from payload


def inexpressible(doc: dict, cfg: dict):
    """Harness's expressibility rule: returns a reason if cfg cannot express doc (export must raise)."""
    if cfg['enc'] == 'bin' and cfg['ver'] < 3:
        if any(a[1] == 'time' for el in doc['els'] for a in el['a']):
            return 'time_before_v3'
    if cfg['uni'] == 'ascii' and not all(s.isascii() for s in doc_strings(doc)):
        return 'nonascii_under_ascii'
    if cfg['enc'] == 'bin':
        for el in doc['els']:
            for _, vt, shape, payload in el['a']:
                if vt == 'int' and any(not -2 ** 31 <= v < 2 ** 31 for v in ([payload] if shape == 's' else payload)):
                    return 'int_beyond_32_bits'
    return None


class Mismatch(Exception):
    def __init__(self, what: str, detail: str):
        super().__init__(detail)
        self.what = what
        self.detail = detail


TEXT_TOL = 5e-7


def _num_eq(a: float, b, text: bool, angle: bool = False) -> bool:
    if type(b) is not float:
        return False
    if not text:
        return struct.pack('<d', a) == struct.pack('<d', b)
    d = abs(a - b)
    if angle:
        d = min(d, abs(d - 360.0))
    return d <= TEXT_TOL + 1e-12 * max(1.0, abs(a))


def value_eq(vt: str, j, got, text: bool) -> bool:
    """spec JSON value vs the parsed Python value (exact in binary, 5e-7 in text)."""
    if vt == 'int':
        return type(got) is int and got == j
    if vt == 'float':
        return _num_eq(j, got, text)
    if vt == 'bool':
        return type(got) is bool and got == j
    if vt == 'string':
        return type(got) is str and got == j
    if vt == 'binary':
        return type(got) is bytes and got.hex() == j
    if vt == 'time':
        return type(got) is Time and _num_eq(j, got.value, text)
    if vt == 'color':
        return type(got) is Color and [got.r, got.g, got.b, got.a] == j and all(type(c) is int for c in got)
    if vt in ('vector2', 'vector4', 'quaternion'):
        cls = {'vector2': Vec2, 'vector4': Vec4, 'quaternion': Quaternion}[vt]
        return type(got) is cls and len(got) == len(j) and all(_num_eq(a, b, text) for a, b in zip(j, got))
    if vt == 'vector3':
        return type(got) is FrozenVec and all(_num_eq(a, b, text) for a, b in zip(j, (got.x, got.y, got.z)))
    if vt == 'qangle':
        return type(got) is FrozenAngle and all(
            _num_eq(a, b, text, angle=True) for a, b in zip(j, (got.pitch, got.yaw, got.roll)))
    if vt == 'vmatrix':
        return type(got) is FrozenMatrix and all(
            _num_eq(j[3 * r + c], got[r, c], text) for r in range(3) for c in range(3))
    raise AssertionError(vt)


def compare_graph(doc: dict, root, cfg: dict) -> None:
    """Simultaneous walk of the specification and the parsed graph; raises Mismatch at the first difference."""
    text = cfg['enc'] == 'kv2'
    cull = bool(cfg.get('cull'))
    spec_to_obj: dict[int, object] = {}
    obj_to_spec: dict[int, int] = {}
    work = [(0, root, 'root')]
    while work:
        i, p, path = work.pop(0)
        if i in spec_to_obj:
            if spec_to_obj[i] is not p:
                raise Mismatch('sharing', f'{path}: element #{i} was shared in the source but parsed into two objects')
            continue
        if not isinstance(p, Element) or isinstance(p, StubElement):
            raise Mismatch('elem_kind', f'{path}: expected a real element #{i}, got {p!r}')
        if id(p) in obj_to_spec:
            raise Mismatch('sharing', f'{path}: source elements #{obj_to_spec[id(p)]} and #{i} parsed into one object')
        spec_to_obj[i] = p
        obj_to_spec[id(p)] = i
        el = doc['els'][i]
        if p.type != el['t'] or type(p.type) is not str:
            raise Mismatch('elem_type', f'{path}: element type {p.type!r}, expected {el["t"]!r}')
        if p.name != el['n']:
            raise Mismatch('elem_name', f'{path}: element name {p.name!r}, expected {el["n"]!r}')
        if not cull and p.uuid != EU(i, doc):
            raise Mismatch('uuid', f'{path}: UUID {p.uuid}, expected {EU(i, doc)}')
        items = [(k, a) for k, a in p.items() if k != 'name']
        got_names = [a.name for k, a in items]
        want_names = [a[0] for a in el['a']]
        if got_names != want_names:
            raise Mismatch('attr_names', f'{path}: attribute names {got_names!r}, expected {want_names!r}')
        for (k, a), (name, vt, shape, payload) in zip(items, el['a']):
            apath = f'{path}.{name}'
            if k != name.casefold():
                raise Mismatch('attr_names', f'{apath}: stored under key {k!r}')
            if a.type is not ValueType(vt):
                raise Mismatch('value_type', f'{apath}: type {a.type}, expected {vt}')
            if a.is_array != (shape == 'a'):
                raise Mismatch('shape', f'{apath}: is_array={a.is_array}, expected shape {shape}')
            if shape == 's':
                got = [getattr(a, 'val_' + SUFFIX[vt])]
                want = [payload]
            else:
                got = list(getattr(a, 'iter_' + SUFFIX[vt])())
                want = list(payload)
            if len(got) != len(want):
                raise Mismatch('shape', f'{apath}: array length {len(got)}, expected {len(want)}')
            for n, (g, w) in enumerate(zip(got, want)):
                if vt != VT_ELEMENT:
                    if not value_eq(vt, w, g, text):
                        raise Mismatch('value', f'{apath}[{n}]: {vt} value {g!r}, expected {w!r}'
                                                + ('' if not text else ' (tolerance 5e-7)'))
                elif w == 'N':
                    if g is not NULL:        # (own test: the NULL singleton, not the library's is_null predicate)
                        raise Mismatch('null', f'{apath}[{n}]: expected NULL, got {g!r}')
                elif isinstance(w, str):
                    if not (isinstance(g, StubElement) and g is not NULL):
                        raise Mismatch('stub', f'{apath}[{n}]: expected a stub, got {g!r}')
                    if g.uuid != SU(int(w[1:]), doc):
                        raise Mismatch('stub_uuid', f'{apath}[{n}]: stub UUID {g.uuid}, expected {SU(int(w[1:]), doc)}')
                else:
                    work.append((w, g, f'{apath}[{n}]'))


# ---------------------------------------------------------------------------------------------
# independent decoder for the binary stream (written from Valve's layout, shares no code with srctools)

class WireError(Exception):
    def __init__(self, what: str, detail: str):
        super().__init__(detail)
        self.what = what
        self.detail = detail


class _Rd:
    def __init__(self, data: bytes, pos: int):
        self.d = data
        self.p = pos

    def take(self, n: int, why: str) -> bytes:
        if n < 0 or self.p + n > len(self.d):
            raise WireError('truncated', f'stream ends inside {why} (offset {self.p}, need {n} bytes of {len(self.d)})')
        b = self.d[self.p:self.p + n]
        self.p += n
        return b

    def i32(self, why: str) -> int:
        return struct.unpack('<i', self.take(4, why))[0]

    def i16(self, why: str) -> int:
        return struct.unpack('<h', self.take(2, why))[0]

    def cstr(self, why: str) -> bytes:
        end = self.d.find(b'\0', self.p)
        if end < 0:
            raise WireError('truncated', f'unterminated string in {why} at offset {self.p}')
        b = self.d[self.p:end]
        self.p = end + 1
        return b


def decode_binary(data: bytes, ver: int, uni: str) -> list:
    """-> [{'t','n','u','a':[(name, type, shape, raw)]}]; raw: element refs int/'N'/('S', uuid-text), str, or bytes."""
    head = b'<!-- dmx encoding %sbinary %d format dmx 1 -->\n\0' % (b'unicode_' if uni == 'format' else b'', ver)
    if not data.startswith(head):
        raise WireError('header', f'header {data[:70]!r}, expected {head!r}')
    enc = 'ascii' if uni == 'ascii' else 'utf8'
    rd = _Rd(data, len(head))

    def dec(b: bytes, why: str) -> str:
        try:
            return b.decode(enc)
        except UnicodeDecodeError:
            raise WireError('string_encoding', f'{why}: {b!r} is not {enc}') from None

    table = None
    if ver >= 2:
        n = rd.i32('string table size') if ver >= 4 else rd.i16('string table size')
        if n < 0:
            raise WireError('string_table', f'negative string table size {n}')
        table = [dec(rd.cstr('string table'), 'string table') for _ in range(n)]
        if len(set(table)) != len(table):
            raise WireError('string_table', f'duplicate entries in the string table {table!r}')

    def tstr(why: str) -> str:
        assert table is not None
        ix = rd.i32(why) if ver >= 5 else rd.i16(why)
        if not 0 <= ix < len(table):
            raise WireError('string_table', f'{why}: string index {ix} outside the table of {len(table)}')
        return table[ix]

    count = rd.i32('element count')
    if not 0 < count < 1000:
        raise WireError('element_table', f'element count {count}')
    els = []
    for i in range(count):
        t = tstr(f'type of element {i}') if ver >= 2 else dec(rd.cstr('element type'), 'element type')
        nm = tstr(f'name of element {i}') if ver >= 4 else dec(rd.cstr('element name'), 'element name')
        u = UUID(bytes_le=rd.take(16, 'element id'))
        els.append({'t': t, 'n': nm, 'u': u, 'a': []})
    for i, el in enumerate(els):
        na = rd.i32(f'attribute count of element {i}')
        if not 0 <= na < 1000:
            raise WireError('attr_count', f'element {i}: attribute count {na}')
        for k in range(na):
            why = f'element {i} attribute {k}'
            nm = tstr(why + ' name') if ver >= 2 else dec(rd.cstr(why + ' name'), why + ' name')
            code = rd.take(1, why + ' type')[0]
            if FIRST_ARRAY_CODE <= code < FIRST_ARRAY_CODE + 14:
                vt = CODE_TYPE[code - 14]
                n = rd.i32(why + ' array length')
                if not 0 <= n < 100000:
                    raise WireError('array_len', f'{why} ({nm!r}): array length {n}')
                shape = 'a'
            elif 1 <= code <= 14:
                vt, n, shape = CODE_TYPE[code], 1, 's'
            else:
                raise WireError('type_code', f'{why} ({nm!r}): type code {code}')
            if vt == 'time' and ver < 3:
                raise WireError('type_code', f'{why} ({nm!r}): type code {code} (time) in version {ver}')
            vals = []
            for _ in range(n):
                if vt == VT_ELEMENT:
                    ix = rd.i32(why + ' element index')
                    if ix == -1:
                        vals.append('N')
                    elif ix == -2:
                        vals.append(('S', rd.cstr(why + ' stub id').decode('latin1')))
                    elif 0 <= ix < count:
                        vals.append(ix)
                    else:
                        raise WireError('elem_index', f'{why} ({nm!r}): element index {ix} of {count}')
                elif vt == 'string':
                    if shape == 's' and ver >= 4:
                        vals.append(tstr(why + ' value'))
                    else:
                        vals.append(dec(rd.cstr(why + ' value'), why + ' value'))
                elif vt == 'binary':
                    vals.append(rd.take(rd.i32(why + ' blob size'), why + ' blob'))
                else:
                    vals.append(rd.take(FIXED_SIZE[vt], why + ' value'))
            el['a'].append((nm, vt, shape, vals))
    if rd.p != len(data):
        raise WireError('trailing', f'{len(data) - rd.p} undecoded bytes after the last element')
    return els


def compare_wire(doc: dict, els: list, cfg: dict) -> None:
    """The bytes srctools wrote, decoded by the harness, must describe the specification bit-exactly."""
    spec_to_wire: dict[int, int] = {}
    wire_to_spec: dict[int, int] = {}
    work = [(0, 0, 'root')]
    while work:
        i, w, path = work.pop(0)
        if i in spec_to_wire:
            if spec_to_wire[i] != w:
                raise WireError('sharing', f'{path}: element #{i} written twice (records {spec_to_wire[i]} and {w})')
            continue
        if w in wire_to_spec:
            raise WireError('sharing', f'{path}: elements #{wire_to_spec[w]} and #{i} share record {w}')
        spec_to_wire[i] = w
        wire_to_spec[w] = i
        el, wel = doc['els'][i], els[w]
        if (wel['t'], wel['n'], wel['u']) != (el['t'], el['n'], EU(i, doc)):
            raise WireError('elem_header', f"{path}: record ({wel['t']!r}, {wel['n']!r}, {wel['u']}), expected "
                                           f"({el['t']!r}, {el['n']!r}, {EU(i, doc)})")
        if [a[0] for a in wel['a']] != [a[0] for a in el['a']]:
            raise WireError('attr_names', f"{path}: attributes {[a[0] for a in wel['a']]!r}, expected "
                                          f"{[a[0] for a in el['a']]!r}")
        for (nm, wvt, wshape, vals), (name, vt, shape, payload) in zip(wel['a'], el['a']):
            apath = f'{path}.{name}'
            if (wvt, wshape) != (vt, shape):
                raise WireError('type_code', f'{apath}: written as {wvt}/{wshape}, expected {vt}/{shape}')
            want = [payload] if shape == 's' else list(payload)
            if len(vals) != len(want):
                raise WireError('array_len', f'{apath}: {len(vals)} items, expected {len(want)}')
            for n, (g, x) in enumerate(zip(vals, want)):
                if vt == VT_ELEMENT:
                    if x == 'N' or isinstance(x, str):
                        exp = 'N' if x == 'N' else ('S', str(SU(int(x[1:]), doc)))
                        if g != exp:
                            raise WireError('elem_ref', f'{apath}[{n}]: reference {g!r}, expected {exp!r}')
                    elif not isinstance(g, int):
                        raise WireError('elem_ref', f'{apath}[{n}]: reference {g!r}, expected element #{x}')
                    else:
                        work.append((x, g, f'{apath}[{n}]'))
                elif vt == 'string':
                    if g != x:
                        raise WireError('value', f'{apath}[{n}]: string {g!r}, expected {x!r}')
                elif vt == 'binary':
                    if g.hex() != x:
                        raise WireError('value', f'{apath}[{n}]: blob {g.hex()[:40]}, expected {x[:40]}')
                elif g != wire_bytes(vt, x):
                    raise WireError('value', f'{apath}[{n}]: bytes {g.hex()}, expected {wire_bytes(vt, x).hex()} ({x!r})')
    if len(els) != len(spec_to_wire):
        raise WireError('element_table', f'{len(els)} element records for {len(spec_to_wire)} reachable elements')


# ---------------------------------------------------------------------------------------------
# features -> document

RESERVED = {'name', 'id', 'subkeys', 'value'}
ROLES = ['eltype', 'elname', 'attr', 'child_type', 'child_name', 'link_s', 'link_a']
GTYPES = ('DmeA', 'DmeB', 'DmeA')      # elements 0 and 2 share a type string (string-table sharing)


def strclass(s: str) -> str:
    if s == '':
        return 'empty'
    for ch, nm in (('"', 'quote'), ('\\', 'bslash'), ('\n', 'newline'), ('\r', 'newline'), ('\t', 'tab')):
        if ch in s:
            return nm
    if not s.isascii():
        return 'nonascii'
    if "'" in s:
        return 'squote'
    if ' ' in s:
        return 'space'
    if s.casefold() in RESERVED:
        return 'reserved_' + s.casefold() + ('' if s == s.casefold() else '_cased')
    if s != s.lower():
        return 'upper'
    return 'plain'


def graph_targets(g):
    for i, attrs in enumerate(g):
        for shape, tg in attrs:
            for t in ([tg] if shape == 's' else tg):
                yield i, t


def canon_graph(g):
    """Drop unreachable elements, number elements and stubs in the order export discovers them."""
    order = [0]
    smap: dict[str, str] = {}
    k = 0
    while k < len(order):
        for shape, tg in g[order[k]]:
            for t in ([tg] if shape == 's' else tg):
                if isinstance(t, int):
                    if t not in order:
                        order.append(t)
                elif t != 'N' and t not in smap:
                    smap[t] = 'S%d' % len(smap)
        k += 1
    emap = {old: new for new, old in enumerate(order)}

    def m(t):
        return emap[t] if isinstance(t, int) else smap.get(t, t)
    return [[[shape, m(tg) if shape == 's' else [m(t) for t in tg]] for shape, tg in g[old]] for old in order]


def graph_tags(g) -> list:
    tags = set()
    edges: dict[int, set] = {i: set() for i in range(len(g))}
    indeg = [0] * len(g)
    for i, attrs in enumerate(g):
        for shape, tg in attrs:
            ts = [tg] if shape == 's' else tg
            if shape == 'a' and len(ts) != len({core.jdump(t) for t in ts}):
                tags.add('dup')
            for t in ts:
                if t == 'N':
                    tags.add('null')
                elif isinstance(t, str):
                    tags.add('stub')
                elif t == i:
                    tags.add('self')
                else:
                    edges[i].add(t)
                    indeg[t] += 1
    if any(d > 1 for d in indeg[1:]):
        tags.add('shared')

    def reach(a, b, seen):
        return any(x == b or (x not in seen and not seen.add(x) and reach(x, b, seen)) for x in edges[a])
    if any(reach(i, i, set()) for i in range(len(g))):
        tags.add('cycle')
    return sorted(tags) or ['plain']


def fclass(f) -> str:
    if f[0] == 'val':
        _, vt, shape, payload = f
        if shape == 's':
            tag = TAG_OF[vt].get(core.jdump(payload), 'other')
        else:
            tag = ','.join(TAG_OF[vt].get(core.jdump(p), 'other') for p in payload) or 'empty'
        return f'val:{vt}:{shape}:{tag}'
    if f[0] == 'name':
        return f'name:{f[1]}:{strclass(f[2])}'
    if f[0] == 'graph':
        return 'graph:' + ','.join(graph_tags(f[1]))
    if f[0] == 'namekey':
        return 'namekey_cased'
    if f[0] == 'noname':
        return f'noname:{f[1]}'
    if f[0] == 'uuids':
        return f'uuids:{f[1]}'
    raise AssertionError(f)


def cause_of(feats) -> str:
    return ' & '.join(sorted(fclass(f) for f in feats)) or 'base'


def compose(feats):
    """feature list -> document, or None when the combination is outside the representable space."""
    graphs = [f for f in feats if f[0] == 'graph']
    if len(graphs) > 1:
        return None
    if graphs:
        els = []
        for i, attrs in enumerate(graphs[0][1]):
            if len(attrs) > 2:
                return None
            a = [['pq'[k], VT_ELEMENT, shape, tg] for k, (shape, tg) in enumerate(attrs)]
            a.append(['z', 'int', 's', 10 + i])
            els.append({'t': GTYPES[i % 3], 'n': f'e{i}', 'a': a})
    else:
        els = [{'t': 'DmeRoot', 'n': 'root', 'a': []}]
    root = els[0]
    for k, f in enumerate(feats):
        if f[0] == 'val':
            root['a'].append([f'v{k}', f[1], f[2], f[3]])
    roles = [f[1] for f in feats if f[0] == 'name']
    if len(roles) != len(set(roles)):
        return None
    if any(r.startswith(('child', 'link')) for r in roles) and not graphs:
        els.append({'t': 'DmeKid', 'n': 'kid1', 'a': [['z', 'int', 's', 1]]})
        els.append({'t': 'DmeKid', 'n': 'kid2', 'a': [['z', 'int', 's', 2]]})
        root['a'].insert(0, ['d', VT_ELEMENT, 'a', [2]])
        root['a'].insert(0, ['c', VT_ELEMENT, 's', 1])
    for f in feats:
        if f[0] == 'noname':
            # the element lost its `name` member (del / pop / clear): its name reads '' and must round-trip as ''
            if any(g[0] == 'namekey' or (g[0] == 'name' and (g[1] == 'elname' or (g[1] == 'child_name' and f[2] == 'all'))) for g in feats):
                return None
            for el in (els if f[2] == 'all' else els[:1]):
                el['noname'] = f[1]
                el['n'] = ''
            root['a'].append(['after_name', 'int', 's', 7])
        if f[0] == 'namekey':
            if f[1].casefold() != 'name' or f[1] == 'name':
                return None
            root['nk'] = f[1]
            root['a'].append(['after_name', 'int', 's', 7])     # makes a lost/misplaced attribute visible
        if f[0] != 'name':
            continue
        _, role, s = f
        if '\0' in s:
            return None
        if role == 'eltype':
            root['t'] = s
        elif role == 'elname':
            root['n'] = s
        elif role == 'attr':
            vals = [a for a in root['a'] if a[0].startswith('v') and a[1] != VT_ELEMENT]
            if vals:
                vals[-1][0] = s
            else:
                root['a'].append([s, 'int', 's', 5])
        elif role in ('child_type', 'child_name'):
            if len(els) < 2:
                return None
            for el in els[1:]:
                el['t' if role == 'child_type' else 'n'] = s
        else:
            want = 's' if role == 'link_s' else 'a'
            links = [a for a in root['a'] if a[1] == VT_ELEMENT and a[2] == want]
            if not links:
                return None
            links[0][0] = s
    for el in els:
        keys = [a[0].casefold() for a in el['a']]
        if 'name' in keys or len(keys) != len(set(keys)):
            return None          # `name` is the element's name slot; an element cannot hold two keys equal under casefold
    doc = {'els': els}
    uu = [f for f in feats if f[0] == 'uuids']
    if uu:
        if len(uu) > 1 or len(els) < 2:
            return None
        refs = [r for el in els for a in el['a'] if a[1] == VT_ELEMENT for r in ([a[3]] if a[2] == 's' else a[3])]
        if uu[0][1] == 'stub_twin' and 'S0' not in refs:
            return None
        if uu[0][1] == 'nil_elem' and 'N' not in refs:
            return None
        doc['uu'] = uu[0][1]
    return doc


def reductions(feats):
    """One-step smaller feature lists, deterministic order (may be invalid: compose() decides)."""
    for i in range(len(feats)):
        yield feats[:i] + feats[i + 1:]
    for i, f in enumerate(feats):
        def rep(nf):
            return feats[:i] + [nf] + feats[i + 1:]
        if f[0] == 'val' and f[2] == 'a':
            for k in range(len(f[3])):
                yield rep(['val', f[1], 'a', f[3][:k] + f[3][k + 1:]])
        elif f[0] == 'name':
            for k in range(len(f[2])):
                yield rep(['name', f[1], f[2][:k] + f[2][k + 1:]])
        elif f[0] == 'graph':
            g = f[1]
            for e, attrs in enumerate(g):
                for k, (shape, tg) in enumerate(attrs):
                    ng = [list(a) for a in g]
                    ng[e] = attrs[:k] + attrs[k + 1:]
                    yield rep(['graph', canon_graph(ng)])
                    if shape == 'a':
                        for x in range(len(tg)):
                            ng = [list(a) for a in g]
                            ng[e] = attrs[:k] + [['a', tg[:x] + tg[x + 1:]]] + attrs[k + 1:]
                            yield rep(['graph', canon_graph(ng)])


# ---------------------------------------------------------------------------------------------
# one document under one configuration

class RunawayCode(Exception):
    """The code under check used more than CPU_CAP seconds of CPU for one tiny document."""


CPU_CAP = 10.0           # seconds of *CPU* time (ITIMER_VIRTUAL): insensitive to machine load
MEM_CAP = 3 << 30        # address-space cap while srctools code runs: a misread length must raise, not eat the host


def _on_vtalrm(signum, frame):
    raise RunawayCode(f'more than {CPU_CAP:.0f} s of CPU time')


class guard:
    """Bounds CPU time and memory of one call into srctools (a mis-decoded array length otherwise allocates
    gigabytes or loops for minutes, and an OOM-killed pool worker would hang the run)."""

    def __enter__(self):
        self.old_handler = signal.signal(signal.SIGVTALRM, _on_vtalrm)
        self.old_limit = resource.getrlimit(resource.RLIMIT_AS)
        hard = self.old_limit[1]
        cap = MEM_CAP if hard == resource.RLIM_INFINITY else min(MEM_CAP, hard)
        resource.setrlimit(resource.RLIMIT_AS, (cap, hard))
        signal.setitimer(signal.ITIMER_VIRTUAL, CPU_CAP)
        return self

    def __exit__(self, *exc):
        signal.setitimer(signal.ITIMER_VIRTUAL, 0)
        resource.setrlimit(resource.RLIMIT_AS, self.old_limit)
        signal.signal(signal.SIGVTALRM, self.old_handler)
        return False


def cfg_key(cfg: dict) -> str:
    if cfg['enc'] == 'bin':
        return f"bin{cfg['ver']}/{cfg['uni']}"
    return f"kv2{'/flat' if cfg['flat'] else ''}{'/cull' if cfg['cull'] else ''}/{cfg['uni']}"


def run_doc(doc: dict, cfg: dict):
    """-> (status, [(kind, what, detail)]).  Executes build -> export -> parse -> compare on the real code."""
    if cfg['enc'] == 'bin' and any(vt == 'time' and any(v in TEXT_ONLY_TIMES for v in ([payload] if shape == 's' else payload))
                                   for el in doc['els'] for _, vt, shape, payload in el['a']):
        return 'not_applicable', []      # binary stores whole ticks in 32 bits: these values are defined for the text form only
    if cfg['enc'] == 'kv2' and doc.get('uu') == 'stub_twin':
        return 'not_applicable', []      # in text a reference is a UUID: one that names an element of the file IS that element
    root = build(doc)
    why_not = inexpressible(doc, cfg)
    buf = io.BytesIO()
    try:
        with guard():
            if cfg['enc'] == 'bin':
                root.export_binary(buf, version=cfg['ver'], unicode=cfg['uni'])
            else:
                root.export_kv2(buf, flat=cfg['flat'], cull_uuid=cfg['cull'], unicode=cfg['uni'])
    except Exception as exc:  # noqa: BLE001
        if why_not and not isinstance(exc, (RunawayCode, MemoryError)):
            return 'rejected', []
        return 'export_raised', [('export_raised', type(exc).__name__,
                                  f'export raised {type(exc).__name__}: {exc} although {cfg_key(cfg)} can express the document')]
    data = buf.getvalue()
    if why_not:
        return 'inexpressible_exported', [('inexpressible_exported', why_not,
                                           f'export under {cfg_key(cfg)} did not raise ({why_not}); wrote {data[-120:]!r}')]
    fails = []
    status = 'ok'
    if cfg['enc'] == 'bin':
        try:
            wire = decode_binary(data, cfg['ver'], cfg['uni'])
        except WireError as exc:
            # a stream that cannot be decoded goes wrong at an arbitrary later point: one coarse class
            fails.append(('wire_mismatch', 'undecodable',
                          f'independent decode of the written stream failed ({exc.what}): {exc.detail}\n stream tail: {data[-160:]!r}'))
        else:
            try:
                compare_wire(doc, wire, cfg)
            except WireError as exc:
                fails.append(('wire_mismatch', exc.what, f'independently decoded stream differs from the source: {exc.detail}'))
    else:
        head = b'<!-- dmx encoding %skeyvalues2 1 format dmx 1 -->' % (b'unicode_' if cfg['uni'] == 'format' else b'')
        if not data.startswith(head):
            fails.append(('wire_mismatch', 'header', f'KV2 header {data[:70]!r}, expected {head!r}'))
        elif cfg['uni'] == 'ascii' and not data.isascii():
            fails.append(('wire_mismatch', 'string_encoding', 'non-ASCII bytes written under unicode=ascii'))
    try:
        with guard():
            parsed, fmt_name, fmt_ver = Element.parse(io.BytesIO(data), unicode=cfg['uni'] == 'silent')
    except Exception as exc:  # noqa: BLE001
        tail = data[-160:] if cfg['enc'] == 'bin' else data[-400:]
        # the exception type depends on where a misaligned read happens to stop: one coarse class
        fails.append(('parse_raised', 'error',
                      f'Element.parse of the exported file raised {type(exc).__name__}: {str(exc)[:300]}\n exported tail: {tail!r}'))
        return 'parse_raised', fails
    if (fmt_name, fmt_ver) != ('dmx', 1):
        fails.append(('header_mismatch', 'format', f'format name/version read back as {(fmt_name, fmt_ver)!r}'))
    try:
        compare_graph(doc, parsed, cfg)
    except Mismatch as exc:
        tail = b'' if cfg['enc'] == 'bin' else data[-400:]
        fails.append(('graph_mismatch', exc.what, f'{exc.detail}' + (f'\n exported tail: {tail!r}' if tail else '')))
        status = 'mismatch'
    except RunawayCode:
        raise
    except Exception as exc:  # noqa: BLE001 - walking the parsed graph through its public mapping API raised
        fails.append(('graph_mismatch', 'access_raised', f'reading the parsed graph raised {type(exc).__name__}: {str(exc)[:200]}'))
        status = 'mismatch'
    return status, fails


_CACHE: dict[str, tuple] = {}


def eval_feats(feats, cfg):
    key = core.jdump([feats, cfg])
    hit = _CACHE.get(key)
    if hit is None:
        doc = compose(feats)
        hit = ('invalid', []) if doc is None else run_doc(doc, cfg)
        if len(_CACHE) > 300000:
            _CACHE.clear()
        _CACHE[key] = hit
    return hit


def minimize(feats, cfg, kind: str, what: str):
    cur = feats
    while True:
        for cand in reductions(cur):
            if any(k == kind and w == what for k, w, _ in eval_feats(cand, cfg)[1]):
                cur = cand
                break
        else:
            return cur


def check_dmx(acc: core.Acc, feats, cfg) -> None:
    status, fails = eval_feats(feats, cfg)
    assert status != 'invalid', feats
    acc.evaluations += 1
    if status in ('ok', 'mismatch'):
        acc.nontrivial += 1
    acc.outcome((cfg_key(cfg), status, tuple(sorted({k + ':' + w for k, w, _ in fails}))))
    acc.count('dmx_' + status)
    for kind, what, detail in fails:
        small = minimize(feats, cfg, kind, what)
        cause = cause_of(small)
        case = {'fam': 'dmx', 'feats': feats, 'cfg': cfg}
        acc.fail(kind, case,
                 f'{cfg_key(cfg)} features={core.jdump(feats)}\n {detail}\n minimal failing features: {core.jdump(small)}'
                 f'\n document: {core.jdump(compose(feats))[:600]}',
                 enc=cfg['enc'], what=what, cause=cause)


# ---------------------------------------------------------------------------------------------
# the family of small element graphs, generated directly in canonical (discovery-order) form

def _gen_targets(n: int, d: int, st: int, nmax: int, budget: int):
    """All target tuples of length n; yields (targets, discovered, stubs_seen)."""
    if n == 0:
        yield [], d, st
        return
    if budget <= 0:
        return
    opts = [(t, d, st) for t in range(d)]
    if d < nmax:
        opts.append((d, d + 1, st))
    opts.append(('N', d, st))
    opts += [('S%d' % k, d, st) for k in range(st)]
    if st < 2:
        opts.append(('S%d' % st, d, st + 1))
    for t, d2, st2 in opts:
        for rest, d3, st3 in _gen_targets(n - 1, d2, st2, nmax, budget - 1):
            yield [t] + rest, d3, st3


def _gen_attrs(k: int, d: int, st: int, nmax: int, budget: int):
    """All attribute lists with exactly k element-valued attributes."""
    if k == 0:
        yield [], d, st, budget
        return
    for shape, n in (('s', 1), ('a', 0), ('a', 1), ('a', 2)):
        if n > budget:
            continue
        for tg, d2, st2 in _gen_targets(n, d, st, nmax, budget):
            attr = ['s', tg[0]] if shape == 's' else ['a', tg]
            for rest, d3, st3, b3 in _gen_attrs(k - 1, d2, st2, nmax, budget - n):
                yield [attr] + rest, d3, st3, b3


def _expand(els, d, st, budget, nmax):
    for k in (0, 1, 2):
        for attrs, d2, st2, b2 in _gen_attrs(k, d, st, nmax, budget):
            yield els + [attrs], d2, st2, b2


def gen_from(state, nmax: int):
    """Every complete graph below a generator state (element prefix, discovered, stubs seen, budget left)."""
    els, d, _st, _b = state
    if len(els) == d:
        yield els
        return
    for nxt in _expand(*state, nmax):
        yield from gen_from(nxt, nmax)


def gen_graphs(nmax: int, slots: int):
    """Every graph on <= nmax elements, <= 2 element attributes each, <= `slots` references in total,
    every element reachable, elements/stubs numbered in discovery order (each graph exactly once)."""
    return gen_from(([], 1, 0, slots), nmax)


def graph_prefixes(nmax: int, slots: int, depth: int = 2) -> list:
    """Generator states after `depth` elements (or complete graphs): a partition of the family for sharding."""
    states = [([], 1, 0, slots)]
    for _ in range(depth):
        nxt = []
        for stt in states:
            if len(stt[0]) == stt[1]:
                nxt.append(stt)
            else:
                nxt.extend(_expand(*stt, nmax))
        states = nxt
    return states


# ---------------------------------------------------------------------------------------------
# KV1 bridge.  tree = [name, value] (leaf) | [name, [children]] (block); the root has name None.

KV_ROUTES = {
    'direct': None,
    'bin5': {'enc': 'bin', 'ver': 5, 'uni': 'format'},
    'bin2': {'enc': 'bin', 'ver': 2, 'uni': 'format'},
    'kv2': {'enc': 'kv2', 'flat': False, 'cull': False, 'uni': 'format'},
    'kv2flat': {'enc': 'kv2', 'flat': True, 'cull': True, 'uni': 'format'},
}


def build_kv(node) -> Keyvalues:
    name, val = node
    if isinstance(val, list):
        kids = [build_kv(c) for c in val]
        return Keyvalues.root(*kids) if name is None else Keyvalues(name, kids)
    return Keyvalues(name, val)


def dump_kv(kv):
    if not isinstance(kv, Keyvalues):
        return ['<not a Keyvalues>', repr(kv)]
    if isinstance(kv._value, list):
        return [kv._real_name, [dump_kv(c) for c in kv._value]]
    return [kv._real_name, kv._value]


def diff_kv(want, got, path='') -> tuple:
    """First difference between two dumped trees -> (what, detail) or None."""
    if isinstance(want[1], list) != isinstance(got[1], list):
        return 'leaf_vs_block', f'{path}: {got!r}, expected {want!r}'
    if want[0] != got[0]:
        what = 'name_case' if (want[0] is not None and got[0] is not None
                               and want[0].casefold() == got[0].casefold()) else 'name'
        return what, f'{path}: name {got[0]!r}, expected {want[0]!r}'
    if not isinstance(want[1], list):
        if want[1] != got[1]:
            return 'value', f'{path}/{want[0]}: value {got[1]!r}, expected {want[1]!r}'
        return None
    if len(want[1]) != len(got[1]):
        return 'children', f'{path}/{want[0]}: children {[c[0] for c in got[1]]!r}, expected {[c[0] for c in want[1]]!r}'
    for n, (a, b) in enumerate(zip(want[1], got[1])):
        d = diff_kv(a, b, f'{path}/{want[0]}[{n}]')
        if d:
            return d
    return None


def kv_class(node) -> str:
    name, val = node
    nm = '' if name is None else ('' if strclass(name) == 'plain' else '<' + strclass(name) + '>')
    if isinstance(val, list):
        return ('R' if name is None else 'B' + nm) + '(' + ','.join(kv_class(c) for c in val) + ')'
    return 'L' + nm + ('' if strclass(val) in ('plain', 'empty') else '=' + strclass(val))


def kv_valid(node, top=True) -> bool:
    name, val = node
    if name is None:
        if not top or not isinstance(val, list):
            return False
    elif '\n' in name or '\r' in name or '\0' in name:
        return False            # KV1 names never contain line breaks (the KV1 parser rejects them)
    if isinstance(val, list):
        return all(kv_valid(c, False) for c in val)
    return '\0' not in val


def kv_reductions(node):
    name, val = node
    if isinstance(val, list):
        for i in range(len(val)):
            yield [name, val[:i] + val[i + 1:]]
        for i, c in enumerate(val):
            if isinstance(c[1], list):          # hoist the children of a block into its place
                for g in c[1]:
                    yield [name, val[:i] + [g] + val[i + 1:]]
        for i, c in enumerate(val):
            for r in kv_reductions(c):
                yield [name, val[:i] + [r] + val[i + 1:]]
    else:
        for k in range(len(val)):
            yield [name, val[:k] + val[k + 1:]]
    if name:
        for k in range(len(name)):
            if len(name) > 1:
                yield [name[:k] + name[k + 1:], val]


def _renumber(root: Element) -> None:
    """from_kv1 draws random UUIDs; replace them by fixed ones so the exported bytes are deterministic."""
    seen: dict[int, Element] = {}
    work = [root]
    while work:
        e = work.pop(0)
        if id(e) in seen or isinstance(e, StubElement):
            continue
        e.uuid = EU(len(seen))
        seen[id(e)] = e
        for a in e.values():
            if a.type is ValueType.ELEMENT:
                work.extend(a.iter_elem())


def run_kv(tree, route: str):
    """-> (status, [(kind, what, detail)])"""
    cfg = KV_ROUTES[route]
    stage = 'from_kv1'
    tail = b''
    try:
        with guard():
            back, tail, stage = _kv_route(tree, cfg)
    except _Staged as wrapped:
        exc, stage, tail = wrapped.exc, wrapped.stage, wrapped.tail
        return 'raised', [('kv1_raised', stage, f'{stage} raised {type(exc).__name__}: {str(exc)[:300]}'
                                                + (f'\n exported tail: {tail!r}' if tail else ''))]
    d = diff_kv(tree, back)
    if d:
        return 'mismatch', [('kv1_mismatch', d[0], f'{d[1]}\n returned tree: {core.jdump(back)[:500]}'
                                                   + (f'\n exported tail: {tail!r}' if tail else ''))]
    return 'ok', []


class _Staged(Exception):
    def __init__(self, exc, stage, tail):
        super().__init__(str(exc))
        self.exc, self.stage, self.tail = exc, stage, tail


def _kv_route(tree, cfg):
    stage = 'from_kv1'
    tail = b''
    try:
        elem = Element.from_kv1(build_kv(tree))
        if cfg is not None:
            _renumber(elem)
            stage = 'export'
            buf = io.BytesIO()
            if cfg['enc'] == 'bin':
                elem.export_binary(buf, version=cfg['ver'], unicode=cfg['uni'])
            else:
                elem.export_kv2(buf, flat=cfg['flat'], cull_uuid=cfg['cull'], unicode=cfg['uni'])
            tail = buf.getvalue()[-300:]
            stage = 'parse'
            elem = Element.parse(io.BytesIO(buf.getvalue()))[0]
        stage = 'to_kv1'
        back = dump_kv(elem.to_kv1())
    except Exception as exc:  # noqa: BLE001
        raise _Staged(exc, stage, tail) from None
    return back, tail, stage


_KVCACHE: dict[str, tuple] = {}


def eval_kv(tree, route):
    key = core.jdump([tree, route])
    hit = _KVCACHE.get(key)
    if hit is None:
        hit = run_kv(tree, route) if kv_valid(tree) else ('invalid', [])
        if len(_KVCACHE) > 300000:
            _KVCACHE.clear()
        _KVCACHE[key] = hit
    return hit


def check_kv(acc: core.Acc, tree, route: str) -> None:
    status, fails = eval_kv(tree, route)
    assert status != 'invalid', tree
    acc.evaluations += 1
    if status != 'raised':
        acc.nontrivial += 1
    acc.outcome(('kv1', route, status, tuple(k + ':' + w for k, w, _ in fails)))
    acc.count('kv1_' + status)
    for kind, what, detail in fails:
        cur = tree
        while True:
            for cand in kv_reductions(cur):
                if any(k == kind and w == what for k, w, _ in eval_kv(cand, route)[1]):
                    cur = cand
                    break
            else:
                break
        acc.fail(kind, {'fam': 'kv1', 'tree': tree, 'route': route},
                 f'KV1 bridge route={route} tree={core.jdump(tree)}\n {detail}\n minimal failing tree: {core.jdump(cur)}',
                 route=('direct' if route == 'direct' else KV_ROUTES[route]['enc']), what=what, cause='kv1:' + kv_class(cur))


# ---------------------------------------------------------------------------------------------
# enumeration

UNI = ['ascii', 'format', 'silent']
ALLCFG = ([{'enc': 'bin', 'ver': v, 'uni': u} for v in (1, 2, 3, 4, 5) for u in UNI]
          + [{'enc': 'kv2', 'flat': f, 'cull': c, 'uni': u} for f in (False, True) for c in (False, True) for u in UNI])
GRAPHCFG = [c for c in ALLCFG if c['uni'] == 'ascii']
GRAPHCFG_TOP = [c for c in GRAPHCFG if c.get('ver') in (1, 5) or (c['enc'] == 'kv2' and c['flat'] == c['cull'])]

NAMES = ['a', 'A', 'id', 'ID', 'we"ird', 'back\\slash', 'bs\\n', 'sp ace', '\u00e9', '', "it's", 'l1\nl2', 'name', 'Name', 'L' * 256, 'M' * 300,
         'Stra\u00dfe', '\u039f\u0394\u039f\u03a3', '\ufb01le',     # lower() and casefold() disagree on these
         'a-->b', '-->',        # the end-of-comment marker of the file header, inside ordinary strings near the start of the file
         'DMEStubElement', 'DMENullElement']      # the marker type names of stubs / NULL, here as free-form strings of ordinary elements
# (not included: an element type spelt like a value-type keyword - "element", "int_array", ... - which the KeyValues2 grammar itself
# cannot tell from an attribute type, so the format cannot carry it)
NAMEKEYS = ['Name', 'NAME']
REP_GRAPHS = [
    [[['s', 1]], [['s', 2]], []],                       # chain
    [[['a', [1, 2]]], [], []],                          # array of two children
    [[['s', 1], ['s', 2]], [['s', 2]], []],             # DAG sharing
    [[['s', 0]]],                                       # self reference
    [[['s', 1]], [['s', 0]]],                           # mutual cycle
    [[['a', [1, 1]]], []],                              # same child twice in one array
    [[['s', 'N']]],                                     # NULL scalar
    [[['a', ['N', 1]], ['s', 1]], []],                  # NULL inside an array + scalar link
    [[['s', 'S0']]],                                    # stub scalar
    [[['a', ['S0', 'S0']]]],                            # same stub twice
    [[['s', 'S0'], ['a', ['S1', 'S0']]]],               # two stubs
    [[['a', []]]],                                      # empty element array
    [[['a', [1, 'N', 'S0']], ['s', 0]], [['s', 1]]],    # mixed
]
# graphs used with the UUID features (a stub naming the UUID of an element of the same file; a real element with the all-zero UUID)
UUID_GRAPHS = [
    [[['s', 1], ['s', 'S0']], []],
    [[['a', ['S0', 1, 'S0']]], [['s', 'S0']]],
    [[['s', 'S0'], ['s', 1]], [['s', 'S1']]],
    [[['s', 1], ['s', 'N']], []],
    [[['a', ['N', 1, 'N']]], [['s', 'N']]],
    [[['s', 'N'], ['a', [1, 2]]], [['s', 2]], [['s', 'N']]],
]


def val_singles():
    for vt in TYPES:
        vals = [v for _, v in VALUES[vt]]
        for v in vals:
            yield ['val', vt, 's', v]
        yield ['val', vt, 'a', []]
        for v in vals:
            yield ['val', vt, 'a', [v]]
        for v, w in itertools.product(vals, repeat=2):
            yield ['val', vt, 'a', [v, w]]


def val_menu(depth: int):
    """Reduced menu used inside pairs: the first `depth` boundary values of every type."""
    for vt in TYPES:
        vals = [v for _, v in VALUES[vt]][:depth]
        for v in vals:
            yield ['val', vt, 's', v]
        yield ['val', vt, 'a', []]
        if depth <= 2:
            yield ['val', vt, 'a', [vals[0]]]
            yield ['val', vt, 'a', [vals[-1], vals[0]]]
        else:
            for v in vals:
                yield ['val', vt, 'a', [v]]
            for v, w in itertools.product(vals, repeat=2):
                yield ['val', vt, 'a', [v, w]]


def name_feats():
    for role in ROLES:
        for s in NAMES:
            yield ['name', role, s]


def dmx_feature_lists(depth: int):
    """Every document of the feature families, each exactly once (invalid combinations are dropped)."""
    nn = [['noname', how, which] for how in ('del', 'pop', 'clear') for which in ('root', 'all')]
    singles = list(val_singles()) + list(name_feats()) + [['namekey', k] for k in NAMEKEYS] \
        + [['graph', g] for g in REP_GRAPHS] + nn
    yield []
    for f in singles:
        yield [f]
    vm = list(val_menu(depth))
    nm = list(name_feats())
    nk = [['namekey', k] for k in NAMEKEYS]
    gr = [['graph', g] for g in REP_GRAPHS]
    for a, b in itertools.product(vm, repeat=2):        # attribute order matters: ordered pairs
        yield [a, b]
    for a, b in itertools.combinations(nm, 2):
        if a[1] != b[1]:
            yield [a, b]
    for a in nm + nk + gr + nn:
        for b in vm:
            yield [a, b]
    for a in nn:
        for b in gr + nm:
            yield [a, b]
    for a in nk + gr:
        for b in nm:
            yield [a, b]
    for a in gr:
        for b in nk:
            yield [a, b]
    for g in UUID_GRAPHS:
        for mode in ('stub_twin', 'nil_elem'):
            yield [['graph', g], ['uuids', mode]]


KV_NAMES = ['a', 'A', 'b']
KV_RESERVED = ['a', 'name', 'Name', 'subkeys', 'id', 'value']
KV_SIGMA = ['"', '\\', 'n', 'a', ' ', '\u00e9', "'", '{', '/', 'A', '\n']


def kv_forests(n_nodes: int, names, values=('', 'x')):
    """Every labelled ordered forest with exactly n_nodes nodes: a childless node is a leaf (each value) or an
    empty block, a node with children is a block."""
    def label(tree):
        kid_opts = [list(label(k)) for k in tree]
        for nm in names:
            if not tree:
                for v in values:
                    yield [nm, v]
                yield [nm, []]
            else:
                for kids in itertools.product(*kid_opts):
                    yield [nm, list(kids)]

    for forest in trees(n_nodes):
        opts = [list(label(t)) for t in forest]
        for combo in itertools.product(*opts):
            yield list(combo)


def kv_strings(max_len: int, for_value: bool):
    sig = KV_SIGMA if for_value else KV_SIGMA[:-1]
    for n in range(0, max_len + 1):
        for tup in itertools.product(sig, repeat=n):
            yield ''.join(tup)


def kv_trees(quick: bool):
    """(tree, routes) for the KV1 bridge."""
    n_shape = 4 if quick else 5
    full = ['direct', 'bin5', 'kv2', 'kv2flat', 'bin2']
    for n in range(0, n_shape + 1):
        for forest in kv_forests(n, KV_NAMES):
            yield [None, forest], (full if (n < n_shape or not quick) else full[:3])
            if n < n_shape:
                yield ['Top', forest], full[:3]
    for v in ('', 'x'):
        yield ['leaf', v], full
    for n in range(1, 4 if quick else 5):
        for forest in kv_forests(n, KV_RESERVED, ('x',)):
            yield [None, forest], full[:4]
    ls, lp = (2, 1) if quick else (3, 2)

    def ctx(target):
        return [None, [['ctx', [['pre', '1'], target, ['post', '2']]]]]
    for s in kv_strings(ls, False):
        yield ctx([s, 'v']), full[:4]                               # leaf name, inlined as an attribute
        yield ctx([s, [['in', 'v']]]), full[:4]                     # block name (siblings go to `subkeys`)
        yield [None, [['ctx', [[s, 'v'], ['blk', []]]]]], full[:4]  # leaf name inside `subkeys`
    for s in kv_strings(ls, True):
        yield ctx(['k', s]), full[:4]                               # leaf value
    for a in kv_strings(lp, False):
        for b in kv_strings(lp, True):
            if a and b:
                yield ctx([a, b]), full[:4]


def shard(spec) -> core.Acc:
    acc = core.Acc()
    kind = spec[0]
    if kind == 'dmx':
        _, cfgset, lists = spec
        for feats in lists:
            # quick tier: for a pair of features without any non-ASCII character unicode='silent' writes the very
            # bytes unicode='ascii' writes, so it is skipped there (single features and the thorough tier run all 27)
            skip_silent = (cfgset == 'quick' and len(feats) > 1
                           and all(x.isascii() for x in doc_strings(compose(feats))))
            for cfg in ALLCFG:
                if skip_silent and cfg['uni'] == 'silent':
                    acc.count('pairs_silent_skipped')
                    continue
                check_dmx(acc, feats, cfg)
        if lists:
            acc.sample({'fam': 'dmx', 'feats': lists[-1], 'cfg': ALLCFG[0]}, 1)
    elif kind == 'graph':
        _, nmax, states = spec
        n = 0
        for g in (g for stt in states for g in gen_from(tuple(stt), nmax)):
            top = sum(1 for _ in graph_targets(g)) >= TOP_LAYER[0]
            for cfg in (GRAPHCFG_TOP if top else GRAPHCFG):
                check_dmx(acc, [['graph', g]], cfg)
            n += 1
            acc.count('graphs_top_layer' if top else 'graphs_all_configs')
            for t in graph_tags(g):
                acc.count('graphs_with_' + t)
        if n:
            acc.sample({'fam': 'dmx', 'feats': [['graph', g]], 'cfg': GRAPHCFG[0]}, 1)
    elif kind == 'kv1':
        for tree, routes in spec[1]:
            for r in routes:
                check_kv(acc, tree, r)
        acc.sample({'fam': 'kv1', 'tree': spec[1][-1][0], 'route': spec[1][-1][1][-1]}, 1)
    _CACHE.clear()
    _KVCACHE.clear()
    return acc


TOP_LAYER = [99]     # graphs with at least this many references use the reduced configuration set (quick tier only)


def run(ctx: core.Ctx) -> None:
    q = ctx.quick
    depth = 2 if q else 3
    slots = 4 if q else 5
    TOP_LAYER[0] = 4 if q else 99
    shards = []
    seen = set()
    lists = []
    for feats in dmx_feature_lists(depth):
        if compose(feats) is None:
            continue
        key = core.jdump(compose(feats))
        if key in seen:          # two feature lists that compose to the same document count once
            continue
        seen.add(key)
        lists.append(feats)
    ndocs = len(lists)
    for chunk in core.chunked(lists, 120 if q else 400):
        shards.append(('dmx', 'quick' if q else 'all', chunk))
    prefixes = graph_prefixes(3, slots)
    nshards = 64 if q else 256
    for i in range(nshards):                      # strided: every shard gets a mix of large and small sub-families
        part = prefixes[i::nshards]
        if part:
            shards.append(('graph', 3, part))
    kvt = [(t, r) for t, r in kv_trees(q) if kv_valid(t)]
    kseen = set()
    kv = []
    for t, r in kvt:
        key = core.jdump(t)
        if key not in kseen:
            kseen.add(key)
            kv.append((t, r))
    for chunk in core.chunked(kv, 400 if q else 2000):
        shards.append(('kv1', chunk))
    # biggest shards first; the seed only rotates the order within the groups
    k = ctx.seed % len(shards)
    shards = shards[k:] + shards[:k]
    shards.sort(key=lambda s: 0 if s[0] == 'graph' else 1)
    core.par_map(shard, shards, ctx.acc)
    ctx.acc.count('feature_documents', ndocs)
    ctx.acc.count('kv1_trees', len(kv))
    ctx.rule = (
        f'DMX: (1) every element graph on root + <= 2 further elements, <= 2 element-valued attributes per element '
        f'(scalar or array of length 0..2, targets: any element, NULL, two stubs), at most {slots} references in total, '
        f'every element reachable, generated once each in discovery order, x binary v1..5 and KV2 x flat x cull_uuid'
        + (' (graphs with exactly 4 references: binary v1/v5, KV2 nested and flat+cull only)' if q else '') +
        f'; (2) documents composed of <= 2 features on a one-element base: a value attribute (13 non-element types, '
        f'scalar / array of length 0,1,2 over all boundary values as single features, the first {depth} boundary values per '
        f'type inside pairs, ordered), a name from {len(NAMES)} strings in one of 7 roles (element type/name, attribute name, '
        f'child type/name, name of a scalar/array link), {len(REP_GRAPHS)} representative graphs, the `name` attribute assigned '
        f'through a mixed-case key; x all 27 configurations (binary v1..5 x unicode ascii/format/silent, KV2 x flat x '
        f'cull_uuid x unicode' + ('; pairs without non-ASCII text skip unicode=silent, whose output is byte-identical to ascii' if q else '') + '). Expressibility rule: TIME before binary v3 and non-ASCII text under unicode=ascii must make '
        f'export raise; everything else must round-trip. Representability (excluded by the generator): strings containing NUL, '
        f'an attribute literally keyed `name` (that slot is the element name), two keys equal under casefold in one element, '
        f'element types equal to a value-type keyword, non-finite floats, floats outside float32, times off the 1/10000 s grid. '
        f'KV1 bridge: every ordered forest of <= {4 if q else 5} nodes (leaf with value ""/"x", empty block or block) over names a/A/b under a root '
        f'and under a named block, forests of <= {3 if q else 4} nodes over reserved names, every string of length <= {2 if q else 3} over '
        f'{len(KV_SIGMA)} characters as leaf name / block name / leaf value in a context tree and (name, value) pairs of length <= {1 if q else 2}; '
        f'routes from_kv1->to_kv1 and from_kv1->export (binary v5, v2, KV2 nested, KV2 flat)->parse->to_kv1. '
        f'Non-trivial = the exported file was parsed back and compared with the source specification (DMX) / a tree came back (KV1). '
        f'Each (document, configuration) pair is evaluated once; failing cases are additionally shrunk to a minimal failing document.')
    ctx.assumptions.append('UUIDs are supplied by the harness (elements and stubs); from_kv1 elements are renumbered before export')
    ctx.assumptions.append('binary wire layout used by the independent decoder: Valve dmserializers (type codes 1..14 scalar, '
                           '15..28 array, string table int16/int16 in v2-3, int32/int16 in v4, int32/int32 in v5, element index '
                           '-1 = NULL, -2 = external element followed by its id as text)')
    ctx.coverage_extra['configurations'] = len(ALLCFG)
    ctx.coverage_extra['graph_family_slots'] = slots


def replay(case: dict) -> list:
    acc = core.Acc()
    if case.get('fam') == 'kv1':
        check_kv(acc, case['tree'], case['route'])
    else:
        check_dmx(acc, case['feats'], case['cfg'])
    return acc.all_failures()
