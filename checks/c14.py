"""C14 - DMX export/parse preserves the element graph (binary v1..5 and KeyValues2), KV1 bridge.

Bounded exhaustive exploration on the real srctools.dmx code.  A document is composed from <= 2
*features* (a value attribute, a name in a role, a small element graph, a mixed-case `name` key) on
top of a one-element base document, or is one member of the exhaustively enumerated family of small
element graphs.  Every document is exported under every configuration, parsed back with
Element.parse and compared with the *specification* it was built from (never with library `==`):
simultaneous walk from the roots + an independent decoder for the binary stream.

A failing document is shrunk (drop a feature / an attribute / an array item / a character) while
the same oracle clause keeps failing; the failure signature names the coarse class of the *minimal*
document, so one defect yields few, stable (kind, sig) groups.
"""
from __future__ import annotations

import io
import itertools
import struct
from uuid import UUID

from srctools import dmx as _dmx
from srctools.dmx import (
    NULL, Attribute, Color, Element, Quaternion, StubElement, Time, ValueType, Vec2, Vec4,
)
from srctools.keyvalues import Keyvalues
from srctools.math import FrozenAngle, FrozenMatrix, FrozenVec, Matrix

from mcv import core
from mcv.enum import trees

PROPERTY = 'C14'
LEVEL = 'exploration'


def f32(x: float) -> float:
    return struct.unpack('<f', struct.pack('<f', x))[0]


def EU(i: int) -> UUID:
    """UUID of element i of a document."""
    return UUID(int=(0xC14E << 96) + 0x1000 + i)


def SU(k: int) -> UUID:
    """UUID of stub k of a document."""
    return UUID(int=(0xC145 << 96) + 0x2000 + k)


# ---------------------------------------------------------------------------------------------
# value tables: type -> [(tag, json value)]; floats are exactly representable in float32, times are
# multiples of 1/10000 s inside int32 (the wire types), angles lie in [0, 360).

F32MAX = 3.4028234663852886e38
VT_ELEMENT = 'element'
TYPES = ['int', 'float', 'bool', 'string', 'binary', 'time', 'color', 'vector2', 'vector3', 'vector4',
         'qangle', 'quaternion', 'vmatrix']
ALL_TYPES = [VT_ELEMENT] + TYPES     # every member of srctools.dmx.ValueType
SUFFIX = {'element': 'elem', 'int': 'int', 'float': 'float', 'bool': 'bool', 'string': 'str', 'binary': 'bin',
          'time': 'time', 'color': 'color', 'vector2': 'vec2', 'vector3': 'vec3', 'vector4': 'vec4',
          'qangle': 'ang', 'quaternion': 'quat', 'vmatrix': 'mat'}
TYPE_CODE = {'element': 1, 'int': 2, 'float': 3, 'bool': 4, 'string': 5, 'binary': 6, 'time': 7, 'color': 8,
             'vector2': 9, 'vector3': 10, 'vector4': 11, 'qangle': 12, 'quaternion': 13, 'vmatrix': 14}
CODE_TYPE = {v: k for k, v in TYPE_CODE.items()}
FIRST_ARRAY_CODE = 15            # Valve: AT_FIRST_ARRAY_TYPE = AT_ELEMENT_ARRAY = 15 (scalar code + 14)

BLOB300 = (bytes(range(256)) + bytes(range(44))).hex()

VALUES: dict[str, list] = {
    'int': [('0', 0), ('1', 1), ('neg1', -1), ('min', -2 ** 31), ('max', 2 ** 31 - 1)],
    'float': [('0', 0.0), ('1p5', 1.5), ('neg0', -0.0), ('neg', -2.25), ('f32max', F32MAX),
              ('f32minnorm', f32(1.1754943508222875e-38)), ('denorm', f32(1.401298464324817e-45)),
              ('tiny', f32(1e-7)), ('edge', f32(1.0000005)), ('big', 16777216.0), ('frac', f32(0.1))],
    'bool': [('t', True), ('f', False)],
    'string': [('ascii', 'abc'), ('nonascii', 'é'), ('empty', ''), ('quote', 'say "hi"'), ('bslash', 'a\\b'),
               ('nl', 'l1\nl2'), ('crlf', 'a\r\nb'), ('tab', '\tx'), ('astral', '\U0001F600x'), ('squote', "it's"),
               ('brace', '{[x]}'), ('comment', '//c'), ('trailbs', 'end\\')],
    'binary': [('one', '00'), ('big300', BLOB300), ('empty', ''), ('ffq', 'ff0022')],
    'time': [('1p5', 15000 / 10000.0), ('max', (2 ** 31 - 1) / 10000.0), ('0', 0.0), ('neg', -22500 / 10000.0),
             ('tick', 1 / 10000.0), ('min', -2 ** 31 / 10000.0)],
    'color': [('c123', [1, 2, 3, 255]), ('zero', [0, 0, 0, 0]), ('full', [255, 255, 255, 255]), ('mix', [255, 0, 128, 0])],
    'vector2': [('simple', [1.5, -2.25]), ('big', [16777216.0, -F32MAX]), ('zero', [0.0, 0.0])],
    'vector3': [('simple', [1.0, 2.0, 3.0]), ('mixed', [-0.5, 1024.25, 1000000.0]), ('zero', [0.0, 0.0, 0.0])],
    'vector4': [('simple', [1.0, 2.0, 3.0, 4.0]), ('frac', [0.25, -0.5, 0.75, -1.0]), ('zero', [0.0, 0.0, 0.0, 0.0])],
    'qangle': [('simple', [10.0, 20.0, 30.0]), ('hi', [359.5, 0.0, 0.0]), ('zero', [0.0, 0.0, 0.0]),
               ('quarter', [90.25, 180.0, 270.5])],
    'quaternion': [('ident', [0.0, 0.0, 0.0, 1.0]), ('half', [0.5, 0.5, 0.5, 0.5]),
                   ('rot', [0.0, f32(0.70710678), 0.0, f32(0.70710678)])],
    'vmatrix': [('ident', [1.0, 0.0, 0.0, 0.0, 1.0, 0.0, 0.0, 0.0, 1.0]),
                ('rot90', [0.0, 1.0, 0.0, -1.0, 0.0, 0.0, 0.0, 0.0, 1.0]),
                ('general', [0.5, 0.25, -1.0, 2.0, -0.125, 0.0, 3.0, 4.0, 5.0])],
}
TAG_OF = {vt: {core.jdump(v): t for t, v in lst} for vt, lst in VALUES.items()}

# harness self-check of the representability rule for TIME (value * 10000 is an exact int32)
for _t, _v in VALUES['time']:
    _n = round(_v * 10000.0)
    assert -2 ** 31 <= _n < 2 ** 31 and _n / 10000.0 == _v, _v
for _vt in ('float', 'vector2', 'vector3', 'vector4', 'qangle', 'quaternion', 'vmatrix'):
    for _t, _v in VALUES[_vt]:
        for _x in (_v if isinstance(_v, list) else [_v]):
            assert f32(_x) == _x, (_vt, _t, _x)


def mk_value(vt: str, j):
    """JSON value -> the Python value srctools expects for this type."""
    if vt in ('int', 'bool', 'string'):
        return j
    if vt == 'float':
        return float(j)
    if vt == 'binary':
        return bytes.fromhex(j)
    if vt == 'time':
        return Time(float(j))
    if vt == 'color':
        return Color(*j)
    if vt == 'vector2':
        return Vec2(*j)
    if vt == 'vector3':
        return FrozenVec(*j)
    if vt == 'vector4':
        return Vec4(*j)
    if vt == 'qangle':
        return FrozenAngle(*j)
    if vt == 'quaternion':
        return Quaternion(*j)
    if vt == 'vmatrix':
        m = Matrix()
        for r in range(3):
            for c in range(3):
                m[r, c] = j[3 * r + c]
        return m.freeze()
    raise AssertionError(vt)


def wire_bytes(vt: str, j) -> bytes:
    """Harness's own packing of a fixed-size value (Valve's binary DMX layout)."""
    if vt == 'int':
        return struct.pack('<i', j)
    if vt == 'float':
        return struct.pack('<f', j)
    if vt == 'bool':
        return b'\x01' if j else b'\x00'
    if vt == 'time':
        return struct.pack('<i', round(j * 10000.0))
    if vt == 'color':
        return bytes(j)
    if vt in ('vector2', 'vector3', 'vector4', 'qangle', 'quaternion'):
        return struct.pack('<%df' % len(j), *j)
    if vt == 'vmatrix':
        return struct.pack('<16f', j[0], j[1], j[2], 0.0, j[3], j[4], j[5], 0.0, j[6], j[7], j[8], 0.0,
                           0.0, 0.0, 0.0, 1.0)
    raise AssertionError(vt)


FIXED_SIZE = {'int': 4, 'float': 4, 'bool': 1, 'time': 4, 'color': 4, 'vector2': 8, 'vector3': 12, 'vector4': 16,
              'qangle': 12, 'quaternion': 16, 'vmatrix': 64}


# ---------------------------------------------------------------------------------------------
# documents.  doc = {'els': [{'t': type, 'n': name, 'a': [[attr_name, vtype, 's'|'a', payload], ...],
#                             'nk': optional key the name was assigned through}, ...]}
# element payloads: int = element index, 'N' = NULL, 'S0'/'S1' = stub k.

def build(doc: dict) -> Element:
    els = [Element(el['n'], el['t'], EU(i)) for i, el in enumerate(doc['els'])]
    stubs: dict[str, StubElement] = {}

    def ref(r):
        if r == 'N':
            return NULL
        if isinstance(r, str):
            if r not in stubs:
                stubs[r] = StubElement.stub(SU(int(r[1:])))
            return stubs[r]
        return els[r]

    for e, el in zip(els, doc['els']):
        if el.get('nk'):
            e[el['nk']] = el['n']
        for name, vt, shape, payload in el['a']:
            if vt == VT_ELEMENT:
                if shape == 's':
                    e[name] = ref(payload)
                else:
                    e[name] = Attribute.array(name, ValueType.ELEMENT, [ref(r) for r in payload])
            elif shape == 's':
                if vt == 'time':
                    e[name] = Attribute.time(name, mk_value(vt, payload))
                else:
                    e[name] = mk_value(vt, payload)
            else:
                e[name] = Attribute.array(name, ValueType(vt), [mk_value(vt, p) for p in payload])
    return els[0]


def doc_strings(doc: dict):
    """Every string the encodings have to write for this document."""
    for el in doc['els']:
        yield el['t']
        yield el['n']
        for name, vt, shape, payload in el['a']:
            yield name
            if vt == 'string':
                if shape == 's':
                    yield payload
                else:
                    yield from payload


def inexpressible(doc: dict, cfg: dict):
    """Harness's expressibility rule: returns a reason if cfg cannot express doc (export must raise)."""
    if cfg['enc'] == 'bin' and cfg['ver'] < 3:
        if any(a[1] == 'time' for el in doc['els'] for a in el['a']):
            return 'time_before_v3'
    if cfg['uni'] == 'ascii' and not all(s.isascii() for s in doc_strings(doc)):
        return 'nonascii_under_ascii'
    return None


class Mismatch(Exception):
    def __init__(self, what: str, detail: str):
        super().__init__(detail)
        self.what = what
        self.detail = detail


TEXT_TOL = 5e-7


def _num_eq(a: float, b, text: bool, angle: bool = False) -> bool:
    if type(b) is not float:
        return False
    if not text:
        return struct.pack('<d', a) == struct.pack('<d', b)
    d = abs(a - b)
    if angle:
        d = min(d, abs(d - 360.0))
    return d <= TEXT_TOL + 1e-12 * max(1.0, abs(a))


def value_eq(vt: str, j, got, text: bool) -> bool:
    """spec JSON value vs the parsed Python value (exact in binary, 5e-7 in text)."""
    if vt == 'int':
        return type(got) is int and got == j
    if vt == 'float':
        return _num_eq(j, got, text)
    if vt == 'bool':
        return type(got) is bool and got == j
    if vt == 'string':
        return type(got) is str and got == j
    if vt == 'binary':
        return type(got) is bytes and got.hex() == j
    if vt == 'time':
        return type(got) is Time and _num_eq(j, got.value, text)
    if vt == 'color':
        return type(got) is Color and [got.r, got.g, got.b, got.a] == j and all(type(c) is int for c in got)
    if vt in ('vector2', 'vector4', 'quaternion'):
        cls = {'vector2': Vec2, 'vector4': Vec4, 'quaternion': Quaternion}[vt]
        return type(got) is cls and len(got) == len(j) and all(_num_eq(a, b, text) for a, b in zip(j, got))
    if vt == 'vector3':
        return type(got) is FrozenVec and all(_num_eq(a, b, text) for a, b in zip(j, (got.x, got.y, got.z)))
    if vt == 'qangle':
        return type(got) is FrozenAngle and all(
            _num_eq(a, b, text, angle=True) for a, b in zip(j, (got.pitch, got.yaw, got.roll)))
    if vt == 'vmatrix':
        return type(got) is FrozenMatrix and all(
            _num_eq(j[3 * r + c], got[r, c], text) for r in range(3) for c in range(3))
    raise AssertionError(vt)


def compare_graph(doc: dict, root, cfg: dict) -> None:
    """Simultaneous walk of the specification and the parsed graph; raises Mismatch at the first difference."""
    text = cfg['enc'] == 'kv2'
    cull = bool(cfg.get('cull'))
    spec_to_obj: dict[int, object] = {}
    obj_to_spec: dict[int, int] = {}
    work = [(0, root, 'root')]
    while work:
        i, p, path = work.pop(0)
        if i in spec_to_obj:
            if spec_to_obj[i] is not p:
                raise Mismatch('sharing', f'{path}: element #{i} was shared in the source but parsed into two objects')
            continue
        if not isinstance(p, Element) or isinstance(p, StubElement):
            raise Mismatch('elem_kind', f'{path}: expected a real element #{i}, got {p!r}')
        if id(p) in obj_to_spec:
            raise Mismatch('sharing', f'{path}: source elements #{obj_to_spec[id(p)]} and #{i} parsed into one object')
        spec_to_obj[i] = p
        obj_to_spec[id(p)] = i
        el = doc['els'][i]
        if p.type != el['t'] or type(p.type) is not str:
            raise Mismatch('elem_type', f'{path}: element type {p.type!r}, expected {el["t"]!r}')
        if p.name != el['n']:
            raise Mismatch('elem_name', f'{path}: element name {p.name!r}, expected {el["n"]!r}')
        if not cull and p.uuid != EU(i):
            raise Mismatch('uuid', f'{path}: UUID {p.uuid}, expected {EU(i)}')
        items = [(k, a) for k, a in p.items() if k != 'name']
        got_names = [a.name for k, a in items]
        want_names = [a[0] for a in el['a']]
        if got_names != want_names:
            raise Mismatch('attr_names', f'{path}: attribute names {got_names!r}, expected {want_names!r}')
        for (k, a), (name, vt, shape, payload) in zip(items, el['a']):
            apath = f'{path}.{name}'
            if k != name.casefold():
                raise Mismatch('attr_names', f'{apath}: stored under key {k!r}')
            if a.type is not ValueType(vt):
                raise Mismatch('value_type', f'{apath}: type {a.type}, expected {vt}')
            if a.is_array != (shape == 'a'):
                raise Mismatch('shape', f'{apath}: is_array={a.is_array}, expected shape {shape}')
            if shape == 's':
                got = [getattr(a, 'val_' + SUFFIX[vt])]
                want = [payload]
            else:
                got = list(getattr(a, 'iter_' + SUFFIX[vt])())
                want = list(payload)
            if len(got) != len(want):
                raise Mismatch('shape', f'{apath}: array length {len(got)}, expected {len(want)}')
            for n, (g, w) in enumerate(zip(got, want)):
                if vt != VT_ELEMENT:
                    if not value_eq(vt, w, g, text):
                        raise Mismatch('value', f'{apath}[{n}]: {vt} value {g!r}, expected {w!r}'
                                                + ('' if not text else ' (tolerance 5e-7)'))
                elif w == 'N':
                    if not (isinstance(g, Element) and g.is_null):
                        raise Mismatch('null', f'{apath}[{n}]: expected NULL, got {g!r}')
                elif isinstance(w, str):
                    if not (isinstance(g, Element) and g.is_stub):
                        raise Mismatch('stub', f'{apath}[{n}]: expected a stub, got {g!r}')
                    if g.uuid != SU(int(w[1:])):
                        raise Mismatch('stub_uuid', f'{apath}[{n}]: stub UUID {g.uuid}, expected {SU(int(w[1:]))}')
                else:
                    work.append((w, g, f'{apath}[{n}]'))


# ---------------------------------------------------------------------------------------------
# independent decoder for the binary stream (written from Valve's layout, shares no code with srctools)

class WireError(Exception):
    def __init__(self, what: str, detail: str):
        super().__init__(detail)
        self.what = what
        self.detail = detail


class _Rd:
    def __init__(self, data: bytes, pos: int):
        self.d = data
        self.p = pos

    def take(self, n: int, why: str) -> bytes:
        if n < 0 or self.p + n > len(self.d):
            raise WireError('truncated', f'stream ends inside {why} (offset {self.p}, need {n} bytes of {len(self.d)})')
        b = self.d[self.p:self.p + n]
        self.p += n
        return b

    def i32(self, why: str) -> int:
        return struct.unpack('<i', self.take(4, why))[0]

    def i16(self, why: str) -> int:
        return struct.unpack('<h', self.take(2, why))[0]

    def cstr(self, why: str) -> bytes:
        end = self.d.find(b'\0', self.p)
        if end < 0:
            raise WireError('truncated', f'unterminated string in {why} at offset {self.p}')
        b = self.d[self.p:end]
        self.p = end + 1
        return b


def decode_binary(data: bytes, ver: int, uni: str) -> list:
    """-> [{'t','n','u','a':[(name, type, shape, raw)]}]; raw: element refs int/'N'/('S', uuid-text), str, or bytes."""
    head = b'<!-- dmx encoding %sbinary %d format dmx 1 -->\n\0' % (b'unicode_' if uni == 'format' else b'', ver)
    if not data.startswith(head):
        raise WireError('header', f'header {data[:70]!r}, expected {head!r}')
    enc = 'ascii' if uni == 'ascii' else 'utf8'
    rd = _Rd(data, len(head))

    def dec(b: bytes, why: str) -> str:
        try:
            return b.decode(enc)
        except UnicodeDecodeError:
            raise WireError('string_encoding', f'{why}: {b!r} is not {enc}') from None

    table = None
    if ver >= 2:
        n = rd.i32('string table size') if ver >= 4 else rd.i16('string table size')
        if n < 0:
            raise WireError('string_table', f'negative string table size {n}')
        table = [dec(rd.cstr('string table'), 'string table') for _ in range(n)]
        if len(set(table)) != len(table):
            raise WireError('string_table', f'duplicate entries in the string table {table!r}')

    def tstr(why: str) -> str:
        assert table is not None
        ix = rd.i32(why) if ver >= 5 else rd.i16(why)
        if not 0 <= ix < len(table):
            raise WireError('string_table', f'{why}: string index {ix} outside the table of {len(table)}')
        return table[ix]

    count = rd.i32('element count')
    if not 0 < count < 1000:
        raise WireError('element_table', f'element count {count}')
    els = []
    for i in range(count):
        t = tstr(f'type of element {i}') if ver >= 2 else dec(rd.cstr('element type'), 'element type')
        nm = tstr(f'name of element {i}') if ver >= 4 else dec(rd.cstr('element name'), 'element name')
        u = UUID(bytes_le=rd.take(16, 'element id'))
        els.append({'t': t, 'n': nm, 'u': u, 'a': []})
    for i, el in enumerate(els):
        na = rd.i32(f'attribute count of element {i}')
        if not 0 <= na < 1000:
            raise WireError('attr_count', f'element {i}: attribute count {na}')
        for k in range(na):
            why = f'element {i} attribute {k}'
            nm = tstr(why + ' name') if ver >= 2 else dec(rd.cstr(why + ' name'), why + ' name')
            code = rd.take(1, why + ' type')[0]
            if FIRST_ARRAY_CODE <= code < FIRST_ARRAY_CODE + 14:
                vt = CODE_TYPE[code - 14]
                n = rd.i32(why + ' array length')
                if not 0 <= n < 100000:
                    raise WireError('array_len', f'{why} ({nm!r}): array length {n}')
                shape = 'a'
            elif 1 <= code <= 14:
                vt, n, shape = CODE_TYPE[code], 1, 's'
            else:
                raise WireError('type_code', f'{why} ({nm!r}): type code {code}')
            if vt == 'time' and ver < 3:
                raise WireError('type_code', f'{why} ({nm!r}): type code {code} (time) in version {ver}')
            vals = []
            for _ in range(n):
                if vt == VT_ELEMENT:
                    ix = rd.i32(why + ' element index')
                    if ix == -1:
                        vals.append('N')
                    elif ix == -2:
                        vals.append(('S', rd.cstr(why + ' stub id').decode('latin1')))
                    elif 0 <= ix < count:
                        vals.append(ix)
                    else:
                        raise WireError('elem_index', f'{why} ({nm!r}): element index {ix} of {count}')
                elif vt == 'string':
                    if shape == 's' and ver >= 4:
                        vals.append(tstr(why + ' value'))
                    else:
                        vals.append(dec(rd.cstr(why + ' value'), why + ' value'))
                elif vt == 'binary':
                    vals.append(rd.take(rd.i32(why + ' blob size'), why + ' blob'))
                else:
                    vals.append(rd.take(FIXED_SIZE[vt], why + ' value'))
            el['a'].append((nm, vt, shape, vals))
    if rd.p != len(data):
        raise WireError('trailing', f'{len(data) - rd.p} undecoded bytes after the last element')
    return els


def compare_wire(doc: dict, data: bytes, cfg: dict) -> None:
    """The bytes srctools wrote, decoded by the harness, must describe the specification bit-exactly."""
    els = decode_binary(data, cfg['ver'], cfg['uni'])
    spec_to_wire: dict[int, int] = {}
    wire_to_spec: dict[int, int] = {}
    work = [(0, 0, 'root')]
    while work:
        i, w, path = work.pop(0)
        if i in spec_to_wire:
            if spec_to_wire[i] != w:
                raise WireError('sharing', f'{path}: element #{i} written twice (records {spec_to_wire[i]} and {w})')
            continue
        if w in wire_to_spec:
            raise WireError('sharing', f'{path}: elements #{wire_to_spec[w]} and #{i} share record {w}')
        spec_to_wire[i] = w
        wire_to_spec[w] = i
        el, wel = doc['els'][i], els[w]
        if (wel['t'], wel['n'], wel['u']) != (el['t'], el['n'], EU(i)):
            raise WireError('elem_header', f"{path}: record ({wel['t']!r}, {wel['n']!r}, {wel['u']}), expected "
                                           f"({el['t']!r}, {el['n']!r}, {EU(i)})")
        if [a[0] for a in wel['a']] != [a[0] for a in el['a']]:
            raise WireError('attr_names', f"{path}: attributes {[a[0] for a in wel['a']]!r}, expected "
                                          f"{[a[0] for a in el['a']]!r}")
        for (nm, wvt, wshape, vals), (name, vt, shape, payload) in zip(wel['a'], el['a']):
            apath = f'{path}.{name}'
            if (wvt, wshape) != (vt, shape):
                raise WireError('type_code', f'{apath}: written as {wvt}/{wshape}, expected {vt}/{shape}')
            want = [payload] if shape == 's' else list(payload)
            if len(vals) != len(want):
                raise WireError('array_len', f'{apath}: {len(vals)} items, expected {len(want)}')
            for n, (g, x) in enumerate(zip(vals, want)):
                if vt == VT_ELEMENT:
                    if x == 'N' or isinstance(x, str):
                        exp = 'N' if x == 'N' else ('S', str(SU(int(x[1:]))))
                        if g != exp:
                            raise WireError('elem_ref', f'{apath}[{n}]: reference {g!r}, expected {exp!r}')
                    elif not isinstance(g, int):
                        raise WireError('elem_ref', f'{apath}[{n}]: reference {g!r}, expected element #{x}')
                    else:
                        work.append((x, g, f'{apath}[{n}]'))
                elif vt == 'string':
                    if g != x:
                        raise WireError('value', f'{apath}[{n}]: string {g!r}, expected {x!r}')
                elif vt == 'binary':
                    if g.hex() != x:
                        raise WireError('value', f'{apath}[{n}]: blob {g.hex()[:40]}, expected {x[:40]}')
                elif g != wire_bytes(vt, x):
                    raise WireError('value', f'{apath}[{n}]: bytes {g.hex()}, expected {wire_bytes(vt, x).hex()} ({x!r})')
    if len(els) != len(spec_to_wire):
        raise WireError('element_table', f'{len(els)} element records for {len(spec_to_wire)} reachable elements')
