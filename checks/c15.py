"""C15 - VTF save/read round trip: metadata exact, pixels exact up to the format.

Shape (E): bounded exhaustive enumeration of texture *configurations* (size, frames, depth, cubemap,
version, main/thumbnail format, pixel pattern, resources, particle sheets, flag bits, mip mode,
save(version=...) override ...) as deviation-bounded records around a base (4x4, 1 frame,
RGBA8888, no thumbnail, 7.5), plus full products over the structural dimensions and a codec sweep
(every writable format x pixel phases on 256-pixel images, so every byte value occurs in every
channel).  Every configuration goes through the real VTF() / save() / read() and is compared with a
model written here:

* metadata (width, height, depth, frames, first frame, flags, formats, version, reflectivity, bump
  scale, resources, sheets) equal - floats compared with their float32 image;
* frame table of the read-back object == frame table of the constructed object == what the header
  bytes (parsed here with struct, not by srctools) imply; mip chain reaches 1x1; image section of the
  file has exactly the implied length;
* pixels of every frame == q(in-memory pixels), q = per-format quantisation written independently;
* save(read(save(x))) byte-identical;
* Frame[x, y] get/set at every (x, y) in {-1, 0, w-1, w, w+1} x {-1, 0, h-1, h, h+1};
* every generated mipmap has halved (min 1) dimensions and each pixel within +-1 of the mean of the
  parent pixels it covers (also after clear_mipmaps()/compute_mipmaps() on a re-read file).
"""
from __future__ import annotations

import io
import itertools
import struct

from srctools.vtf import VTF, Frame, ImageFormats, VTFFlags, CubeSide, Resource, ResourceID, SheetSequence, TexCoord

from mcv import core

PROPERTY = 'C15'
LEVEL = 'exploration'

ENVMAP = 0x4000

# ---------------------------------------------------------------------------------------------
# formats: bytes per pixel and quantisation, written from the format names / docstrings
# ("packed ... by dropping LSBs", "duplicating the MSB to fill the remaining space",
#  "Bottom half is a copy of the top", "Pure blue pixels are transparent", "R=G=B").

BPP = {
    'RGBA8888': 4, 'ABGR8888': 4, 'ARGB8888': 4, 'BGRA8888': 4, 'UVWQ8888': 4, 'UVLX8888': 4, 'BGRX8888': 4,
    'RGB888': 3, 'BGR888': 3, 'RGB888_BLUESCREEN': 3, 'BGR888_BLUESCREEN': 3,
    'RGB565': 2, 'BGR565': 2, 'BGRA4444': 2, 'BGRA5551': 2, 'BGRX5551': 2, 'IA88': 2, 'UV88': 2,
    'I8': 1, 'A8': 1,
    'NONE': 0,
}
WRITABLE = [n for n in BPP if n != 'NONE']


def rep(v: int, n: int) -> int:
    """Keep the top n bits of a byte and fill the byte by repeating them."""
    top = (v >> (8 - n)) << (8 - n)
    out = 0
    shift = 0
    while shift < 8:
        out |= top >> shift
        shift += n
    return out & 0xFF


_ID = bytes(range(256))
_C0 = bytes(256)
_C255 = bytes([255]) * 256
_R4 = bytes(rep(v, 4) for v in range(256))
_R5 = bytes(rep(v, 5) for v in range(256))
_R6 = bytes(rep(v, 6) for v in range(256))
_R1 = bytes(rep(v, 1) for v in range(256))     # 0 below 128, 255 from 128

# channel-wise quantisations: one translate table per RGBA channel
CHANNELWISE = {
    'RGBA8888': (_ID, _ID, _ID, _ID), 'ABGR8888': (_ID, _ID, _ID, _ID), 'ARGB8888': (_ID, _ID, _ID, _ID),
    'BGRA8888': (_ID, _ID, _ID, _ID), 'UVWQ8888': (_ID, _ID, _ID, _ID), 'UVLX8888': (_ID, _ID, _ID, _ID),
    'BGRX8888': (_ID, _ID, _ID, _C255), 'RGB888': (_ID, _ID, _ID, _C255), 'BGR888': (_ID, _ID, _ID, _C255),
    'RGB565': (_R5, _R6, _R5, _C255), 'BGR565': (_R5, _R6, _R5, _C255),
    'BGRA4444': (_R4, _R4, _R4, _R4), 'BGRA5551': (_R5, _R5, _R5, _R1), 'BGRX5551': (_R5, _R5, _R5, _C255),
    'A8': (_C0, _C0, _C0, _ID), 'UV88': (_ID, _ID, _C0, _C255),
}
EXACT8 = {'RGBA8888', 'ABGR8888', 'ARGB8888', 'BGRA8888', 'UVWQ8888', 'UVLX8888', 'BGRX8888', 'RGB888',
          'BGR888', 'A8', 'UV88'}     # 8 bits per *used* channel: used channels exact


def expect_pixels(fmt: str, src: bytes):
    """Return (lo, hi): per-byte inclusive bounds of the pixels that storing `src` in `fmt` must yield.
    lo == hi except for the grey formats, where the documented conversion ("greyscale", R=G=B) fixes the
    value only up to the rounding of the mean."""
    n = len(src)
    if fmt in CHANNELWISE:
        out = bytearray(n)
        tabs = CHANNELWISE[fmt]
        for c in range(4):
            out[c::4] = src[c::4].translate(tabs[c])
        b = bytes(out)
        return b, b
    if fmt in ('I8', 'IA88'):
        lo = bytearray(n)
        hi = bytearray(n)
        for i in range(0, n, 4):
            s = src[i] + src[i + 1] + src[i + 2]
            f = s // 3
            c = -(-s // 3)
            a = src[i + 3] if fmt == 'IA88' else 255
            lo[i] = lo[i + 1] = lo[i + 2] = f
            hi[i] = hi[i + 1] = hi[i + 2] = c
            lo[i + 3] = hi[i + 3] = a
        return bytes(lo), bytes(hi)
    if fmt in ('RGB888_BLUESCREEN', 'BGR888_BLUESCREEN'):
        out = bytearray(n)
        for i in range(0, n, 4):
            r, g, b, a = src[i:i + 4]
            if a < 128 or (r == 0 and g == 0 and b == 255):
                pass    # transparent: reads back as (0, 0, 0, 0)
            else:
                out[i] = r
                out[i + 1] = g
                out[i + 2] = b
                out[i + 3] = 255
        b2 = bytes(out)
        return b2, b2
    raise KeyError(fmt)


def pixels_match(fmt: str, src: bytes, got: bytes):
    """None if got is an admissible stored form of src, else a description of the first bad pixel."""
    lo, hi = expect_pixels(fmt, src)
    if len(got) != len(lo):
        return f'length {len(got)} != {len(lo)}'
    if got == lo:
        return None
    if lo is not hi:
        ok = True
        for i in range(0, len(got), 4):
            g = got[i]
            if not (lo[i] <= g <= hi[i]) or got[i + 1] != g or got[i + 2] != g or got[i + 3] != lo[i + 3]:
                ok = False
                break
        if ok:
            # within those bounds the conversion still has to be ONE quantisation: every pixel of the image rounded by the
            # same rule (down, to nearest - a mean of three integers is never a tie - or up), whichever the library uses
            rules = {'down', 'nearest', 'up'}
            for i in range(0, len(got), 4):
                sm = src[i] + src[i + 1] + src[i + 2]
                if sm % 3:
                    fl = sm // 3
                    fits = {'down'} if got[i] == fl else {'up'}
                    if (sm % 3 == 1) == (got[i] == fl):
                        fits.add('nearest')
                    if not (rules & fits):
                        return (f'pixel #{i // 4}: in-memory {tuple(src[i:i + 4])} (mean {sm / 3:.3f}) stored as {got[i]}, while earlier pixels '
                                f'of the same image were rounded {"/".join(sorted(rules))}: not one quantisation rule')
                    rules &= fits
            return None
    for i in range(0, len(got), 4):
        gp = tuple(got[i:i + 4])
        if not all(lo[i + c] <= gp[c] <= hi[i + c] for c in range(4)):
            want = tuple(lo[i:i + 4]) if lo[i:i + 4] == hi[i:i + 4] else (tuple(lo[i:i + 4]), tuple(hi[i:i + 4]))
            return f'pixel #{i // 4}: in-memory {tuple(src[i:i + 4])} -> expected stored {want}, read back {gp}'
    return 'grey channels differ'


# ---------------------------------------------------------------------------------------------
# pixel patterns

NPHASE = 32
PAT_LEN = 8192
_MULS = [1, 7, 13, 29, 3, 11, 37, 53, 5, 19, 43, 61, 9, 23, 47, 59, 15, 27, 41, 63, 17, 31, 45, 57, 21, 33, 49, 51, 25, 35, 39, 55]


def _make_pattern(phase: int) -> bytes:
    """Pixel k -> RGBA.  Every channel is a bijection of k mod 256 (odd multiplier), so any 256
    consecutive pixels carry every byte value in every channel; any 1024 consecutive pixels are
    pairwise distinct (the g channel also depends on k >> 8)."""
    a1 = _MULS[phase % 32]
    a2 = _MULS[(phase * 5 + 1) % 32]
    a3 = _MULS[(phase * 7 + 2) % 32]
    a4 = _MULS[(phase * 11 + 3) % 32]
    b1, b2, b3, b4 = (phase * 37) & 255, (85 + phase * 101) & 255, (170 + phase * 59) & 255, (3 + phase * 83) & 255
    out = bytearray(PAT_LEN * 4)
    for k in range(PAT_LEN):
        out[4 * k] = (k * a1 + b1) & 255
        out[4 * k + 1] = (k * a2 + b2 + 85 * (k >> 8)) & 255
        out[4 * k + 2] = (k * a3 + b3) & 255
        out[4 * k + 3] = (k * a4 + b4) & 255
    return bytes(out)


_PATTERNS: dict = {}

SPECIAL = bytes([
    0, 0, 255, 255,   0, 0, 255, 0,   0, 0, 255, 128,  0, 0, 255, 127,      # pure blue, opaque / transparent / boundary alpha
    0, 0, 254, 255,   0, 1, 255, 255, 1, 0, 255, 255,  255, 255, 0, 255,
    0, 0, 0, 0,       255, 255, 255, 255, 0, 0, 0, 255,  255, 255, 255, 0,
    127, 128, 129, 127, 128, 127, 126, 128, 7, 3, 7, 129, 248, 252, 248, 126,
    1, 1, 2, 255,     2, 2, 1, 0,     254, 255, 255, 64, 8, 4, 8, 192,        # grey rounding, lowest kept bits
])
NSPECIAL = len(SPECIAL) // 4


def pattern(pix, start: int, count: int) -> bytes:
    if pix == 'special':
        reps = (start + count) // NSPECIAL + 2
        return (SPECIAL * reps)[4 * (start % NSPECIAL): 4 * (start % NSPECIAL) + 4 * count]
    pat = _PATTERNS.get(pix)
    if pat is None:
        pat = _PATTERNS[pix] = _make_pattern(pix)
    start %= (PAT_LEN - 1024)
    return pat[4 * start: 4 * (start + count)]


# ---------------------------------------------------------------------------------------------
# configuration space

BASE = {
    'w': 4, 'h': 4, 'frames': 1, 'depth': 1, 'cube': 0, 'ver': 5, 'fmt': 'RGBA8888', 'thumb': 'NONE',
    'res': 'none', 'sheet': 'none', 'sheetver': 1, 'flag': -1, 'mips': 'gen', 'pix': 0, 'ref': 0, 'bump': 0,
    'first': 0, 'savever': 0, 'regen': -1, 'after': 'none',
}
SIZES = [1, 2, 4, 8, 16, 32]
REFS = [(0.0, 0.0, 0.0), (0.25, 0.5, 1.0), (0.1, 0.2, 0.3), (-1.5, 3.0e38, 1e-40)]
BUMPS = [1.0, 0.0, 2.5, 0.1]

# resources: list of (key kind, key, flags, data kind, data).  Flag bit 0x02 is the format's own marker
# for "value stored inline"; it is generated consistently with the data type except in 'inconsistent'.
RES = {
    'none': [],
    'int': [('enum', 'CRC', 0x02, 'int', 0x12345678)],
    'bytes': [('bytes', b'xyz', 0x00, 'bytes', b'custom \x00\xff data')],
    'both': [('enum', 'CRC', 0x02, 'int', 0xDEADBEEF), ('bytes', b'xyz', 0x00, 'bytes', b'abc')],
    'enum_bytes': [('enum', 'KEYVALUES', 0x00, 'bytes', b'"vtf" { "k" "v" }')],
    'bytes_int': [('bytes', b'CRC', 0x02, 'int', 7), ('bytes', b'q\x00\x01', 0x02, 'int', 0)],
    'flagbits': [('bytes', b'fl1', 0x82, 'int', 0xFFFFFFFF), ('bytes', b'fl2', 0xFD, 'bytes', b'\x01')],
    'empty': [('bytes', b'emp', 0x00, 'bytes', b'')],
    # bit 0x02 contradicts the value type: the format forces it (set for inline values, clear for data blocks);
    # everything else must survive.  A ValueError from save() is accepted as a refusal.
    'inconsistent': [('bytes', b'in1', 0x00, 'int', 0x60), ('bytes', b'in2', 0x42, 'bytes', b'blk')],
    # custom IDs are three arbitrary bytes: trailing and leading NULs belong to the ID (Valve's own IDs look like b'\x01\0\0')
    'nul_ids': [('bytes', b'XY\x00', 0x00, 'bytes', b'first'), ('bytes', b'\x20\x00\x00', 0x02, 'int', 9), ('bytes', b'\x00\x00Z', 0x00, 'bytes', b'third'),
                ('bytes', b'XY ', 0x00, 'bytes', b'fourth')],
    'order': [('bytes', b'zzz', 0x00, 'bytes', b'last-first'), ('enum', 'LOD_SETTINGS', 0x02, 'int', 0x0201),
              ('bytes', b'\x02aa', 0x00, 'bytes', b'x' * 300), ('enum', 'EXTRA_FLAGS', 0x02, 'int', 1)],
}


def _tc(i: int):
    return [i / 8.0, (i + 1) / 8.0, (i + 2) / 8.0, (i + 3) / 16.0]


def _sframe(i: int):
    return [0.5 + i, [_tc(i), _tc(i + 10), _tc(i + 20), _tc(i + 30)]]


# sheets: list of (sequence number, clamp, duration, frames)
SHEETS = {
    'none': [],
    'one': [(0, False, 1.5, [_sframe(0)])],
    'two_tf': [(0, True, 2.0, [_sframe(0), _sframe(1)]), (1, False, 0.25, [_sframe(2)])],
    'two_ft': [(3, False, 2.0, [_sframe(4)]), (2, True, 0.0, [_sframe(5), _sframe(6), _sframe(7)])],
    'noframes': [(5, True, 0.0, [])],
    'last': [(63, True, 8.0, [_sframe(3)])],
    # rectangles equal as numbers but not as stored floats (a mirrored cell computed as -left): 0.0 first, then -0.0, and the reverse
    'negzero': [(0, False, 1.0, [[0.5, [[0.0, 0.25, 0.5, 1.0], [-0.0, 0.25, 0.5, 1.0], [0.0, 0.25, 0.5, 1.0], [0.0, -0.0, 0.5, 1.0]]]]),
                (1, True, 2.0, [[0.25, [[-0.0, -0.0, 1.0, 1.0], [0.0, 0.0, 1.0, 1.0], [-0.0, 0.0, 1.0, 1.0], [0.0, -0.0, 1.0, 1.0]]]])],
    'all64': [(n, n % 2 == 0, 0.5 + n, [_sframe(n % 5)]) for n in range(64)],     # the format's maximum number of sequences
}

ALTS_QUICK = {
    'w': [1, 2, 8, 16, 32], 'h': [1, 2, 8, 16, 32], 'frames': [2], 'depth': [2], 'cube': [1], 'ver': [2, 3, 4],
    'fmt': [f for f in WRITABLE if f != 'RGBA8888'], 'thumb': list(WRITABLE),
    'res': [k for k in RES if k != 'none'], 'sheet': [k for k in SHEETS if k != 'none'], 'sheetver': [0],
    'flag': [b for b in range(32) if (1 << b) != ENVMAP], 'mips': ['explicit'], 'pix': [1, 'special'],
    'ref': [1, 2, 3], 'bump': [1, 2, 3], 'first': [1, 65535], 'savever': [2, 3, 4, 5], 'regen': [0, 1],
}
ALTS_THOROUGH = dict(ALTS_QUICK, frames=[2, 3], depth=[2, 3], pix=[1, 2, 'special'])
# medium menu, explored one deviation level deeper than the full menu (thorough tier)
ALTS_MID = {
    'w': [1, 2, 8, 32], 'h': [1, 2, 8, 32], 'frames': [2], 'depth': [2], 'cube': [1], 'ver': [2, 3, 4],
    'fmt': ['BGRA5551', 'RGB565', 'I8', 'BGR888_BLUESCREEN', 'BGRA4444', 'A8'], 'thumb': ['RGB888', 'BGRA4444', 'BGR565'],
    'res': ['int', 'both', 'order', 'flagbits'], 'sheet': ['one', 'two_tf', 'noframes'], 'sheetver': [0],
    'flag': [0, 15, 31], 'mips': ['explicit'], 'pix': ['special'], 'ref': [3], 'bump': [3], 'first': [65535],
    'savever': [2, 3, 4], 'regen': [0, 1],
}
# reduced menu (one or two boundary values per dimension) explored two deviation levels deeper
ALTS_DEEP = {
    'w': [1, 2, 8], 'h': [1, 2, 8], 'frames': [2], 'depth': [2], 'cube': [1], 'ver': [2, 4],
    'fmt': ['BGRA5551', 'RGB565', 'I8', 'BGR888_BLUESCREEN'], 'thumb': ['RGB888', 'BGRA4444'],
    'res': ['both', 'order'], 'sheet': ['two_tf'], 'sheetver': [0], 'flag': [0, 31], 'mips': ['explicit'],
    'savever': [2, 4], 'regen': [1], 'first': [1],
}


def deviations(alts: dict, d: int):
    names = list(alts)
    for r in range(d + 1):
        for combo in itertools.combinations(names, r):
            for vals in itertools.product(*(alts[n] for n in combo)):
                yield dict(zip(combo, vals))


def full(dev: dict) -> dict:
    cfg = dict(BASE)
    cfg.update(dev)
    return cfg


def minimal(cfg: dict) -> dict:
    return {k: v for k, v in cfg.items() if BASE.get(k) != v}


# ---------------------------------------------------------------------------------------------
# helpers around the real objects

def f32(x: float) -> float:
    return struct.unpack('<f', struct.pack('<f', x))[0]


def shape_of(w: int, h: int) -> str:
    if w == 1 or h == 1:
        return '1xN'
    return 'square' if w == h else 'nonsquare'


def full_levels(w: int, h: int) -> int:
    n = 1
    while w > 1 or h > 1:
        w = max(1, w >> 1)
        h = max(1, h >> 1)
        n += 1
    return n


def face_list(cube: bool, depth: int, minor: int) -> list:
    if cube:
        names = ['RIGHT', 'LEFT', 'BACK', 'FRONT', 'UP', 'DOWN']
        if minor < 5:
            names.append('SPHERE')
        return names
    return list(range(max(depth, 1)))


def key_norm(key) -> tuple:
    f, d, m = key
    return (f, d.name if isinstance(d, CubeSide) else d, m)


def get_frame(vtf: VTF, nkey: tuple) -> Frame:
    f, d, m = nkey
    if isinstance(d, str):
        return vtf.get(frame=f, side=CubeSide[d], mipmap=m)
    return vtf.get(frame=f, depth=d, mipmap=m)


def frame_bytes(frame: Frame) -> bytes:
    return memoryview(frame).tobytes()


def norm_resources(res: dict, force_bit: bool = False) -> dict:
    out = {}
    for k, v in res.items():
        flags = v.flags
        if force_bit:
            flags = (flags | 0x02) if isinstance(v.data, int) else (flags & ~0x02)
        out[bytes(k).hex()] = (flags, type(v.data).__name__, v.data if isinstance(v.data, int) else bytes(v.data).hex())
    return out


def norm_sheets(sheets: dict) -> dict:
    out = {}
    for num, seq in sheets.items():
        frames = []
        for fr in seq.frames:
            # (repr: the stored float exactly, -0.0 and 0.0 are different values of the file)
            frames.append((fr[0], tuple((repr(t.left), repr(t.top), repr(t.right), repr(t.bottom)) for t in fr[1:])))
        out[num] = (seq.clamp if isinstance(seq.clamp, bool) else repr(seq.clamp), seq.duration, tuple(frames))
    return out


def parse_header(data: bytes) -> dict:
    """Independent reading of the fixed header (layout per the VTF specification)."""
    sig, major, minor, hsize = struct.unpack_from('<4sIII', data, 0)
    w, h, flags, frames, first = struct.unpack_from('<HHIHH', data, 16)
    rx, ry, rz = struct.unpack_from('<fff', data, 32)
    bump, hfmt, mips, lfmt, lw, lh = struct.unpack_from('<fiBiBB', data, 48)
    depth = struct.unpack_from('<H', data, 63)[0] if minor >= 2 else 1
    hd = {'sig': sig, 'ver': (major, minor), 'hsize': hsize, 'w': w, 'h': h, 'flags': flags, 'frames': frames,
          'first': first, 'mips': mips, 'lw': lw, 'lh': lh, 'depth': depth, 'hfmt': hfmt, 'lfmt': lfmt,
          'low_off': None, 'high_off': None, 'nres': 0}
    if minor >= 3:
        nres = struct.unpack_from('<I', data, 68)[0]
        hd['nres'] = nres
        for i in range(nres):
            rid, rfl, val = struct.unpack_from('<3sBI', data, 80 + 8 * i)
            if rid == b'\x01\0\0':
                hd['low_off'] = val
            elif rid == b'\x30\0\0':
                hd['high_off'] = val
    return hd


IDX_SET_VALUES = [(201, 202, 203, 204), (5, 6, 7, 8), (91, 92, 93, 94)]


def probe_indexing(acc: core.Acc, case: dict, frame: Frame, where: str) -> None:
    """Frame[x, y] and Frame[x, y] = v on the 5 x 5 boundary lattice against a flat model buffer."""
    w, h = frame.width, frame.height
    model = bytearray(frame_bytes(frame))
    xs = sorted({-1, 0, w - 1, w, w + 1})
    ys = sorted({-1, 0, h - 1, h, h + 1})
    n = 0
    reported = set()

    def fail(kind: str, detail: str, **sig) -> None:
        # one report per (clause, signature) and probed frame: a flood of identical findings adds nothing
        key = (kind, tuple(sorted(sig.items())))
        if key not in reported:
            reported.add(key)
            acc.fail(kind, case, detail, **sig)
        acc.count('index_probe_failures')
    for x in xs:
        for y in ys:
            inside = 0 <= x < w and 0 <= y < h
            if inside:
                oob = 'inside'
            else:
                cls = set()
                for v, lim in ((x, w), (y, h)):
                    if v < 0:
                        cls.add('negative')
                    elif v == lim:
                        cls.add('eq_size')
                    elif v > lim:
                        cls.add('gt_size')
                oob = cls.pop() if len(cls) == 1 else 'mixed'
            off = 4 * (y * w + x)
            # --- get
            acc.count('index_probes')
            try:
                px = frame[x, y]
                got = ('value', tuple(px))
            except IndexError:
                got = ('IndexError', None)
            except Exception as exc:  # noqa: BLE001
                got = (type(exc).__name__, None)
            if inside:
                want = tuple(model[off:off + 4])
                if got != ('value', want):
                    fail('index_get', f'{where} frame {w}x{h}: frame[{x},{y}] -> {got}, model pixel {want}',
                             oob=oob, got=got[0])
            elif got[0] != 'IndexError':
                fail('index_get', f'{where} frame {w}x{h}: frame[{x},{y}] is out of range but gave {got} '
                         f'instead of IndexError', oob=oob, got=got[0])
            # --- set
            acc.count('index_probes')
            val = IDX_SET_VALUES[n % 3]
            n += 1
            try:
                frame[x, y] = val
                res = 'stored'
            except IndexError:
                res = 'IndexError'
            except Exception as exc:  # noqa: BLE001
                res = type(exc).__name__
            if inside:
                model[off:off + 4] = bytes(val)
            now = frame_bytes(frame)
            if inside and res != 'stored':
                fail('index_set', f'{where} frame {w}x{h}: frame[{x},{y}] = {val} raised {res}', oob=oob, got=res)
            elif not inside and res != 'IndexError':
                changed = [i // 4 for i in range(0, len(now), 4) if now[i:i + 4] != model[i:i + 4]]
                fail('index_set', f'{where} frame {w}x{h}: frame[{x},{y}] = {val} is out of range but gave '
                         f'{res} instead of IndexError; pixels changed: {changed}', oob=oob, got=res)
            elif now != bytes(model):
                changed = [i // 4 for i in range(0, len(now), 4) if now[i:i + 4] != model[i:i + 4]]
                fail('index_set', f'{where} frame {w}x{h}: frame[{x},{y}] = {val} ({res}) changed pixels '
                         f'{changed}, expected only #{off // 4 if inside else None}', oob=oob, got='wrong_pixels')
            model[:] = now      # resynchronise so one fault is reported once


def check_mip_mean(parent: bytes, pw: int, ph: int, child: bytes, cw: int, ch: int):
    """None or a description of the first child pixel that is not within +-1 of the mean of its parents."""
    sx = 2 if pw != cw else 1
    sy = 2 if ph != ch else 1
    n = sx * sy
    for y in range(ch):
        for x in range(cw):
            for c in range(4):
                s = 0
                for dy in range(sy):
                    for dx in range(sx):
                        s += parent[4 * ((sy * y + dy) * pw + sx * x + dx) + c]
                v = child[4 * (y * cw + x) + c]
                if abs(v * n - s) > n:
                    return (f'pixel ({x},{y}) channel {"rgba"[c]}: {v}, parents sum {s} over {n} '
                            f'(mean {s / n:.2f}) in {pw}x{ph} -> {cw}x{ch}')
    return None


# ---------------------------------------------------------------------------------------------
# one case

def _earlier_save(kind: str) -> None:
    """What this process did with ANOTHER texture just before the case (cfg['after']): a save that fails part-way (the palette
    format has no writer) or one that succeeds, of a texture rich in resources.  Neither may leave anything behind."""
    other = VTF(8, 8, fmt=ImageFormats.P8 if kind == 'failed_save' else ImageFormats.BGRA4444, thumb_fmt=ImageFormats.RGB888,
                sheet_info={0: SheetSequence([(1.0, TexCoord(0, 0, 1, 1), TexCoord(0, 0, 1, 1), TexCoord(0, 0, 1, 1), TexCoord(0, 0, 1, 1))], False, 1.0)})
    for i in range(16):
        other.resources[b'R%02i' % i] = Resource(0, bytes([i + 1]) * (8 + i))
    try:
        other.save(io.BytesIO())
    except NotImplementedError:
        pass


def check_case(acc: core.Acc, dev: dict) -> None:
    cfg = full(dev)
    case = minimal(cfg)
    acc.evaluations += 1
    if cfg['after'] != 'none':
        try:
            _earlier_save(cfg['after'])
        except Exception as exc:  # noqa: BLE001
            acc.fail('earlier_save_raised', case, f'the earlier {cfg["after"]} of another texture raised {type(exc).__name__}: {exc}')
            return
    w, h, nframes, depth, cube = cfg['w'], cfg['h'], cfg['frames'], cfg['depth'], bool(cfg['cube'])
    minor = cfg['ver']
    fmt, thumb = cfg['fmt'], cfg['thumb']
    shape = shape_of(w, h)
    flagval = (1 << cfg['flag'] if cfg['flag'] >= 0 else 0) | (ENVMAP if cube else 0)
    sheets_spec = SHEETS[cfg['sheet']]
    sheet_objs = {}
    for num, clamp, dur, frames in sheets_spec:
        sheet_objs[num] = SheetSequence(
            [(fd, *(TexCoord(*c) for c in coords)) for fd, coords in frames], clamp, dur)
    try:
        flags_obj = VTFFlags(flagval)
    except ValueError as exc:
        # the header's flag field is 32 unsigned bits: every bit pattern is a value the format carries
        acc.fail('meta', case, f'VTFFlags({flagval:#x}) cannot be constructed: {exc}', field='flags')
        return
    kwargs = dict(version=(7, minor), ref=REFS[cfg['ref']], frames=nframes, bump_scale=BUMPS[cfg['bump']],
                  sheet_info=sheet_objs, flags=flags_obj, fmt=ImageFormats[fmt],
                  thumb_fmt=ImageFormats[thumb], depth=depth)

    # -- construction
    if cube and depth != 1:
        try:
            VTF(w, h, **kwargs)
        except ValueError:
            acc.outcome(('rejected', 'cube+depth'))
        except Exception as exc:  # noqa: BLE001
            acc.fail('ctor_error', case, f'VTF({w},{h},{kwargs}) raised {type(exc).__name__}: {exc}', exc=type(exc).__name__)
        else:
            acc.fail('ctor_accepts_invalid', case, 'cubemap with depth != 1 accepted although documented as rejected')
        return
    try:
        vtf = VTF(w, h, **kwargs)
    except Exception as exc:  # noqa: BLE001
        acc.fail('ctor_error', case, f'VTF({w},{h},{kwargs}) raised {type(exc).__name__}: {exc}', exc=type(exc).__name__)
        return
    for kk, key, rflags, dk, data in RES[cfg['res']]:
        rid = ResourceID[key] if kk == 'enum' else key
        vtf.resources[rid] = Resource(rflags, data)
    if cfg['first']:
        vtf.first_frame_index = cfg['first']

    out_minor = cfg['savever'] or minor
    faces = face_list(cube, depth, minor)
    levels = full_levels(w, h)
    want_keys = {(f, d, m) for f in range(nframes) for d in faces for m in range(levels)}
    made_keys = {key_norm(k) for k in vtf._frames}
    made_levels = sorted({k[2] for k in made_keys})
    bad_struct = False

    # -- constructed frame table
    if made_levels != list(range(len(made_levels))):
        acc.fail('frame_table', case, f'constructed mip levels are not contiguous: {made_levels}', obj='constructed', what='levels')
        bad_struct = True
    if {(k[0], k[1]) for k in made_keys} != {(f, d) for f in range(nframes) for d in faces} or \
            len(made_keys) != nframes * len(faces) * len(made_levels):
        acc.fail('frame_table', case, f'constructed frame table {sorted(made_keys, key=str)[:20]} does not cover frames x faces '
                 f'{nframes} x {faces}', obj='constructed', what='faces')
        bad_struct = True
    if len(made_levels) < levels and not bad_struct:
        acc.fail('mip_chain_short', case, f'VTF({w},{h}) creates mip levels {made_levels} '
                 f'({[(max(1, w >> m), max(1, h >> m)) for m in made_levels]}); a complete chain down to 1x1 has {levels} levels',
                 shape=shape)
    elif len(made_levels) > levels:
        acc.fail('frame_table', case, f'VTF({w},{h}) creates {len(made_levels)} mip levels, more than the {levels} down to 1x1',
                 obj='constructed', what='too_many_levels')
    if vtf.mipmap_count != len(made_levels):
        acc.fail('mipmap_count', case, f'VTF({w},{h}).mipmap_count == {vtf.mipmap_count} but the object holds '
                 f'{len(made_levels)} mip levels {made_levels}: the smallest {len(made_levels) - vtf.mipmap_count} '
                 f'would not be written', shape=shape, obj='constructed')
    for nk in sorted(made_keys, key=str):
        fr = get_frame(vtf, nk)
        if (fr.width, fr.height) != (max(1, w >> nk[2]), max(1, h >> nk[2])):
            acc.fail('frame_dims', case, f'constructed frame {nk} is {fr.width}x{fr.height}, expected '
                     f'{max(1, w >> nk[2])}x{max(1, h >> nk[2])}', obj='constructed')
            bad_struct = True
    if bad_struct:
        return

    # -- fill pixels
    explicit = cfg['mips'] == 'explicit'
    pix = cfg['pix']
    supplied = {}
    for nk in sorted(made_keys, key=str):
        f, d, m = nk
        if m > 0 and not explicit:
            continue
        fr = get_frame(vtf, nk)
        di = faces.index(d)
        data = pattern(pix, 37 * ((f * 8 + di) * 8 + m), fr.width * fr.height)
        fr.copy_from(data)
        supplied[nk] = data
    thumb_regen = thumb != 'NONE' and any((max(1, w >> m) // 2, max(1, h >> m) // 2) == (16, 16) for m in made_levels)
    thumb_supplied = None
    if thumb != 'NONE' and not thumb_regen:
        lw, lh = vtf._low_res.width, vtf._low_res.height
        thumb_supplied = pattern(pix, 1000, lw * lh)
        vtf._low_res.copy_from(thumb_supplied)

    # -- pixel indexing on a constructed frame
    first_key = (0, faces[0], 0)
    probe_indexing(acc, case, get_frame(vtf, first_key), 'constructed')
    supplied[first_key] = frame_bytes(get_frame(vtf, first_key))

    # -- save
    save_kw = {'sheet_seq_version': cfg['sheetver']}
    if cfg['savever']:
        save_kw['version'] = (7, cfg['savever'])
    buf = io.BytesIO()
    try:
        vtf.save(buf, **save_kw)
    except Exception as exc:  # noqa: BLE001
        unrepresentable = out_minor < 3 and (cfg['res'] != 'none' or cfg['sheet'] != 'none')
        if isinstance(exc, ValueError) and ((cfg['savever'] and cube) or unrepresentable or cfg['res'] == 'inconsistent'):
            # an explicit refusal of something the target version cannot hold is not a round-trip failure
            acc.outcome(('save_refused', cube, minor, out_minor))
            return
        acc.fail('save_error', case, f'save({save_kw}) raised {type(exc).__name__}: {exc}', exc=type(exc).__name__)
        return
    data1 = buf.getvalue()

    # -- in-memory state after save: supplied pixels untouched, generated mips are means
    mem = {}
    for nk in made_keys:
        mem[nk] = frame_bytes(get_frame(vtf, nk))
    for nk, data in supplied.items():
        if mem[nk] != data:
            acc.fail('save_mutates_pixels', case, f'frame {nk}: pixels supplied before save() differ afterwards', fmt=fmt)
    gen_levels = range(1, min(vtf.mipmap_count, len(made_levels)))
    if not explicit:
        for f in range(nframes):
            for d in faces:
                for m in gen_levels:
                    pw, ph = max(1, w >> (m - 1)), max(1, h >> (m - 1))
                    cw, ch = max(1, w >> m), max(1, h >> m)
                    acc.count('generated_mips_checked')
                    msg = check_mip_mean(mem[f, d, m - 1], pw, ph, mem[f, d, m], cw, ch)
                    if msg:
                        acc.fail('mip_mean', case, f'generated mip {(f, d, m)}: {msg}', src='save', shape=shape)
    thumb_mem = frame_bytes(vtf._low_res) if thumb != 'NONE' else None
    if thumb_regen:
        src_face = 'FRONT' if cube else 0
        for m in range(vtf.mipmap_count):
            pw, ph = max(1, w >> m), max(1, h >> m)
            if (pw // 2, ph // 2) == (16, 16):
                msg = check_mip_mean(mem[0, src_face, m], pw, ph, thumb_mem, 16, 16)
                if msg:
                    acc.fail('mip_mean', case, f'generated thumbnail: {msg}', src='thumbnail', shape=shape)
    elif thumb_supplied is not None:
        # the thumbnail is derived data; what must hold is stored == q(in-memory after save)
        acc.count('thumbnail_pattern_kept' if thumb_mem == thumb_supplied else 'thumbnail_pattern_replaced')

    # -- header bytes, read independently
    hd = parse_header(data1)
    hfaces = (7 if hd['ver'][1] < 5 else 6) if hd['flags'] & ENVMAP else max(hd['depth'], 1)
    image_len = 0
    for m in range(hd['mips']):
        image_len += hd['frames'] * hfaces * BPP[fmt] * max(1, hd['w'] >> m) * max(1, hd['h'] >> m)
    thumb_len = BPP[thumb] * hd['lw'] * hd['lh']
    high_off = hd['high_off'] if hd['ver'][1] >= 3 else hd['hsize'] + thumb_len
    if high_off is None or len(data1) - high_off != image_len:
        acc.fail('file_size', case, f'file has {len(data1) - (high_off or 0)} bytes of image data at offset {high_off}; its header '
                 f'({hd["w"]}x{hd["h"]}, {hd["frames"]} frames, {hfaces} faces/slices, {hd["mips"]} mips, {fmt}) implies {image_len}',
                 cube=cube, savever=bool(cfg['savever']))
        return      # the file contradicts its own header; nothing read from it is meaningful

    # -- read back
    try:
        rd = VTF.read(io.BytesIO(data1))
    except Exception as exc:  # noqa: BLE001
        acc.fail('read_error', case, f'VTF.read of the saved file raised {type(exc).__name__}: {exc}', exc=type(exc).__name__)
        return

    representable = out_minor >= 3
    exp_meta = {
        'width': w, 'height': h, 'depth': depth, 'frame_count': nframes, 'first_frame_index': cfg['first'],
        'flags': flagval, 'format': fmt, 'low_format': thumb, 'version': (7, out_minor),
        'reflectivity': tuple(f32(x) for x in REFS[cfg['ref']]), 'bumpmap_scale': f32(BUMPS[cfg['bump']]),
        'mipmap_count': vtf.mipmap_count,
        'resources': norm_resources(vtf.resources, force_bit=True) if representable else {},
        'sheet_info': {},
    }
    if representable:
        for num, clamp, dur, frames in sheets_spec:
            fl = []
            for fd, coords in frames:
                cs = [tuple(repr(f32(x)) for x in c) for c in coords]
                if cfg['sheetver'] == 0:
                    cs = [cs[0]] * 4      # version 0 stores one coordinate set per frame
                fl.append((fd, tuple(cs)))
            exp_meta['sheet_info'][num] = (clamp, dur, tuple(fl))

    def meta_of(obj: VTF) -> dict:
        return {
            'width': obj.width, 'height': obj.height, 'depth': obj.depth, 'frame_count': obj.frame_count,
            'first_frame_index': obj.first_frame_index,
            'flags': obj.flags.value if isinstance(obj.flags, VTFFlags) else repr(obj.flags),
            'format': obj.format.name, 'low_format': obj.low_format.name, 'version': tuple(obj.version),
            'reflectivity': (obj.reflectivity.x, obj.reflectivity.y, obj.reflectivity.z),
            'bumpmap_scale': obj.bumpmap_scale, 'mipmap_count': obj.mipmap_count,
            'resources': norm_resources(obj.resources), 'sheet_info': norm_sheets(obj.sheet_info),
        }

    got_meta = meta_of(rd)
    for field, want in exp_meta.items():
        if got_meta[field] != want:
            acc.fail('meta', case, f'{field}: saved {want!r}, read back {got_meta[field]!r}', field=field)

    # -- frame table of the read-back object
    read_keys = {key_norm(k) for k in rd._frames}
    out_faces = face_list(cube, depth, out_minor)
    header_keys = {(f, d, m) for f in range(hd['frames'])
                   for d in face_list(bool(hd['flags'] & ENVMAP), hd['depth'], hd['ver'][1]) for m in range(hd['mips'])}
    if read_keys != header_keys:
        acc.fail('frame_table', case, f'read-back frame table has {len(read_keys)} keys, the header implies {len(header_keys)}; '
                 f'difference {sorted(read_keys ^ header_keys, key=str)[:12]}', obj='read', what='vs_header')
    if rd.mipmap_count != len({k[2] for k in read_keys}):
        acc.fail('mipmap_count', case, f'read-back mipmap_count {rd.mipmap_count} but frame table has levels '
                 f'{sorted({k[2] for k in read_keys})}', shape=shape, obj='read')
    comparable = {k for k in made_keys if k[1] in out_faces} if cube else made_keys
    lost = comparable - read_keys
    extra = {k for k in read_keys - made_keys if not (cube and k[1] in out_faces and k[1] not in faces)}
    if lost:
        lost_levels = sorted({k[2] for k in lost})
        whole_levels = all((f, d, m) in lost for m in lost_levels for f in range(nframes) for d in (out_faces if cube else faces) if (f, d, m) in comparable)
        tail = whole_levels and lost_levels == list(range(min(lost_levels), len(made_levels)))
        acc.fail('frames_lost', case, f'{len(lost)} of {len(made_keys)} frames of the saved object are absent after reading '
                 f'(mip levels {lost_levels} of sizes {[(max(1, w >> m), max(1, h >> m)) for m in lost_levels]}); '
                 f'read-back levels: {sorted({k[2] for k in read_keys})}', shape=shape,
                 what='smallest_mip_levels' if tail else 'other')
    if extra:
        acc.fail('frames_extra', case, f'read-back has frames the saved object did not: {sorted(extra, key=str)[:12]}',
                 cube=cube, savever=bool(cfg['savever']))
    for nk in sorted(read_keys, key=str):
        fr = get_frame(rd, nk)
        if (fr.width, fr.height) != (max(1, w >> nk[2]), max(1, h >> nk[2])):
            acc.fail('frame_dims', case, f'read-back frame {nk} is {fr.width}x{fr.height}', obj='read')

    if not read_keys:
        return      # nothing was stored (already reported as frames_lost); no pixels to compare or store again

    # -- header-only read
    try:
        ho = VTF.read(io.BytesIO(data1), header_only=True)
        ho_meta = meta_of(ho)
        if ho_meta != got_meta or {key_norm(k) for k in ho._frames} != read_keys:
            diff = [k for k in got_meta if ho_meta[k] != got_meta[k]]
            acc.fail('header_only', case, f'header_only read differs from full read in {diff or "frame table"}')
    except Exception as exc:  # noqa: BLE001
        acc.fail('header_only', case, f'header_only read raised {type(exc).__name__}: {exc}')

    # -- pixels
    compared = 0
    load_errors = 0
    for nk in sorted(read_keys & made_keys, key=str):
        try:
            got = frame_bytes(get_frame(rd, nk))
        except Exception as exc:  # noqa: BLE001
            load_errors += 1
            if load_errors == 1:
                acc.fail('pixel_load_error', case, f'loading read-back frame {nk} raised {type(exc).__name__}: {exc}',
                         exc=type(exc).__name__, cube=cube, savever=bool(cfg['savever']))
            continue
        compared += 1
        acc.count('pixels_compared', len(got) // 4)
        msg = pixels_match(fmt, mem[nk], got)
        if msg:
            acc.fail('pixels', case, f'{fmt} frame {nk}: {msg}', fmt=fmt, plane='main', exact8=fmt in EXACT8)
            break
    if thumb != 'NONE':
        try:
            got = frame_bytes(rd._low_res)
            acc.count('pixels_compared', len(got) // 4)
            msg = pixels_match(thumb, thumb_mem, got)
            if msg:
                acc.fail('pixels', case, f'{thumb} thumbnail: {msg}', fmt=thumb, plane='thumb', exact8=thumb in EXACT8)
        except Exception as exc:  # noqa: BLE001
            acc.fail('pixel_load_error', case, f'loading read-back thumbnail raised {type(exc).__name__}: {exc}',
                     exc=type(exc).__name__, cube=cube, savever=bool(cfg['savever']))
    acc.count('frames_compared', compared)

    # -- pixel indexing on a lazily loaded read-back frame (a fresh read, so the object saved again below is untouched)
    try:
        rd_probe = VTF.read(io.BytesIO(data1))
        if read_keys:
            probe_indexing(acc, case, get_frame(rd_probe, min(read_keys, key=lambda k: (k[2], str(k)))), 'read-back')
    except Exception as exc:  # noqa: BLE001
        if not load_errors:
            acc.fail('pixel_load_error', case, f'indexing a read-back frame raised {type(exc).__name__}: {exc}',
                     exc=type(exc).__name__, cube=cube, savever=bool(cfg['savever']))

    # -- a rejected copy_from() on a lazily loaded frame (wrong buffer size) leaves the frame's file content intact
    if not load_errors and read_keys & made_keys:
        nk0 = min(read_keys & made_keys, key=lambda k: (k[2], str(k)))
        try:
            rd_rej = VTF.read(io.BytesIO(data1))
            fr0 = get_frame(rd_rej, nk0)
            rejected = False
            try:
                fr0.copy_from(b'\x01\x02\x03', ImageFormats.RGBA8888)
            except Exception:  # noqa: BLE001 - the rejection itself; which exception is not this property's business
                rejected = True
            if rejected:
                got = frame_bytes(fr0)
                base = frame_bytes(get_frame(rd, nk0))      # the same frame of the undisturbed read (compared with the model above)
                if got != base:
                    pos = next(i for i in range(min(len(got), len(base))) if got[i] != base[i]) if len(got) == len(base) else -1
                    acc.fail('pixels_after_rejected_update', case, f'{fmt} frame {nk0}: after a copy_from() call that raised, the lazily '
                             f'loaded frame no longer yields the file content (first differing byte {pos}: {base[pos:pos + 4].hex()} -> {got[pos:pos + 4].hex()})', fmt=fmt)
            else:
                acc.count('short_copy_from_accepted')
        except Exception as exc:  # noqa: BLE001
            acc.fail('pixel_load_error', case, f'loading a frame after a rejected copy_from() raised {type(exc).__name__}: {exc}',
                     exc=type(exc).__name__, cube=cube, savever=bool(cfg['savever']))

    # -- storing again changes nothing
    if not load_errors:
        buf2 = io.BytesIO()
        try:
            rd2 = VTF.read(io.BytesIO(data1))
            rd2.save(buf2, sheet_seq_version=cfg['sheetver'])
            data2 = buf2.getvalue()
            if data2 != data1:
                pos = next((i for i in range(min(len(data1), len(data2))) if data1[i] != data2[i]), min(len(data1), len(data2)))
                thumb_off = hd['low_off'] if hd['ver'][1] >= 3 else hd['hsize']
                if pos < hd['hsize']:
                    region, rfmt = 'header', None
                elif pos >= high_off:
                    region, rfmt = 'image', fmt
                elif thumb_off is not None and thumb_off <= pos < thumb_off + thumb_len:
                    region, rfmt = 'thumbnail', thumb
                else:
                    region, rfmt = 'resources', None
                acc.fail('resave_differs', case, f'save(read(save(x))) differs from save(x): lengths {len(data1)} -> {len(data2)}, '
                         f'first difference at byte {pos} ({region})', fmt=rfmt, region=region)
        except Exception as exc:  # noqa: BLE001
            acc.fail('resave_error', case, f'saving the read-back object raised {type(exc).__name__}: {exc}', exc=type(exc).__name__)

    # -- regenerate mipmaps on a re-read file
    if cfg['regen'] >= 0 and not load_errors:
        after = cfg['regen']
        try:
            rg = VTF.read(io.BytesIO(data1))
            rg.clear_mipmaps(after=after)
            rg.compute_mipmaps()
            rmem = {key_norm(k): frame_bytes(fr) for k, fr in rg._frames.items()}
        except Exception as exc:  # noqa: BLE001
            acc.fail('regen_error', case, f'clear_mipmaps(after={after}); compute_mipmaps() raised {type(exc).__name__}: {exc}',
                     exc=type(exc).__name__)
            rmem = None
        if rmem is not None:
            rlevels = rg.mipmap_count
            for (f, d, m), px in sorted(rmem.items(), key=str):
                if m >= rlevels:
                    continue
                if m <= after:
                    msg = pixels_match(fmt, mem[f, d, m], px) if (f, d, m) in mem else None
                    if msg:
                        acc.fail('regen_kept_level', case, f'clear_mipmaps(after={after}) then compute_mipmaps(): kept level {(f, d, m)} '
                                 f'no longer holds the file content: {msg}', fmt=fmt)
                        break
                else:
                    pw, ph = max(1, w >> (m - 1)), max(1, h >> (m - 1))
                    acc.count('generated_mips_checked')
                    msg = check_mip_mean(rmem[f, d, m - 1], pw, ph, px, max(1, w >> m), max(1, h >> m))
                    if msg:
                        acc.fail('mip_mean', case, f'read, clear_mipmaps(after={after}), compute_mipmaps(): level {(f, d, m)}: {msg}',
                                 src='regen', shape=shape)
                        break

    acc.nontrivial += 1 if compared else 0
    acc.outcome(('ok', len(read_keys), len(made_levels), hd['mips'], len(out_faces), fmt, thumb != 'NONE',
                 len(got_meta['resources']), len(got_meta['sheet_info'])))


# ---------------------------------------------------------------------------------------------
# enumeration

def enumerate_cases(quick: bool) -> tuple[list, dict]:
    seen: dict = {}
    counts: dict = {}

    def add(dev: dict, family: str) -> None:
        m = minimal(full(dev))
        key = core.jdump(m)
        if key not in seen:
            seen[key] = m
            counts[family] = counts.get(family, 0) + 1

    alts = ALTS_QUICK if quick else ALTS_THOROUGH
    for dev in deviations(alts, 2 if quick else 3):
        add(dev, 'deviation')
    for dev in deviations(ALTS_DEEP, 4 if quick else 5):
        add(dev, 'deviation_deep')
    if not quick:
        for dev in deviations(ALTS_MID, 4):
            add(dev, 'deviation_mid')
    # structural product
    layouts = [{'depth': 1}, {'depth': 2}, {'cube': 1}]
    if quick:
        fmts, frames, mipmodes = ['RGBA8888', 'BGRA5551', 'RGB565', 'IA88'], [1, 2], ['gen', 'explicit']
    else:
        fmts, frames, mipmodes = WRITABLE, [1, 2], ['gen', 'explicit']
    for w in SIZES:
        for h in SIZES:
            for lay in layouts:
                for ver in (2, 3, 4, 5):
                    for fr in frames:
                        for fm in fmts:
                            for mm in mipmodes:
                                add(dict(lay, w=w, h=h, ver=ver, frames=fr, fmt=fm, mips=mm), 'structure_product')
    # codec sweep: 256- and 1024-pixel images, every writable format as main and as thumbnail, all phases
    phases = list(range(8 if quick else NPHASE)) + ['special']
    for fm in WRITABLE:
        for p in phases:
            add({'w': 16, 'h': 16, 'fmt': fm, 'pix': p, 'mips': 'explicit'}, 'codec_sweep')
            add({'thumb': fm, 'pix': p}, 'codec_sweep')
            if not quick:
                add({'w': 32, 'h': 32, 'fmt': fm, 'thumb': fm, 'pix': p}, 'codec_sweep')
                add({'w': 32, 'h': 8, 'fmt': fm, 'pix': p, 'mips': 'explicit'}, 'codec_sweep')
    return list(seen.values()), counts


FILTER_SIZES = [(2, 2), (4, 2), (2, 4), (8, 8), (16, 4), (1, 4), (4, 1), (32, 32)]
CORNER = {'UPPER_LEFT': (0, 0), 'UPPER_RIGHT': (1, 0), 'LOWER_LEFT': (0, 1), 'LOWER_RIGHT': (1, 1)}


def check_filters(acc: core.Acc, w: int, h: int) -> None:
    """compute_mipmaps(filter) for every FilterMode: each generated level against the documented rule (the named corner
    of the 2x2 parent block / the mean), then the generated pyramid stored and read back unchanged."""
    from srctools.vtf import FilterMode
    src = bytes(((x * 37 + y * 101 + c * 53) % 251) + (4 if c == 3 else 0) for y in range(h) for x in range(w) for c in range(4))
    for mode in FilterMode:            # aliases (NEAREST, AVERAGE) are the same members
        acc.evaluations += 1
        acc.nontrivial += 1
        case = {'filter': mode.name, 'w': w, 'h': h}
        try:
            vtf = VTF(w, h, fmt=ImageFormats.RGBA8888, thumb_fmt=ImageFormats.NONE)
            vtf.get().copy_from(src, ImageFormats.RGBA8888)
            vtf.clear_mipmaps(after=0)
            vtf.compute_mipmaps(mode)
            levels = {}
            for m in range(vtf.mipmap_count):
                fr = vtf.get(mipmap=m)
                levels[m] = (fr.width, fr.height, frame_bytes(fr))
        except Exception as exc:  # noqa: BLE001
            acc.fail('regen_error', case, f'{w}x{h} compute_mipmaps({mode.name}) raised {type(exc).__name__}: {exc}', exc=type(exc).__name__)
            continue
        for m in range(1, len(levels)):
            pw, ph, pp = levels[m - 1]
            cw, ch, cp = levels[m]
            if mode.name in ('BILINEAR', 'AVERAGE'):
                msg = check_mip_mean(pp, pw, ph, cp, cw, ch)
            else:
                ox, oy = CORNER['UPPER_LEFT' if mode.name == 'NEAREST' else mode.name]
                msg = None
                for y in range(ch):
                    for x in range(cw):
                        sx, sy = min(2 * x + ox, pw - 1), min(2 * y + oy, ph - 1)
                        want = pp[4 * (sy * pw + sx):4 * (sy * pw + sx) + 4]
                        got = cp[4 * (y * cw + x):4 * (y * cw + x) + 4]
                        if got != want and msg is None:
                            msg = f'pixel ({x}, {y}) is {tuple(got)}, the {mode.name} pixel of its parent block is {tuple(want)}'
            if msg:
                acc.fail('mip_filter', case, f'{w}x{h} compute_mipmaps({mode.name}) level {m}: {msg}', mode=mode.name)
                break
        else:
            try:
                buf = io.BytesIO()
                vtf.save(buf)
                rd = VTF.read(io.BytesIO(buf.getvalue()))
                for m in range(min(rd.mipmap_count, len(levels))):
                    if frame_bytes(rd.get(mipmap=m)) != levels[m][2]:
                        acc.fail('pixels', case, f'{w}x{h} pyramid generated with {mode.name}: level {m} read back differently', fmt='RGBA8888', plane='main', exact8=True)
                        break
            except Exception as exc:  # noqa: BLE001
                acc.fail('read_error', case, f'{w}x{h} pyramid generated with {mode.name}: save/read raised {type(exc).__name__}: {exc}', exc=type(exc).__name__)


RESCALE_SRC = [(8, 4), (4, 8), (8, 8), (2, 4), (4, 2), (4, 1), (1, 4), (16, 2), (2, 2), (1, 1), (6, 4)]


def check_rescale_pairs(acc: core.Acc) -> None:
    """Frame.rescale_from(larger, filter) between frames of two different textures: every source size of RESCALE_SRC x every
    allowed target (each dimension the same or exactly half) x every FilterMode, against the block rule (the named corner of the
    1x1 / 2x1 / 1x2 / 2x2 parent block, or its mean)."""
    from srctools.vtf import FilterMode
    for pw, ph in RESCALE_SRC:
        src = bytes(((x * 37 + y * 101 + c * 53) % 251) + (4 if c == 3 else 0) for y in range(ph) for x in range(pw) for c in range(4))
        for cw in sorted({pw, pw // 2} - {0}):
            for ch in sorted({ph, ph // 2} - {0}):
                if (cw != pw and 2 * cw != pw) or (ch != ph and 2 * ch != ph):
                    continue
                for mode in FilterMode:
                    acc.evaluations += 1
                    acc.nontrivial += 1
                    case = {'rescale': [pw, ph, cw, ch], 'filter': mode.name}
                    try:
                        a = VTF(pw, ph, fmt=ImageFormats.RGBA8888, thumb_fmt=ImageFormats.NONE) if pw & (pw - 1) == 0 and ph & (ph - 1) == 0 else None
                        if a is None:
                            continue        # texture sizes are powers of two
                        b = VTF(cw, ch, fmt=ImageFormats.RGBA8888, thumb_fmt=ImageFormats.NONE)
                        a.get().copy_from(src, ImageFormats.RGBA8888)
                        b.get().rescale_from(a.get(), mode)
                        got = frame_bytes(b.get())
                    except Exception as exc:  # noqa: BLE001
                        acc.fail('regen_error', case, f'{cw}x{ch}.rescale_from({pw}x{ph}, {mode.name}) raised {type(exc).__name__}: {exc}', exc=type(exc).__name__)
                        continue
                    fx, fy = pw // cw, ph // ch
                    if mode.name in ('BILINEAR', 'AVERAGE'):
                        msg = check_mip_mean(src, pw, ph, got, cw, ch)
                    else:
                        ox, oy = CORNER['UPPER_LEFT' if mode.name == 'NEAREST' else mode.name]
                        msg = None
                        for y in range(ch):
                            for x in range(cw):
                                sx, sy = fx * x + (ox if fx == 2 else 0), fy * y + (oy if fy == 2 else 0)
                                want = src[4 * (sy * pw + sx):4 * (sy * pw + sx) + 4]
                                g = got[4 * (y * cw + x):4 * (y * cw + x) + 4]
                                if g != want and msg is None:
                                    msg = f'pixel ({x}, {y}) is {tuple(g)}, the {mode.name} pixel of its {fx}x{fy} parent block is {tuple(want)}'
                    if msg:
                        acc.fail('mip_filter', case, f'{cw}x{ch}.rescale_from({pw}x{ph} frame of another texture, {mode.name}): {msg}', mode=mode.name)


def check_clear_levels(acc: core.Acc, w: int, h: int) -> None:
    """Frame.clear() on every subset of the levels below the top one of a stored pyramid: on save / compute_mipmaps each cleared
    level is regenerated from the level above it (documented on Frame.clear), the others keep their own content."""
    base = bytes(((x * 29 + y * 83 + c * 47) % 253) for y in range(h) for x in range(w) for c in range(4))
    probe = VTF(w, h, fmt=ImageFormats.RGBA8888, thumb_fmt=ImageFormats.NONE)
    nlev = probe.mipmap_count
    for mask in range(1, 1 << (nlev - 1)):
        for via in ('compute', 'save'):
            acc.evaluations += 1
            acc.nontrivial += 1
            case = {'clear_levels': mask, 'w': w, 'h': h, 'via': via}
            try:
                vtf = VTF(w, h, fmt=ImageFormats.RGBA8888, thumb_fmt=ImageFormats.NONE)
                custom = {}
                for m in range(nlev):
                    fr = vtf.get(mipmap=m)
                    data = base[:fr.width * fr.height * 4] if m == 0 else bytes((b + 40 * m) % 256 if i % 4 != 3 else 255 for i, b in enumerate(base[:fr.width * fr.height * 4]))
                    fr.copy_from(data, ImageFormats.RGBA8888)
                    custom[m] = data
                cleared = [m for m in range(1, nlev) if mask >> (m - 1) & 1]
                for m in cleared:
                    vtf.get(mipmap=m).clear()
                if via == 'compute':
                    vtf.compute_mipmaps()
                    got = {m: (vtf.get(mipmap=m).width, vtf.get(mipmap=m).height, frame_bytes(vtf.get(mipmap=m))) for m in range(nlev)}
                else:
                    buf = io.BytesIO()
                    vtf.save(buf)
                    rd = VTF.read(io.BytesIO(buf.getvalue()))
                    got = {m: (rd.get(mipmap=m).width, rd.get(mipmap=m).height, frame_bytes(rd.get(mipmap=m))) for m in range(min(nlev, rd.mipmap_count))}
            except Exception as exc:  # noqa: BLE001
                acc.fail('regen_error', case, f'{w}x{h} levels {cleared} cleared, {via}: raised {type(exc).__name__}: {exc}', exc=type(exc).__name__)
                continue
            for m in sorted(got):
                cw, ch, px = got[m]
                if m not in cleared:
                    if px != custom[m]:
                        acc.fail('regen_kept_level', case, f'{w}x{h} levels {cleared} cleared, {via}: untouched level {m} no longer holds its own content', fmt='RGBA8888')
                        break
                elif m - 1 in got:
                    pw, ph, pp = got[m - 1]
                    msg = check_mip_mean(pp, pw, ph, px, cw, ch)
                    if msg:
                        acc.fail('mip_mean', case, f'{w}x{h} levels {cleared} cleared, {via}: level {m} is not regenerated from level {m - 1}: {msg}',
                                 src='clear', shape=shape_of(w, h))
                        break


def check_fill(acc: core.Acc) -> None:
    """Frame.fill: frames filled with the same colour and size are independent of each other and of later fills."""
    acc.evaluations += 1
    acc.nontrivial += 1
    case = {'fill': True}
    vtf = VTF(8, 8, frames=3, fmt=ImageFormats.RGBA8888, thumb_fmt=ImageFormats.NONE)
    frames = [vtf.get(frame=i) for i in range(3)]
    frames[0].fill(40, 80, 120, 255)
    frames[1].fill(40, 80, 120, 255)
    frames[0][3, 5] = (255, 1, 2, 3)
    frames[2].fill(40, 80, 120, 255)
    want1 = bytes([40, 80, 120, 255]) * 64
    want0 = bytearray(want1)
    want0[4 * (5 * 8 + 3):4 * (5 * 8 + 3) + 4] = bytes([255, 1, 2, 3])
    for i, want in ((0, bytes(want0)), (1, want1), (2, want1)):
        if frame_bytes(frames[i]) != want:
            acc.fail('fill_shared', case, f'three 8x8 frames filled with one colour, pixel (3, 5) of frame 0 then edited: frame {i} holds '
                     f'{tuple(frame_bytes(frames[i])[4 * 43:4 * 43 + 4])} at (3, 5)')
            return
    buf = io.BytesIO()
    vtf.save(buf)
    rd = VTF.read(io.BytesIO(buf.getvalue()))
    for i, want in ((0, bytes(want0)), (1, want1), (2, want1)):
        if frame_bytes(rd.get(frame=i)) != want:
            acc.fail('pixels', case, f'filled frames: frame {i} read back differently', fmt='RGBA8888', plane='main', exact8=True)
            return


def weight(m: dict) -> int:
    cfg = full(m)
    n = cfg['w'] * cfg['h'] * cfg['frames'] * (7 if cfg['cube'] else cfg['depth'])
    slow = 1 if cfg['fmt'] in ('RGBA8888', 'ABGR8888', 'ARGB8888', 'BGRA8888', 'RGB888', 'BGR888') else 4
    return 40 + n * slow


def shard(cases: list) -> core.Acc:
    acc = core.Acc()
    for m in cases:
        if 'filter_size' in m:
            check_filters(acc, *m['filter_size'])
        elif 'fill' in m:
            check_fill(acc)
            check_rescale_pairs(acc)
        elif 'clear_size' in m:
            check_clear_levels(acc, *m['clear_size'])
        else:
            check_case(acc, m)
            # the same case once more after this process saved another texture, unsuccessfully and successfully
            if 'after' not in m:
                check_case(acc, dict(m, after='failed_save'))
                check_case(acc, dict(m, after='other_save'))
    return acc


def run(ctx: core.Ctx) -> None:
    cases, counts = enumerate_cases(ctx.quick)
    # balance: heaviest first, dealt round-robin into shards
    cases.sort(key=lambda m: (-weight(m), core.jdump(m)))
    nshards = max(1, min(len(cases), core.workers() * 24))
    shards = [cases[i::nshards] for i in range(nshards)]
    k = ctx.seed % len(shards)
    shards = shards[k:] + shards[:k]
    for i in range(6):
        ctx.acc.sample(shards[(i * 7) % len(shards)][-1])
    shards.append([{'filter_size': list(sz)} for sz in FILTER_SIZES] + [{'fill': True}])
    shards.append([{'clear_size': [16, 16]}, {'clear_size': [32, 8]}, {'clear_size': [4, 4]}])
    core.par_map(shard, shards, ctx.acc)
    for fam, n in sorted(counts.items()):
        ctx.acc.count('cases_' + fam, n)
    d = 2 if ctx.quick else 3
    ctx.rule = (
        f'configurations = records over {len(BASE)} dimensions (w, h in {SIZES}; frames; depth; cubemap; version 7.2-7.5; '
        f'{len(WRITABLE)} writable main formats; NONE + {len(WRITABLE)} thumbnail formats; {len(RES)} resource sets; {len(SHEETS)} sheet sets x '
        f'sheet version 0/1; each of the 31 non-ENVMAP flag bits; mips generated/explicit; pixel phase; reflectivity; bump scale; '
        f'first frame; save(version=) override; each case also after a failed and after a successful save of another, resource-rich texture in the same process; grey formats: one rounding rule per image; clear_mipmaps(after)+compute_mipmaps on the re-read file); compute_mipmaps(filter) for every FilterMode on 8 sizes against the documented corner / mean rule; Frame.rescale_from between frames of two textures for 10 source sizes x every allowed target x every FilterMode; Frame.fill independence; every subset of the lower levels of a stored pyramid cleared with Frame.clear() then regenerated by compute_mipmaps() / save().  Enumerated: every record deviating from the base '
        f'(4x4, 1 frame, RGBA8888, no thumbnail, 7.5) in <= {d} dimensions, each to every alternative value, and in <= {d + 2} dimensions '
        f'over a reduced menu of boundary values ({sum(len(v) for v in ALTS_DEEP.values())} values in {len(ALTS_DEEP)} dimensions)'
        + ('' if ctx.quick else f', and in <= 4 dimensions over a medium menu ({sum(len(v) for v in ALTS_MID.values())} values in {len(ALTS_MID)} dimensions)') +
        f'; the full product '
        f'w x h x layout(flat, depth 2, cubemap) x version x frames(1,2) x formats({4 if ctx.quick else len(WRITABLE)}) x mip modes(2); '
        f'a codec sweep (every writable format as main image on 16x16{"" if ctx.quick else ", 32x32, 32x8"} and as 16x16 thumbnail x '
        f'{8 if ctx.quick else NPHASE} pixel phases + special pixels; 256 consecutive pattern pixels carry every byte value in every channel, all pixels distinct).  '
        f'Each distinct record is executed once (families are merged and de-duplicated).  Non-trivial = the file was saved, read back and at least one frame '
        f'was compared pixel by pixel.  Representability rules: resources/sheets expected empty when written as 7.2 (no resource table); '
        f'resource flag bit 0x02 is forced by the format to match the value type (inline integer / data block), all other bits must survive; sheet version 0 keeps one coordinate set per frame; '
        f'floats compared with their float32 image; cubemap with depth 2 must be rejected with ValueError; thumbnail pixels are set through the private '
        f'_low_res frame (no public accessor) unless a 32x32 level regenerates them.')
    ctx.assumptions.append('DXT/ATI formats cannot be written by the pure-Python codecs and are not exercised (save -> read property only)')
    ctx.assumptions.append('on-disk layout is only cross-checked for the fixed header, the resource table offsets and the image section length; '
                           'a symmetric error of a codec pair (same wrong byte order in save_x and load_x) is invisible to a round trip')


def replay(case: dict) -> list:
    acc = core.Acc()
    if 'rescale' in case:
        check_rescale_pairs(acc)
        return [f for f in acc.all_failures() if f.case.get('rescale') == case['rescale'] and f.case.get('filter') == case['filter']]
    if 'filter' in case:
        check_filters(acc, case['w'], case['h'])
        return [f for f in acc.all_failures() if f.case.get('filter') == case['filter']]
    if 'fill' in case:
        check_fill(acc)
        return acc.all_failures()
    if 'clear_levels' in case:
        check_clear_levels(acc, case['w'], case['h'])
        return [f for f in acc.all_failures() if f.case.get('clear_levels') == case['clear_levels'] and f.case.get('via') == case['via']]
    check_case(acc, case)
    return acc.all_failures()
