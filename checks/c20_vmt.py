"""C20 / vmt — materials: Material.export -> Material.parse."""
from __future__ import annotations

import io
import os
from typing import Any

from srctools.keyvalues import Keyvalues
from srctools.vmt import Material

from mcv import core
from checks.c20_cmdseq import Explorer, Result, excs

PART = 'vmt'

# ---------------------------------------------------------------------------------------------
# descriptors: params = [[name, value], ...]; tree node = [name, str] (leaf) or [name, [nodes]] (block)


def _kv(node: list) -> Keyvalues:
    name, val = node
    if isinstance(val, list):
        return Keyvalues(name, [_kv(c) for c in val])
    return Keyvalues(name, val)


def model(s: dict) -> dict:
    """Plain-data description of the material a setting denotes."""
    params = [['$basetexture', 'tools/toolsskybox'], [s['pname'], s['pvalue']], ['%compilenodraw', '1']][:s['n_params']]
    if s['n_params'] == 1:
        params = [[s['pname'], s['pvalue']]]
    leaf = [s['bleaf_name'], s['bleaf_value']]
    inner = {
        'leaf_and_nested': [leaf, ['nested', [['$a', '1']]]],
        'leaf_only': [leaf],
        'empty': [],
        'deep': [leaf, ['n1', [['n2', [['n3', [['$deep', 'x y']]], ['$mid', '2']]]]], ['tail', 't']],
        'nested_empty': [leaf, ['nested', []]],
        'dup_keys': [leaf, ['$dup', '1'], ['$dup', '2'], ['blk', [['a', '1']]], ['blk', [['a', '2']]]],
    }[s['bshape']]
    blocks = [[s['bname'], inner], ['replace', [['$basetexture', 'other/tex'], ['inner', [['x', 'y']]]]]]
    n = s['n_blocks']
    blocks = blocks[:n] if n <= 2 else blocks + [[s['bname'], [['second', 'same name']]]]
    pleaf = [s['pxleaf_name'], s['pxleaf_value']]
    pinner = {
        'leaves': [['sineperiod', '2.3'], pleaf, ['resultVar', '$selfillumscale[0]']],
        'empty': [],
        'nested': [pleaf, ['sub', [['a', 'b'], ['subsub', [['c', 'd e']]]]]],
        'single': [pleaf],
    }[s['pxshape']]
    proxies = [[s['pxname'], pinner], ['TextureScroll', [['textureScrollVar', '$basetexturetransform'],
                                                        ['textureScrollRate', '.25']]],
               [s['pxname'], [['again', '1']]]][:s['n_proxies']]
    if len({name.casefold() for name, _ in params}) != len(params):
        raise ValueError('harness: parameter names collide')
    return {'shader': s['shader'], 'params': params, 'blocks': blocks, 'proxies': proxies}


def construct(mdl: dict) -> Material:
    mat = Material(mdl['shader'])
    for name, value in mdl['params']:
        mat[name] = value
    mat.blocks.extend(_kv(b) for b in mdl['blocks'])
    mat.proxies.extend(_kv(p) for p in mdl['proxies'])
    return mat


def _exp_tree(node: list) -> tuple:
    name, val = node
    if isinstance(val, list):
        return (name, [_exp_tree(c) for c in val])
    return (name, ('str', val))


def expected(mdl: dict) -> dict:
    """What observe() must yield, computed from the plain data."""
    return {
        'shader': mdl['shader'],
        'params': [(name, ('str', value)) for name, value in mdl['params']],
        'blocks': [_exp_tree(b) for b in mdl['blocks']],
        'proxies': [_exp_tree(p) for p in mdl['proxies']],
    }


# ---------------------------------------------------------------------------------------------
# observer

def _obs_kv(kv: Any) -> Any:
    if not isinstance(kv, Keyvalues):
        return ('NOT-KV', repr(kv))
    if kv.has_children():
        return (kv.real_name, [_obs_kv(c) for c in kv])
    return (kv.real_name, (type(kv.value).__name__, kv.value))


def observe(mat: Material) -> dict:
    return {
        'shader': mat.shader,
        # original-case name and value of every parameter, in order (not Material.__eq__/Mapping equality,
        # which only sees the names)
        'params': [(v.name, (type(v.value).__name__, v.value)) for v in mat._params.values()],
        'blocks': [_obs_kv(b) for b in mat.blocks],
        'proxies': [_obs_kv(p) for p in mat.proxies],
    }


def roundtrip(mat: Material, res: Result, what: str, want: Any = None) -> None:
    if want is None:
        want = observe(mat)
    elif observe(mat) != want:
        held = observe(mat)
        diffs = [f'{k}: given {want[k]!r}\n   holds {held[k]!r}' for k in want if want[k] != held[k]]
        res.fail('vmt_value_mismatch', f'{what}: the constructed Material does not hold the given value: '
                 + '\n '.join(diffs)[:1100])
        return
    buf = io.StringIO()
    try:
        mat.export(buf)
    except Exception as exc:  # noqa: BLE001
        res.fail('vmt_write_error', f'{what}: export raised {excs(exc)}')
        return
    text = res.out = buf.getvalue()
    try:
        back = Material.parse(text, 'c20.vmt')
    except Exception as exc:  # noqa: BLE001
        res.fail('vmt_read_error', f'{what}: Material.parse(export(x)) raised {excs(exc)}\n--- written ---\n{text[:900]}')
        return
    res.compared = True
    got = observe(back)
    if got != want:
        diffs = [f'{k}: wrote {want[k]!r}\n   read {got[k]!r}' for k in want if want[k] != got[k]]
        res.fail('vmt_value_mismatch', f'{what}: ' + '\n '.join(diffs)[:1100] + f'\n--- written ---\n{text[:700]}')
        return
    buf2 = io.StringIO()
    try:
        back.export(buf2)
    except Exception as exc:  # noqa: BLE001
        res.fail('vmt_rewrite_differs', f'{what}: second export raised {excs(exc)}')
        return
    if buf2.getvalue() != text:
        res.fail('vmt_rewrite_differs', f'{what}: export(parse(export(x))) differs\n--- first ---\n{text[:600]}\n'
                                        f'--- second ---\n{buf2.getvalue()[:600]}')


# ---------------------------------------------------------------------------------------------
# features

# Text classes.  Representable in a VMT = any text without the double-quote character (the reader runs with
# escapes disabled, so nothing can stand for it) and without CR/LF; everything else can be carried by a quoted token.
TEXTS = [
    ('empty', ''),
    ('space', 'a b'),
    ('vector', '[.4 .8 .12]'),
    ('bracket_nospace', '[1]'),
    ('color_braces', '{255 128 0}'),
    ('parens', '(x)'),
    ('backslash', 'models\\props\\tex'),
    ('trailing_backslash', 'folder\\'),
    ('apostrophe', "it's"),
    ('tab', 'a\tb'),
    ('lead_slash', '/models/tex'),
    ('only_slash', '/'),
    ('mid_dslash', 'http://host/x'),
    ('lead_dslash', '//comment-like'),
    ('lead_star_comment', '/*x*/y'),
    ('mid_star_comment', 'a/*b*/c'),
    ('lead_hash', '#include'),
    ('mid_hash', 'a#b'),
    ('semicolon', 'a;b'),
    ('equals', 'a=b'),
    ('comma', '1,2'),
    ('colon_plus', 'a:b+c'),
    ('lead_space', ' lead'),
    ('trail_space', 'trail '),
    ('non_ascii', 'café'),
    ('long', 'x' * 300),
]
# coarse classes for failure signatures: what the text demands of a writer
CLASS_OF = {
    'backslash': 'escapable', 'trailing_backslash': 'escapable', 'apostrophe': 'escapable', 'tab': 'escapable',
    'lead_slash': 'lead_special', 'only_slash': 'lead_special', 'lead_dslash': 'lead_special',
    'lead_star_comment': 'lead_special', 'lead_hash': 'lead_special',
}
TEXTS = [(CLASS_OF.get(variant, variant), text) for variant, text in TEXTS]
NAME_TEXTS = [t for t in TEXTS if t[0] not in ('long',)]
# values may span lines (names are single-line by the format): a line break at the end, in the middle, alone, doubled.
# (LF only: the format has no escapes and every reader normalises CR / CR-LF to LF, so a carriage return is not representable)
VALUE_TEXTS = TEXTS + [('line_break', 'concrete/wall01\n'), ('line_break', 'a\nb'), ('line_break', '\n'), ('line_break', 'x\n\n'), ('line_break', 'two words\n'),
                       ('line_break', '\nlead')]

FEATURES: dict = {
    'shader': [('plain', 'LightmappedGeneric'), ('len1', 'a'), ('patch', 'Patch'), ('dots', 'SDK_Shader.v1-2'),
               ('needs_quotes', 'My Shader'), ('lead_special', '/Shader'), ('lead_special', '#Shader'),
               ('needs_quotes', 'Sha{der'), ('needs_quotes', "Sha'der"), ('non_ascii', 'Shäder')],
    'n_params': [('three', 3), ('none', 0), ('one', 1), ('two', 2)],
    'pname': [('plain', '$surfaceprop'), ('upper', '$SurfaceProp'), ('no_sigil', 'surfaceprop'),
              ('flag_prefix', '!srgb?$detail'), ('index', '$color2[1]')] + NAME_TEXTS,
    'pvalue': [('plain', 'dirt'), ('number', '.5'), ('var', '$other')] + VALUE_TEXTS,
    'n_blocks': [('one', 1), ('none', 0), ('two', 2), ('three_same_name', 3)],
    'bname': [('plain', '>=dx90_20b'), ('insert', 'insert'), ('case', 'LightmappedGeneric_DX8'), ('space', 'a b'),
              ('lead_special', '/blk'), ('escapable', 'a\\b'), ('escapable', "it's"), ('lead_special', '#blk')],
    'bshape': [('leaf_and_nested', 'leaf_and_nested'), ('leaf_only', 'leaf_only'), ('empty', 'empty'),
               ('deep', 'deep'), ('nested_empty', 'nested_empty'), ('dup_keys', 'dup_keys')],
    'bleaf_name': [('plain', '$bumpmap'), ('upper', '$BumpMap')] + NAME_TEXTS,
    'bleaf_value': [('plain', 'tex/normal')] + VALUE_TEXTS,
    'n_proxies': [('one', 1), ('none', 0), ('two', 2), ('three_same_name', 3)],
    'pxname': [('plain', 'Sine'), ('space', 'My Proxy'), ('proxies', 'Proxies'), ('case', 'textureSCROLL'),
               ('escapable', 'a\\b'), ('escapable', "it's")],
    'pxshape': [('leaves', 'leaves'), ('empty', 'empty'), ('nested', 'nested'), ('single', 'single')],
    'pxleaf_name': [('plain', 'sinemin'), ('upper', 'SineMin')] + NAME_TEXTS,
    'pxleaf_value': [('plain', '0')] + VALUE_TEXTS,
}


def inert(dev: dict) -> bool:
    def val(f: str) -> Any:
        return FEATURES[f][dev.get(f, 0)][1]
    if val('n_params') == 0 and ('pname' in dev or 'pvalue' in dev):
        return True
    if val('n_blocks') == 0 and any(f in dev for f in ('bname', 'bshape', 'bleaf_name', 'bleaf_value')):
        return True
    if val('bshape') == 'empty' and ('bleaf_name' in dev or 'bleaf_value' in dev):
        return True
    if val('n_proxies') == 0 and any(f in dev for f in ('pxname', 'pxshape', 'pxleaf_name', 'pxleaf_value')):
        return True
    if val('pxshape') == 'empty' and ('pxleaf_name' in dev or 'pxleaf_value' in dev):
        return True
    return False


def evaluate(setting: dict) -> Result:
    res = Result()
    mdl = model(setting)
    try:
        mat = construct(mdl)
    except Exception as exc:  # noqa: BLE001
        res.fail('vmt_write_error', f'constructing Material raised {excs(exc)}')
        return res
    roundtrip(mat, res, 'generated value', expected(mdl))
    return res


GROUPS = {'pname': 'param_name', 'pvalue': 'param_value', 'bname': 'tree_block_name', 'pxname': 'tree_block_name',
          'bleaf_name': 'tree_leaf_name', 'pxleaf_name': 'tree_leaf_name',
          'bleaf_value': 'tree_leaf_value', 'pxleaf_value': 'tree_leaf_value'}
EXPLORER = Explorer(PART, FEATURES, evaluate, inert, GROUPS)


# ---------------------------------------------------------------------------------------------
# sample files under tests/

def sample_files() -> list:
    root = os.path.join(core.REPO, 'tests')
    out = []
    for sub in ('test_vmt', 'test_vtf'):
        d = os.path.join(root, sub)
        if os.path.isdir(d):
            out += [f'{sub}/{n}' for n in sorted(os.listdir(d)) if n.endswith('.vmt')]
    return out


def check_sample(acc: core.Acc, rel: str) -> None:
    res = Result()
    case = {'part': PART, 'file': rel}
    try:
        with open(os.path.join(core.REPO, 'tests', rel), encoding='utf8') as f:
            mat = Material.parse(f, rel)
    except Exception as exc:  # noqa: BLE001
        res.fail('vmt_read_error', f'tests/{rel}: Material.parse raised {excs(exc)}')
    else:
        roundtrip(mat, res, f'value parsed from tests/{rel}')
    acc.evaluations += 1
    if res.compared:
        acc.nontrivial += 1
    acc.outcome((PART, tuple(k for k, _ in res.fails) or 'ok', 'file:' + rel))
    for kind, detail in res.fails:
        acc.fail(kind, case, f'[vmt] {detail}', part=PART, cause='sample_file')


def _sample_shard(rels: list) -> core.Acc:
    acc = core.Acc()
    for rel in rels:
        check_sample(acc, rel)
    return acc


RULE = ''


def run(ctx: core.Ctx) -> None:
    global RULE
    d = ctx.pick(2, 3)
    files = sample_files()
    core.par_map(_sample_shard, list(core.chunked(files, 8)), ctx.acc)
    if not files:
        ctx.acc.caps.append('vmt: no sample .vmt file found under tests/')
    n = EXPLORER.explore(ctx, d, chunk=ctx.pick(150, 1500))
    RULE = (
        f'Material.export -> Material.parse on the base material (3 parameters, 1 fallback block with a leaf and a nested '
        f'block, 1 proxy) + every choice of <= {d} of {len(FEATURES)} features set to each non-base value ({n} values). '
        f'Features: shader name (plain, dotted, with space, leading / or #, brace, apostrophe, non-ASCII); 0-3 parameters; '
        f'parameter name and value, block leaf name and value, proxy leaf name and value each over {len(TEXTS)} text classes '
        f'(empty, space, [vector], [1], {{color}}, (parens), backslashes incl. trailing, apostrophe, tab, leading / and //, '
        f'lone /, /* */ at start and inside, leading and inner #, ; = , : +, leading/trailing space, non-ASCII, 300 chars) plus '
        f'case / ?-flag / [index] name forms; 0-3 blocks incl. two of the same name, block names incl. space, backslash, '
        f'leading / or #; block shapes (leaf only, empty, nested 3 deep, nested empty, duplicate keys); 0-3 proxies incl. a '
        f'proxy called Proxies; proxy shapes (empty, nested). Representable = text without the double-quote character (the '
        f'reader disables escapes, nothing can stand for it) and without CR/LF; shader name non-empty; entries of '
        f'Material.blocks / .proxies are blocks, not leaves, and no top-level block is called Proxies. Oracle: harness '
        f'observer (shader; every parameter\'s original-case name and value in order; blocks and proxies as ordered trees '
        f'of real names and values); export(parse(export(x))) text-identical. Plus all {len(files)} .vmt files under '
        f'tests/test_vmt and tests/test_vtf: value parsed from the file must be a fixed point. Non-trivial = reader '
        f'returned a value that was compared.')
    ctx.rule = RULE


def replay(case: dict) -> list:
    if 'file' in case:
        acc = core.Acc()
        check_sample(acc, case['file'])
        return acc.all_failures()
    return EXPLORER.replay(case)
