"""C06 — VMF export/parse round trip is a fixed point and loses no map content.

All subsets of <= k atomic features of the generator lattice (checks/vmfgen.py) x export options
(minimal, disp_multiblend) x parse option preserve_ids, plus every .vmf under tests/.
Oracle: (1) text fixed point t1 == t2 (IDs renumbered consistently when not preserved);
(2) an independent observer of the object graph, with the property's numeric tolerances.
"""
from __future__ import annotations

import glob
import itertools
import os
import re

from srctools.keyvalues import Keyvalues
from srctools.vmf import VMF

from mcv import core
from checks import vmfgen

PROPERTY = 'C06'
LEVEL = 'exploration'

ID_LINE = re.compile(r'^(\s*)"(id|groupid|visgroupid)" "(-?\d+)"$')
BLOCK_LINE = re.compile(r'^\s*([A-Za-z_]+)$')


def normalise_ids(text: str) -> str:
    """Renumber IDs by order of first occurrence, per kind (kind = enclosing block for "id")."""
    maps: dict = {}
    stack: list = []
    pending = None
    out = []
    for line in text.split('\n'):
        m = ID_LINE.match(line)
        if m:
            key = m.group(2)
            if key == 'id':
                blk = stack[-1] if stack else ''
                kind = {'world': 'ent', 'entity': 'ent', 'solid': 'solid', 'side': 'face', 'group': 'group'}.get(blk, blk)
            elif key == 'groupid':
                kind = 'group'
            else:
                kind = 'visgroup'
            mp = maps.setdefault(kind, {})
            new = mp.setdefault(m.group(3), len(mp) + 1)
            out.append(f'{m.group(1)}"{key}" "#{new}"')
            continue
        b = BLOCK_LINE.match(line)
        if b:
            pending = b.group(1)
        elif line.strip() == '{':
            stack.append(pending or '')
            pending = None
        elif line.strip() == '}':
            if stack:
                stack.pop()
        out.append(line)
    return '\n'.join(out)


def check_map(acc: core.Acc, make, case: dict, sig: dict) -> None:
    for minimal, multiblend, preserve in itertools.product((False, True), (True, False), (True, False)):
        acc.evaluations += 1
        opts = {'minimal': minimal, 'disp_multiblend': multiblend, 'preserve_ids': preserve}
        c = dict(case, opts=opts)
        try:
            m = make()
        except Exception as exc:  # noqa: BLE001
            acc.fail('harness_build_failed', c, f'{case}: building the map raised {type(exc).__name__}: {exc}', **sig)
            return
        try:
            obs0 = vmfgen.observe(m, minimal, multiblend)
            t1 = m.export(inc_version=False, minimal=minimal, disp_multiblend=multiblend)
        except Exception as exc:  # noqa: BLE001
            acc.fail('export_raises', c, f'{case} {opts}: export raised {type(exc).__name__}: {exc}', stage='export', **sig)
            continue
        obs_after = vmfgen.observe(m, minimal, multiblend)
        d = vmfgen.diff(obs0, obs_after, vmfgen.IdMap(True))
        if d:
            acc.fail('export_mutates_map', c, f'{case} {opts}: export changed the map: {d[:3]}', stage='export',
                     where=vmfgen.generalise(d[0][0]), **sig)
        try:
            m2 = VMF.parse(Keyvalues.parse(t1), preserve_ids=preserve)
        except Exception as exc:  # noqa: BLE001
            acc.fail('reparse_raises', c, f'{case} {opts}: parsing the exported text raised {type(exc).__name__}: {str(exc)[:300]}',
                     stage='parse', exc=type(exc).__name__, msg=re.sub(r'\d+', 'N', str(exc))[:60], **sig)
            continue
        try:
            t2 = m2.export(inc_version=False, minimal=minimal, disp_multiblend=multiblend)
        except Exception as exc:  # noqa: BLE001
            acc.fail('reexport_raises', c, f'{case} {opts}: exporting the re-parsed map raised {type(exc).__name__}: {exc}', stage='export2', **sig)
            continue
        a, b = (t1, t2) if preserve else (normalise_ids(t1), normalise_ids(t2))
        if a != b:
            la, lb = a.split('\n'), b.split('\n')
            i = next((i for i, (x, y) in enumerate(zip(la, lb)) if x != y), min(len(la), len(lb)))
            key = (la[i] if i < len(la) else '<eof>').strip().split('" "')[0].strip('"\t ')
            acc.fail('text_not_fixed_point', c, f'{case} {opts}: second export differs at line {i}:\n  1st: {la[i-1:i+2]}\n  2nd: {lb[i-1:i+2]}',
                     stage='text', line_key=key[:30], **sig)
        if not minimal and multiblend and preserve:
            # the other documented way in: VMF.parse(<file name>) reads and parses the file itself
            acc.evaluations += 1
            fn = os.path.join('/dev/shm', f'verif-C06-{os.getpid()}.vmf')
            try:
                with open(fn, 'w', encoding='utf8', newline='') as f:
                    f.write(t1)
                m3 = VMF.parse(fn, preserve_ids=True)
                t3 = m3.export(inc_version=False, minimal=minimal, disp_multiblend=multiblend)
                if t3 != t2:
                    l3, l2 = t3.split('\n'), t2.split('\n')
                    i = next((i for i, (x, y) in enumerate(zip(l3, l2)) if x != y), min(len(l3), len(l2)))
                    acc.fail('parse_route_differs', c, f'{case} {opts}: VMF.parse(file name) and VMF.parse(Keyvalues.parse(text)) of the same text export '
                             f'differently at line {i}: {l3[i-1:i+2]} vs {l2[i-1:i+2]}', stage='parse', **sig)
            except Exception as exc:  # noqa: BLE001
                acc.fail('parse_route_differs', c, f'{case} {opts}: VMF.parse(file name) raised {type(exc).__name__}: {str(exc)[:300]}', stage='parse', **sig)
            finally:
                try:
                    os.unlink(fn)
                except OSError:
                    pass
        obs2 = vmfgen.observe(m2, minimal, multiblend)
        d = vmfgen.diff(obs0, obs2, vmfgen.IdMap(preserve))
        if d:
            acc.fail('content_lost', c, f'{case} {opts}: re-parsed map differs from the original at {d[:4]}', stage='observer',
                     where=vmfgen.generalise(d[0][0]), **sig)
        acc.outcome((len(t1) // 200, minimal, multiblend, preserve))


def shard(spec) -> core.Acc:
    acc = core.Acc()
    if spec[0] == 'subsets':
        for names in spec[1]:
            acc.nontrivial += 1
            check_map(acc, lambda: vmfgen.build(names), {'features': list(names)}, {'gen': 'lattice'})
        acc.sample({'features': list(spec[1][-1])}, 1)
    else:
        path = spec[1]
        with open(path, encoding='cp1251') as f:
            text = f.read()
        acc.nontrivial += 1
        check_map(acc, lambda: VMF.parse(Keyvalues.parse(text), preserve_ids=True), {'file': os.path.relpath(path, core.REPO)},
                  {'gen': 'file'})
        acc.sample({'file': os.path.relpath(path, core.REPO)}, 1)
    return acc


def run(ctx: core.Ctx) -> None:
    names = [n for n, _ in vmfgen.FEATURES]
    k = ctx.pick(2, 3)
    subsets = [c for r in range(0, k + 1) for c in itertools.combinations(names, r)]
    shards = [('subsets', chunk) for chunk in core.chunked(subsets, 12)]
    files = sorted(glob.glob(os.path.join(core.REPO, 'tests', '**', '*.vmf'), recursive=True))
    shards += [('file', p) for p in files]
    s = ctx.seed % len(shards)
    core.par_map(shard, shards[s:] + shards[:s], ctx.acc)
    ctx.coverage_extra.update({'features': len(names), 'subsets': len(subsets), 'vmf_files': len(files)})
    ctx.rule = (f'every subset of <= {k} of {len(names)} atomic map features ({len(subsets)} maps, each built through the public API) x '
                f'minimal x disp_multiblend x preserve_ids (8 combinations), plus the {len(files)} .vmf files under tests/; export -> '
                f'parse -> export must be a text fixed point (IDs renumbered per kind by first occurrence when not preserved) and an '
                f'observer that never calls export must see the same map (5e-7 for coordinates/axes, 6 significant digits for '
                f'rotation/delay/multiblend).  Representability: outputs never contain their own separator, instance names are None or '
                f'non-empty, fixup names have no space, numbers are finite; triangle tags of the last displacement row/column (no '
                f'quad) and group/visgroup membership of brushes inside entities are documented as not stored.  Non-trivial = every map.')


def replay(case: dict) -> list:
    acc = core.Acc()
    if 'features' in case:
        names = case['features']
        check_map(acc, lambda: vmfgen.build(names), {'features': list(names)}, {'gen': 'lattice'})
    else:
        path = os.path.join(core.REPO, case['file'])
        with open(path, encoding='cp1251') as f:
            text = f.read()
        check_map(acc, lambda: VMF.parse(Keyvalues.parse(text), preserve_ids=True), {'file': case['file']}, {'gen': 'file'})
    return acc.all_failures()
