"""C20 / smd — SMD meshes: Mesh.export -> Mesh.parse_smd."""
from __future__ import annotations

import io
import math
from typing import Any

from srctools.math import Angle, Vec
from srctools.smd import Bone, BoneFrame, Mesh, Triangle, Vertex

from mcv import core
from checks.c20_cmdseq import Explorer, Result, excs

PART = 'smd'


# ---------------------------------------------------------------------------------------------
# representable numbers
#   The format stores every real as decimal text with 6 fractional digits and rotations in radians.
#   A float is representable iff it is the float its own 6-digit text denotes; a rotation component
#   (degrees, as the object model holds it) iff it is exactly what the reader computes from a 6-digit
#   radian text and the writer's radian text for it is that same text.  The harness decides both with
#   its own arithmetic below and refuses (HarnessError) to use anything else.

class HarnessError(Exception):
    pass


def fnum(x: float) -> float:
    x = float(x)
    if float('%.6f' % x) != x:
        raise HarnessError(f'{x!r} is not representable with 6 decimals')
    return x


def deg_of(rad_text: str) -> float:
    deg = math.degrees(float(rad_text))
    if not (0.0 <= deg < 360.0) or '%.6f' % math.radians(deg) != rad_text:
        raise HarnessError(f'radian text {rad_text} does not denote a representable rotation')
    return deg


# ---------------------------------------------------------------------------------------------
# descriptors -> Mesh
#   bones: [[name, parent index or None], ...] in dict order (parent index refers to this list)
#   frames: [[time, [[bone index, pos key, rot key], ...]], ...] in dict insertion order
#   links: [[bone index, weight], ...]; bone indices are taken modulo the number of bones

POS = {
    'p0': (1.0, 2.0, 3.0), 'p1': (0.0, 0.0, 0.0), 'p2': (-1.5, 0.000001, 1234.5),
    'p3': (123456.789062, -0.5, 16384.0), 'p4': (-0.000001, 99.999999, -4096.25),
}
ROT = {
    'r0': ('0.000000', '0.000000', '0.000000'), 'r1': ('1.570796', '3.141593', '0.000001'),
    'r2': ('6.283185', '0.523599', '4.712389'), 'r3': ('0.000000', '2.000000', '0.000000'),
}
VERT = {
    # pos, normal, u, v
    'v0': ((16.0, -16.0, 0.0), (0.0, 0.0, 1.0), 0.5, 0.25),
    'v1': ((-1.5, 0.000001, 1234.5), (0.0, -1.0, 0.0), -0.25, 1.75),
    'v2': ((0.0, 0.0, 0.0), (0.0, 0.0, 0.0), 0.0, 0.0),
    'v3': ((123456.789062, -0.000001, 7.0), (0.577350, 0.577350, -0.577350), 0.999999, 0.000001),
}


def model(s: dict) -> dict:
    """Plain-data description of the mesh a setting denotes; every number already checked representable.
       bones: [[name, parent index|None]]; frames: [[time, [[bone index, (x,y,z), (pitch,yaw,roll) degrees]]]];
       tris: [[material, [[pos, norm, u, v, [[bone index, weight]]] x 3]]]"""
    bones = [list(b) for b in s['bones']]
    n = len(bones)
    bones[s['renamed_bone'] % n][0] = s['bone_name']
    if len({b[0] for b in bones}) != n:
        raise HarnessError('duplicate bone names')
    frames = []
    for time, rows in s['frames']:
        frames.append([time, [
            [bi % n,
             tuple(fnum(x) for x in POS[s['pos'] if k == 0 else pk]),
             tuple(deg_of(t) for t in ROT[s['rot'] if k == 0 else rk])]
            for k, (bi, pk, rk) in enumerate(rows)
        ]])

    def vert(key: str, links: list) -> list:
        pos, norm, u, v = VERT[key]
        return [tuple(fnum(x) for x in pos), tuple(fnum(x) for x in norm), fnum(u), fnum(v),
                [[bi % n, fnum(w)] for bi, w in links]]

    tris = []
    for t in range(s['n_tris']):
        if t == 0:
            tris.append([s['mat'], [vert(s['vert'], s['links0']), vert('v1', [[0, 1.0]]), vert('v2', s['links2'])]])
        else:
            tris.append([f'filler/mat_{t}', [vert('v2', [[t, 1.0]]), vert('v0', [[0, 1.0]]), vert('v1', [[n - 1, 1.0]])]])
    return {'bones': bones, 'frames': frames, 'tris': tris, 'bone_objects': s.get('bone_objects', 'shared')}


def construct(mdl: dict) -> Mesh:
    spec = mdl['bones']
    objs: list = [None] * len(spec)

    def make(i: int) -> Bone:
        if objs[i] is None:
            name, par = spec[i]
            objs[i] = Bone(name, None if par is None else make(par))
        return objs[i]
    for i in range(len(spec)):
        make(i)
    mesh_bones = list(objs)
    # a mesh assembled from parts of several files (reference skeleton + animation + geometry): the poses / vertex links then
    # refer to Bone objects that are equal to, but not the same objects as, the ones in Mesh.bones
    how = mdl.get('bone_objects', 'shared')
    anim_bones = link_bones = mesh_bones
    if how in ('anim_copies', 'all_copies'):
        objs = [None] * len(spec)
        for i in range(len(spec)):
            make(i)
        anim_bones = list(objs)
    if how in ('link_copies', 'all_copies'):
        objs = [None] * len(spec)
        for i in range(len(spec)):
            make(i)
        link_bones = list(objs)
    anim = {time: [BoneFrame(anim_bones[bi], Vec(*pos), Angle(*rot)) for bi, pos, rot in rows] for time, rows in mdl['frames']}
    tris = [Triangle(mat, *[Vertex(Vec(*pos), Vec(*norm), u, v, [(link_bones[bi], w) for bi, w in links])
                            for pos, norm, u, v, links in verts])
            for mat, verts in mdl['tris']]
    return Mesh({b.name: b for b in mesh_bones}, anim, tris)


def expected(mdl: dict) -> dict:
    """What observe() must yield, computed from the plain data (names instead of bone indices)."""
    spec = mdl['bones']

    def nm(i: int) -> str:
        return spec[i][0]
    return {
        'bones': sorted((name, (name, None if par is None else nm(par))) for name, par in spec),
        'animation': sorted((time, [(nm(bi), tuple(pos), tuple(rot)) for bi, pos, rot in rows]) for time, rows in mdl['frames']),
        'triangles': [(mat, [(tuple(pos), tuple(norm), u, v, [(nm(bi), w) for bi, w in links])
                             for pos, norm, u, v, links in verts]) for mat, verts in mdl['tris']],
    }


# ---------------------------------------------------------------------------------------------
# observer

def _f(x: Any) -> Any:
    return x if type(x) is float else ('BAD-TYPE', repr(x))


def _vec(v: Any) -> tuple:
    return (_f(v.x), _f(v.y), _f(v.z))


def _ang(a: Any) -> tuple:
    return (_f(a.pitch), _f(a.yaw), _f(a.roll))


def observe(mesh: Mesh) -> dict:
    # The bone table is a mapping name -> Bone; its iteration order is not part of the value (the writer numbers
    # bones parents-first).  Bones are observed as name -> parent name; every reference to a bone by its name.
    bones = {}
    for key, b in mesh.bones.items():
        bones[key] = (b.name, b.parent.name if b.parent is not None else None)
    return {
        'bones': sorted(bones.items()),
        'animation': sorted(
            (t, [(f.bone.name, _vec(f.position), _ang(f.rotation)) for f in frame])
            for t, frame in mesh.animation.items()
        ),
        'triangles': [
            (t.mat, [(_vec(v.pos), _vec(v.norm), _f(v.tex_u), _f(v.tex_v), [(b.name, _f(w)) for b, w in v.links])
                     for v in (t.point1, t.point2, t.point3)])
            for t in mesh.triangles
        ],
    }


def roundtrip(mesh: Mesh, res: Result, what: str, want: Any = None) -> None:
    if want is None:
        want = observe(mesh)
    elif observe(mesh) != want:
        held = observe(mesh)
        diffs = [f'{k}: given {want[k]!r}\n   holds {held[k]!r}' for k in want if want[k] != held[k]]
        res.fail('smd_value_mismatch', f'{what}: the constructed Mesh does not hold the given value: '
                 + '\n '.join(diffs)[:1100])
        return
    buf = io.BytesIO()
    try:
        mesh.export(buf)
    except Exception as exc:  # noqa: BLE001
        res.fail('smd_write_error', f'{what}: export raised {excs(exc)}')
        return
    data = res.out = buf.getvalue()
    shown = data.decode('ascii', 'replace')
    try:
        back = Mesh.parse_smd(io.BytesIO(data))
    except Exception as exc:  # noqa: BLE001
        res.fail('smd_read_error', f'{what}: parse_smd(export(x)) raised {excs(exc)}\n--- written ---\n{shown[:1200]}')
        return
    res.compared = True
    got = observe(back)
    if got != want:
        diffs = [f'{k}: wrote {want[k]!r}\n   read {got[k]!r}' for k in want if want[k] != got[k]]
        res.fail('smd_value_mismatch', f'{what}: ' + '\n '.join(diffs)[:1100] + f'\n--- written ---\n{shown[:900]}')
        return
    buf2 = io.BytesIO()
    try:
        back.export(buf2)
    except Exception as exc:  # noqa: BLE001
        res.fail('smd_rewrite_differs', f'{what}: second export raised {excs(exc)}')
        return
    if buf2.getvalue() != data:
        res.fail('smd_rewrite_differs', f'{what}: export(parse_smd(export(x))) differs\n--- first ---\n{shown[:700]}\n'
                                        f'--- second ---\n{buf2.getvalue().decode("ascii", "replace")[:700]}')


# ---------------------------------------------------------------------------------------------
# features

BASE_ROWS = [[0, 'p0', 'r0'], [1, 'p1', 'r3']]

FEATURES: dict = {
    'bones': [
        ('pair', [['root', None], ['child', 0]]),
        ('single', [['root', None]]),
        ('chain3', [['root', None], ['child', 0], ['grand', 1]]),
        ('tree4', [['root', None], ['child', 0], ['grand', 1], ['sib', 0]]),
        ('forest', [['root', None], ['child', 0], ['root2', None], ['child2', 2]]),
        ('child_listed_first', [['child', 1], ['root', None]]),
        ('tree7', [['ValveBiped.Bip01_Pelvis', None], ['ValveBiped.Bip01_Spine', 0], ['ValveBiped.Bip01_Spine1', 1],
                   ['ValveBiped.Bip01_L_Thigh', 0], ['ValveBiped.Bip01_L_Calf', 3], ['ValveBiped.Bip01_R_Thigh', 0],
                   ['ValveBiped.Bip01_R_Calf', 5]]),
        ('reverse_chain4', [['d', 1], ['c', 2], ['b', 3], ['a', None]]),
        ('case_variants', [['Base', None], ['base', 0], ['BASE', 1], ['arm', 0], ['Arm', 3]]),     # distinct bones whose names differ only in case
    ],
    'bone_objects': [('shared', 'shared'), ('copies', 'anim_copies'), ('copies', 'link_copies'), ('copies', 'all_copies')],
    'renamed_bone': [('first', 0), ('second', 1)],
    'bone_name': [('plain', 'static_prop'), ('dotted', 'ValveBiped.Bip01_R_Hand'), ('space', 'with space'),
                  ('empty', ''), ('upper', 'UPPER'), ('long', 'x' * 120), ('apostrophe', "it's"), ('tab', 'tab\there'),
                  ('lead_trail_space', ' padded '), ('keyword', 'end'), ('slash', 'a/b\\c')],
    'frames': [
        ('one', [[0, BASE_ROWS]]),
        ('none', []),
        ('two', [[0, BASE_ROWS], [1, [[1, 'p2', 'r1'], [0, 'p1', 'r0']]]]),
        ('unsorted_insertion', [[5, BASE_ROWS], [2, [[0, 'p2', 'r2']]]]),
        ('negative_time', [[-1, BASE_ROWS]]),
        ('large_time', [[100000, BASE_ROWS]]),
        ('empty_frame', [[0, []]]),
        ('empty_then_full', [[0, []], [3, BASE_ROWS]]),
        ('one_bone', [[0, [[1, 'p0', 'r0']]]]),
        ('bone_twice', [[0, [[0, 'p0', 'r0'], [0, 'p2', 'r1'], [1, 'p1', 'r0']]]]),
    ],
    'pos': [('p0', 'p0'), ('zero', 'p1'), ('small_neg', 'p2'), ('large', 'p3'), ('rounding_edge', 'p4')],
    'rot': [('zero', 'r0'), ('quarter_half', 'r1'), ('near_full', 'r2'), ('yaw_only', 'r3')],
    'n_tris': [('one', 1), ('none', 0), ('two', 2), ('three', 3)],
    'mat': [('plain', 'metal/floor01'), ('len1', 'a'), ('space', 'with space'), ('backslash', 'models\\props\\x'),
            ('case', 'UPPER_lower-1'), ('keyword_nodes', 'nodes'), ('keyword_triangles', 'triangles'),
            ('keyword_time', 'time 3'), ('numeric', '0 1 2 3 4 5 6 7 8'), ('long', 'm' * 200)],
    'vert': [('v0', 'v0'), ('small_neg', 'v1'), ('zero', 'v2'), ('large_edge', 'v3')],
    'links0': [
        ('single_unit', [[0, 1.0]]),
        ('single_unit_other_bone', [[1, 1.0]]),
        ('single_nonunit', [[0, 0.5]]),
        ('single_nonunit', [[1, 0.0]]),
        ('multi', [[0, 0.5], [1, 0.5]]),
        ('multi', [[1, 0.25], [0, 0.75]]),
        ('multi', [[0, 0.25], [1, 0.25], [2, 0.5]]),
        ('multi', [[3, 0.1], [2, 0.2], [1, 0.3], [0, 0.4]]),
        ('multi', [[0, 0.5], [0, 0.5]]),
    ],
    'links2': [('single_unit', [[0, 1.0]]), ('multi', [[1, 0.5], [0, 0.5]])],
}


def inert(dev: dict) -> bool:
    def val(f: str) -> Any:
        return FEATURES[f][dev.get(f, 0)][1]
    if val('n_tris') == 0 and any(f in dev for f in ('mat', 'vert', 'links0', 'links2')):
        return True
    rows0 = val('frames')[0][1] if val('frames') else []
    if not rows0 and ('pos' in dev or 'rot' in dev):
        return True
    if 'renamed_bone' in dev and 'bone_name' not in dev:
        return True
    return False


def evaluate(setting: dict) -> Result:
    res = Result()
    mdl = model(setting)        # HarnessError propagates: a generator bug must stop the run, not count as a case
    roundtrip(construct(mdl), res, 'generated value', expected(mdl))
    return res


EXPLORER = Explorer(PART, FEATURES, evaluate, inert, {'links0': 'links', 'links2': 'links'})

RULE = ''


def run(ctx: core.Ctx) -> None:
    global RULE
    d = ctx.pick(3, 4)
    n = EXPLORER.explore(ctx, d, chunk=ctx.pick(100, 800))
    RULE = (
        f'Mesh.export -> Mesh.parse_smd on the base mesh (2 bones, 1 frame posing both, 1 triangle) + every choice of <= {d} '
        f'of {len(FEATURES)} features set to each non-base value ({n} values). Features: bone table shape (single, chain, '
        f'tree of 4 and 7, forest with two roots, child listed before its parent, reversed chain); name of the first or '
        f'second bone (dotted, space, empty, 120 chars, apostrophe, tab, padded, the word "end", slashes); animation '
        f'(none, 1-2 frames, unsorted insertion order, negative and large time, empty frame, a bone posed twice / not at '
        f'all); positions and rotations (zero, negative, 1e-6, 1e5-scale, rounding-edge values); 0-3 triangles; material '
        f'names (space, backslashes, case, section keywords nodes/triangles/"time 3", all-numeric, 200 chars); vertex '
        f'position/normal/UV values; weight links of the first vertex: 1 link (weight 1 to the first or another bone, weight '
        f'0.5 / 0), 2, 3, 4 links incl. first link not the first bone and a bone linked twice; 2 links on the third vertex. '
        f'Representable = every real is the float its own %.6f text denotes, every rotation component is exactly what the '
        f'reader computes from a 6-digit radian text in [0, 2pi) (decided by the harness\'s own arithmetic, never by '
        f'rounding through the library); bone and material names ASCII without double quote, CR/LF and the comment '
        f'introducers // # ; (the reader strips comments anywhere in a line); material names non-empty, without a file '
        f'extension or trailing slash/blank (the reader drops those by design) and not the word "end"; bone names '
        f'distinct, every referenced bone in the table; every vertex has >= 1 link (the writer asserts this; a file\'s '
        f'"0 links" means the parent bone with weight 1, which is the 1-link value). Oracle: harness observer (bones as '
        f'unordered name -> parent name; frames by time with bone name, exact position and rotation floats in order; '
        f'triangles in order with material, exact vertex floats and the ordered (bone name, weight) links); '
        f'export(parse_smd(export(x))) byte-identical. No SMD sample file exists under tests/. Non-trivial = reader '
        f'returned a value that was compared.')
    ctx.rule = RULE
    ctx.assumptions.append('C20/smd: runs under PYTHONHASHSEED=0 only; where the writer iterates a set of bones the outcome for a '
                           'given bone table depends on the names\' string hashes')


def replay(case: dict) -> list:
    return EXPLORER.replay(case)
