"""C20 part 'pcf' — particle systems: Particle.export -> DMX (binary / KeyValues2) -> Particle.parse.

A set of particle systems is described by a JSON-able spec; the harness builds real Particle/Operator/Child/
Attribute objects, exports them, writes the DMX tree with Element.export_binary / export_kv2, reads it back with
Particle.parse and compares an own field-by-field observation with what the spec says (Attribute.__eq__ is not
used: it ignores the case of names).  Then the read-back systems are exported and written again and the bytes
must be identical.  Element UUIDs are fresh random identifiers, not part of a Particle value: the harness
replaces srctools.dmx.get_uuid by a counter that restarts before every export, so that equal trees get equal
UUIDs and byte identity is decidable.
"""
from __future__ import annotations

import copy
import io
import itertools
import os
from uuid import UUID

import srctools.dmx as dmx
from srctools.dmx import Attribute, Element, ValueType
from srctools.math import FrozenAngle, FrozenMatrix, FrozenVec, Matrix
from srctools.particles import FORMAT_NAME, Child, Operator, Particle

from mcv import core

PART = 'pcf'
OP_LISTS = ['renderers', 'operators', 'initializers', 'emitters', 'forces', 'constraints']

# ---------------------------------------------------------------------------------------------
# deterministic UUIDs

_uuid_counter = [0]


def _next_uuid() -> UUID:
    _uuid_counter[0] += 1
    return UUID(int=_uuid_counter[0])


def reset_uuids() -> None:
    dmx.get_uuid = _next_uuid
    _uuid_counter[0] = 0


# ---------------------------------------------------------------------------------------------
# value alphabets.  Every number is float32-exact with <= 6 decimals (KV2 prints '%.6f'), ints are int32,
# times are multiples of 1/10000 s (binary stores them as such), colours are bytes, angles lie in [0, 360),
# strings are ASCII without NUL (the default 'ascii' mode of both writers).

STRS = ['', 'a b', 'q"t', 'b\\s', 'l\nm']
NAMES = ['a b', 'Mixed Case', 'q"t', 'b\\n', "it's"]
SUB_ELEM = {'type': 'DmElement', 'name': 'sub', 'attrs': [['x', 'INT', False, 3]]}
M_ID = [[1.0, 0.0, 0.0], [0.0, 1.0, 0.0], [0.0, 0.0, 1.0]]
M_B = [[0.5, -1.25, 2.0], [0.0, 1.0, 0.25], [3.5, 0.0, -1.0]]

# type -> (scalar values, array values); the first two entries of each list are the primary ones
VALUES = {
    'INT': ([0, 2147483647, -1, -2147483648], [[], [1, -2], [7]]),
    'FLOAT': ([0.0, -1.25, 1000000.5, 0.015625], [[], [0.5, -1.25], [0.0]]),
    'BOOL': ([True, False], [[], [True, False]]),
    'STRING': (STRS, [[], ['a', ''], ['q"t', 'b\\s', 'l\nm']]),
    'BINARY': (['', '00ff10'], [[], ['', 'ab00']]),
    'TIME': ([0.5, -2.25, 0.0], [[], [0.5, 0.0001]]),
    'COLOR': ([[0, 0, 0, 0], [255, 128, 1, 255]], [[], [[1, 2, 3, 4], [255, 255, 255, 255]]]),
    'VEC2': ([[0.0, 0.0], [-1.25, 1000.5]], [[], [[0.5, 0.25], [0.0, -1.0]]]),
    'VEC3': ([[0.0, 0.0, -1.0], [0.5, -1.25, 1000.5]], [[], [[1.0, 2.0, 3.0], [0.0, 0.0, 0.0]]]),
    'VEC4': ([[0.0, 0.0, 0.0, 1.0], [0.5, -1.25, 1000.5, 0.25]], [[], [[1.0, 2.0, 3.0, 4.0]]]),
    'ANGLE': ([[0.0, 0.0, 0.0], [45.5, 270.25, 359.5]], [[], [[90.0, 0.0, 180.0], [0.5, 0.25, 0.125]]]),
    'QUATERNION': ([[0.0, 0.0, 0.0, 1.0], [0.5, -0.5, 0.5, -0.5]], [[], [[1.0, 0.0, 0.0, 0.0]]]),
    'MATRIX': ([M_ID, M_B], [[], [M_B, M_ID]]),
    'ELEMENT': ([None, SUB_ELEM], [[], [None], [SUB_ELEM, None]]),
}


def mk_op(name='op', function='fn', options=()) -> dict:
    return {'name': name, 'function': function, 'options': [list(o) for o in options]}


def mk_sys(name, options=(), children=(), **lists) -> dict:
    d = {'name': name, 'options': [list(o) for o in options], 'children': list(children)}
    for lst in OP_LISTS:
        d[lst] = [copy.deepcopy(o) for o in lists.get(lst, ())]
    return d


def base_spec() -> list:
    return [mk_sys('sys_a', options=[['max_particles', 'INT', False, 52],
                                     ['material', 'STRING', False, 'editor\\ai_goal.vmt']],
                   renderers=[mk_op('sprite', 'render_animated_sprites',
                                    [['animation rate', 'FLOAT', False, 0.75]])])]


SYS_B = mk_sys('sys_b', options=[['radius', 'FLOAT', False, 2.5]], emitters=[mk_op('emit', 'emit_continuously')])
SYS_C = mk_sys('sys_c')


def _app_systems(spec, value):
    a = spec[0]
    if value == 'none':
        del spec[:]
    elif value == 'two':
        spec.append(copy.deepcopy(SYS_B))
    elif value == 'child_ab':
        spec.append(copy.deepcopy(SYS_B))
        a['children'] = ['sys_b']
    elif value == 'child_ba':
        b = copy.deepcopy(SYS_B)
        b['children'] = [a['name']]
        spec.append(b)
    elif value == 'mutual':
        b = copy.deepcopy(SYS_B)
        b['children'] = [a['name']]
        a['children'] = ['sys_b']
        spec.append(b)
    elif value == 'self':
        a['children'] = [a['name']]
    elif value == 'chain3':
        b, c = copy.deepcopy(SYS_B), copy.deepcopy(SYS_C)
        a['children'] = ['sys_b', 'sys_c']
        b['children'] = ['sys_c']
        spec.extend([b, c])
    elif value == 'twice':
        spec.append(copy.deepcopy(SYS_B))
        a['children'] = ['sys_b', 'sys_b']
    elif value == 'mixed_order':
        # a child defined later listed BEFORE one defined earlier: the order of the list is content
        b, c = copy.deepcopy(SYS_B), copy.deepcopy(SYS_C)
        b['children'] = ['sys_c', a['name'], 'sys_c']
        spec.extend([b, c])
    elif value == 'reverse_order':
        b, c = copy.deepcopy(SYS_B), copy.deepcopy(SYS_C)
        a['children'] = ['sys_c', 'sys_b']
        c['children'] = ['sys_b', a['name']]
        spec.extend([b, c])
    elif value == 'child_other_case':
        spec.append(copy.deepcopy(SYS_B))
        a['children'] = ['SYS_B']


def _app_sysopt(typ):
    def app(spec, value):
        is_array, v = value
        spec[0]['options'].append([f'o_{typ.lower()}', typ, is_array, copy.deepcopy(v)])
    return app


def _app_opopt(spec, value):
    typ, is_array, v = value
    spec[0]['renderers'][0]['options'].append([f'p_{typ.lower()}', typ, is_array, copy.deepcopy(v)])


def _app_oplist(lst):
    def app(spec, value):
        ops = [mk_op('first', 'fn_one', [['strength', 'FLOAT', False, 0.5]]), mk_op('second', 'fn two')]
        spec[0][lst] = spec[0][lst] + ops[:value]
    return app


def _app_sys_name(spec, value):
    old = spec[0]['name']
    spec[0]['name'] = value
    for s in spec:
        s['children'] = [value if c == old else c for c in s['children']]


def _app_opt_name(spec, value):
    spec[0]['options'][0][0] = value


def _app_op_opt_name(spec, value):
    spec[0]['renderers'][0]['options'][0][0] = value


def _app_op_name(spec, value):
    spec[0]['renderers'][0]['name'] = value


def _app_op_function(spec, value):
    spec[0]['renderers'][0]['function'] = value


def _app_no_options(spec, value):
    if value == 'system':
        spec[0]['options'] = []
    else:
        spec[0]['renderers'][0]['options'] = []


def build_features() -> list:
    F = []

    def add(name, values, app, primary=None):
        F.append((name, values, len(values) if primary is None else primary, app))

    for typ, (scalars, arrays) in VALUES.items():
        vals = [[False, v] for v in scalars[:2]] + [[True, a] for a in arrays[:2]] \
            + [[False, v] for v in scalars[2:]] + [[True, a] for a in arrays[2:]]
        add('sysopt_' + typ, vals, _app_sysopt(typ), primary=4)
    add('opopt', [[typ, False, sc[1]] for typ, (sc, ar) in VALUES.items()]
        + [[typ, True, ar[1]] for typ, (sc, ar) in VALUES.items()], _app_opopt, primary=0)
    for lst in OP_LISTS:
        add('ops_' + lst, [1, 2], _app_oplist(lst))
    add('systems', ['none', 'two', 'child_ab', 'child_ba', 'mutual', 'self', 'chain3', 'twice', 'child_other_case', 'mixed_order', 'reverse_order'],
        _app_systems)
    add('sys_name', ['', 'A b'] + STRS[2:], _app_sys_name)
    add('opt_name', NAMES, _app_opt_name)
    add('op_opt_name', NAMES, _app_op_opt_name)
    add('op_name', STRS, _app_op_name)
    add('op_function', STRS, _app_op_function)
    add('no_options', ['system', 'operator'], _app_no_options)
    return F


FEATURES = build_features()
_TABLE = {name: (values, app) for name, values, _, app in FEATURES}
# 'no_options' runs first (a rename of a removed option then has no target and the combination is dropped),
# the system layout last (it copies the possibly renamed first system's name into child lists)
_ORDER = {'no_options': 0, 'systems': 3}


def make_spec(devs: list):
    """The spec for a deviation list, or None when one deviation removed another one's target."""
    spec = base_spec()
    if ['systems', 'none'] in devs and len(devs) > 1:
        return None
    for name, value in sorted(devs, key=lambda d: _ORDER.get(d[0], 1)):
        try:
            _TABLE[name][1](spec, value)
        except IndexError:
            return None
    return spec


def representable(spec, enc) -> bool:
    """TIME attributes need binary encoding version >= 3 (the writer refuses them otherwise)."""
    if enc[0] == 'binary' and enc[1] < 3:
        def has_time(opts):
            return any(o[1] == 'TIME' for o in opts)
        for s in spec:
            if has_time(s['options']) or any(has_time(op['options']) for lst in OP_LISTS for op in s[lst]):
                return False
    return True


# ---------------------------------------------------------------------------------------------
# spec -> real objects

_elem_ids = [0]


def b_value(typ: str, v):
    if typ in ('INT', 'FLOAT', 'BOOL', 'STRING'):
        return v
    if typ == 'BINARY':
        return bytes.fromhex(v)
    if typ == 'TIME':
        return dmx.Time(v)
    if typ == 'COLOR':
        return dmx.Color(*v)
    if typ == 'VEC2':
        return dmx.Vec2(*v)
    if typ == 'VEC3':
        return FrozenVec(*v)
    if typ == 'VEC4':
        return dmx.Vec4(*v)
    if typ == 'ANGLE':
        return FrozenAngle(*v)
    if typ == 'QUATERNION':
        return dmx.Quaternion(*v)
    if typ == 'MATRIX':
        m = Matrix()
        for i in range(3):
            for j in range(3):
                m[i, j] = v[i][j]
        return m.freeze()
    if typ == 'ELEMENT':
        if v is None:
            return dmx.NULL
        _elem_ids[0] += 1
        el = Element(v['name'], v['type'], UUID(int=0xE0000000 + _elem_ids[0]))
        for o in v['attrs']:
            el[o[0]] = b_attr(o)
        return el
    raise AssertionError(typ)


def b_attr(o) -> Attribute:
    name, typ, is_array, v = o
    vt = ValueType[typ]
    if is_array:
        return Attribute(name, vt, [b_value(typ, x) for x in v])
    return Attribute(name, vt, b_value(typ, v))


def b_options(opts) -> dict:
    return {o[0].casefold(): b_attr(o) for o in opts}


def b_particles(spec) -> list:
    _elem_ids[0] = 0
    out = []
    for s in spec:
        out.append(Particle(
            s['name'], b_options(s['options']),
            *[[Operator(op['name'], op['function'], b_options(op['options'])) for op in s[lst]] for lst in OP_LISTS],
            [Child(c) for c in s['children']],
        ))
    return out


# ---------------------------------------------------------------------------------------------
# observers

def o_value(typ: str, v, depth=0):
    def f(x):
        if type(x) is not float:
            return f'<{type(x).__name__} {x!r}>'
        return x
    if typ == 'INT':
        return v if type(v) is int else f'<{type(v).__name__} {v!r}>'
    if typ == 'FLOAT':
        return f(v)
    if typ == 'BOOL':
        return v if type(v) is bool else f'<{type(v).__name__} {v!r}>'
    if typ == 'STRING':
        return v if type(v) is str else f'<{type(v).__name__} {v!r}>'
    if typ == 'BINARY':
        return v.hex() if isinstance(v, bytes) else f'<{type(v).__name__} {v!r}>'
    if typ == 'TIME':
        return f(v.value) if isinstance(v, dmx.Time) else f'<{type(v).__name__} {v!r}>'
    if typ == 'COLOR':
        return [v.r, v.g, v.b, v.a] if isinstance(v, dmx.Color) else f'<{type(v).__name__} {v!r}>'
    if typ in ('VEC2', 'VEC4', 'QUATERNION'):
        want = {'VEC2': dmx.Vec2, 'VEC4': dmx.Vec4, 'QUATERNION': dmx.Quaternion}[typ]
        return [f(x) for x in v] if type(v) is want else f'<{type(v).__name__} {v!r}>'
    if typ == 'VEC3':
        return [f(v.x), f(v.y), f(v.z)] if isinstance(v, FrozenVec) else f'<{type(v).__name__} {v!r}>'
    if typ == 'ANGLE':
        return [f(v.pitch), f(v.yaw), f(v.roll)] if isinstance(v, FrozenAngle) else f'<{type(v).__name__} {v!r}>'
    if typ == 'MATRIX':
        if not isinstance(v, FrozenMatrix):
            return f'<{type(v).__name__} {v!r}>'
        return [[f(v[i, j]) for j in range(3)] for i in range(3)]
    if typ == 'ELEMENT':
        if not isinstance(v, Element):
            return f'<{type(v).__name__} {v!r}>'
        if v.is_null:
            return None
        if v.is_stub:
            return '<stub>'
        if depth > 3:
            return '<deep>'
        return {'type': v.type, 'name': v.name,
                'attrs': {k: o_attr(a, depth + 1) for k, a in v.items() if k != 'name'}}
    raise AssertionError(typ)


def o_attr(attr, depth=0) -> dict:
    if not isinstance(attr, Attribute):
        return {'bad': repr(attr)}
    typ = attr.type.name
    typ = {'INTEGER': 'INT', 'STR': 'STRING'}.get(typ, typ)
    raw = attr._value
    if isinstance(raw, list):
        return {'name': attr.name, 'type': typ, 'array': True, 'value': [o_value(typ, x, depth) for x in raw]}
    return {'name': attr.name, 'type': typ, 'array': False, 'value': o_value(typ, raw, depth)}


def observe(parts: dict) -> list:
    out = []
    for key, p in parts.items():
        d = {'key': key, 'name': p.name, 'options': {k: o_attr(a) for k, a in p.options.items()},
             'children': [c.particle for c in p.children]}
        for lst in OP_LISTS:
            d[lst] = [{'name': op.name, 'function': op.function,
                       'options': {k: o_attr(a) for k, a in op.options.items()}} for op in getattr(p, lst)]
        out.append(d)
    return out


def x_value(typ, v):
    if typ == 'ELEMENT' and v is not None:
        return {'type': v['type'], 'name': v['name'], 'attrs': {o[0].casefold(): x_attr(o) for o in v['attrs']}}
    if typ in ('FLOAT', 'TIME'):
        return float(v)
    return copy.deepcopy(v)


def x_attr(o) -> dict:
    name, typ, is_array, v = o
    return {'name': name, 'type': typ, 'array': is_array,
            'value': [x_value(typ, x) for x in v] if is_array else x_value(typ, v)}


def expect(spec) -> list:
    out = []
    names = {s['name'].casefold(): s['name'] for s in spec}
    for s in spec:
        d = {'key': s['name'].casefold(), 'name': s['name'],
             'options': {o[0].casefold(): x_attr(o) for o in s['options']},
             # a child is a reference to a system of this file: what comes back is that system's name
             'children': [names[c.casefold()] for c in s['children']]}
        for lst in OP_LISTS:
            d[lst] = [{'name': op['name'], 'function': op['function'],
                       'options': {o[0].casefold(): x_attr(o) for o in op['options']}} for op in s[lst]]
        out.append(d)
    return out


def diff(a, b, path='') -> list:
    if isinstance(a, dict) and isinstance(b, dict):
        out = []
        for k in sorted(set(a) | set(b)):
            if k not in a:
                out.append(f'{path}.{k}#extra')
            elif k not in b:
                out.append(f'{path}.{k}#missing')
            else:
                out.extend(diff(a[k], b[k], f'{path}.{k}'))
        return out
    if isinstance(a, list) and isinstance(b, list):
        if len(a) != len(b):
            return [f'{path}#len']
        return [p for i, (x, y) in enumerate(zip(a, b)) for p in diff(x, y, f'{path}[{i}]')]
    if type(a) is not type(b) or a != b:
        return [path]
    return []


def split_known_aspects(exp: list, got: list):
    """Two aspects are judged by clauses of their own so that one defect in them does not hide every other
    difference: (1) an option keyed 'name' that the written value did not have; (2) the spelling (case) of
    attribute names.  Returns (got without those differences, leak paths, case paths)."""
    got = copy.deepcopy(got)
    leaks, cases = [], []

    def fix_opts(e_opts: dict, g_opts: dict, path: str):
        if 'name' in g_opts and 'name' not in e_opts:
            leaks.append(path + '.name')
            del g_opts['name']
        for k, g in g_opts.items():
            e = e_opts.get(k)
            if e and isinstance(g.get('name'), str) and g['name'] != e['name'] and g['name'].casefold() == e['name'].casefold():
                cases.append(f'{path}.{k}: {e["name"]!r} -> {g["name"]!r}')
                g['name'] = e['name']

    for i, (e, g) in enumerate(zip(exp, got)):
        fix_opts(e['options'], g['options'], f'[{i}].options')
        for lst in OP_LISTS:
            for j, (eo, go) in enumerate(zip(e[lst], g[lst])):
                fix_opts(eo['options'], go['options'], f'[{i}].{lst}[{j}].options')
    return got, leaks, cases


def coarse(paths: list) -> list:
    out = []
    for p in paths:
        toks = [t.split('[')[0] for t in p.replace('#', '.#').split('.') if t]
        leaf = next((t for t in reversed(toks) if t in ('name', 'type', 'array', 'value', 'function', 'children', 'key',
                                                        'options', '#len', '#extra', '#missing', *OP_LISTS)), toks[-1])
        if leaf not in out:
            out.append(leaf)
    return sorted(out)[:4]


# ---------------------------------------------------------------------------------------------
# encodings

def write(parts, enc, fmt_ver=2) -> bytes:
    reset_uuids()
    root = Particle.export(parts)
    f = io.BytesIO()
    if enc[0] == 'binary':
        root.export_binary(f, version=enc[1], fmt_name=FORMAT_NAME, fmt_ver=fmt_ver)
    else:
        root.export_kv2(f, fmt_name=FORMAT_NAME, fmt_ver=fmt_ver, flat=bool(enc[1]))
    return f.getvalue()


def read(data: bytes) -> dict:
    return Particle.parse(io.BytesIO(data))


def all_options(spec):
    for s in spec:
        yield from s['options']
        for lst in OP_LISTS:
            for op in s[lst]:
                yield from op['options']


def spec_flags(spec, enc_family: str) -> dict:
    """Coarse, stable facts about the written value that known DMX-level defects of that encoding depend on."""
    opts = list(all_options(spec))
    if enc_family == 'binary':
        return {'scalar_matrix': any(o[1] == 'MATRIX' and not o[2] for o in opts),
                'element_option': any(o[1] == 'ELEMENT' for o in opts)}
    return {'attr_name_needs_escape': any(set(o[0]) & set('"\\') for o in opts)}


def check_encoding(acc: core.Acc, case: dict, spec, enc, parts=None, expected=None, fmt_ver=2) -> str:
    enc_name = f'{enc[0]}{enc[1] if enc[0] == "binary" else ("_flat" if enc[1] else "")}'
    sig = dict(part=PART, enc=enc[0])
    if spec is not None:
        sig.update(spec_flags(spec, enc[0]))
    label = f'pcf via {enc_name}: {core.jdump(case)[:400]}'

    def shown(data: bytes) -> str:
        return data.decode('latin1') if enc[0] == 'kv2' else data.hex()
    try:
        if parts is None:
            parts = b_particles(spec)
        w1 = write(parts, enc, fmt_ver)
    except Exception as exc:  # noqa: BLE001
        acc.fail('pcf_write_raises', case, f'{label}\nexport/write raised {exc!r}', exc=type(exc).__name__, **sig)
        return 'write_raises'
    try:
        back = read(w1)
    except Exception as exc:  # noqa: BLE001
        acc.fail('pcf_read_raises', case, f'{label}\nParticle.parse raised {exc!r} on the written file:\n{shown(w1)[:1500]}',
                 exc=type(exc).__name__, **sig)
        return 'read_raises'
    if expected is None:
        expected = expect(spec)
    got_raw = observe(back)
    got, leaks, cases = split_known_aspects(expected, got_raw)
    status = 'ok'
    if leaks:
        acc.fail('pcf_name_in_options', case, f'{label}\nthe read-back value has an option "name" the written value did not '
                 f'have, at {leaks[:6]}', part=PART)
        status = 'diff'
    if cases:
        acc.fail('pcf_attr_name_case', case, f'{label}\nattribute names changed spelling: {cases[:6]}', part=PART)
        status = 'diff'
    paths = diff(expected, got)
    if paths:
        acc.fail('pcf_roundtrip_diff', case, f'{label}\n{len(paths)} difference(s) after read(write(x)): {paths[:8]}\n'
                 f'expected: {core.jdump(expected)[:700]}\ngot     : {core.jdump(got)[:700]}', fields=coarse(paths), **sig)
        status = 'diff'
    try:
        w2 = write(list(back.values()), enc, fmt_ver)
    except Exception as exc:  # noqa: BLE001
        acc.fail('pcf_rewrite_raises', case, f'{label}\nsecond export/write raised {exc!r}', exc=type(exc).__name__, **sig)
        return status + '+rewrite_raises'
    if w2 != w1 and status == 'ok':
        acc.fail('pcf_rewrite_diff', case, f'{label}\nwrite(read(write(x))) != write(x)\nfirst :\n{shown(w1)[:900]}\nsecond:\n'
                 f'{shown(w2)[:900]}', **sig)
        status = 'rewrite_diff'
    return status


def encodings(quick: bool) -> list:
    encs = [['binary', 5], ['binary', 2], ['kv2', 0], ['kv2', 1]]
    if not quick:
        encs += [['binary', 1], ['binary', 3], ['binary', 4]]
    return encs


def check_case(acc: core.Acc, case: dict) -> None:
    spec = make_spec(case['devs'])
    if spec is None:
        acc.count('pcf_excluded_no_target')
        return
    acc.evaluations += 1
    stats = []
    for enc in case['encs']:
        if not representable(spec, enc):
            acc.count('pcf_excluded_unrepresentable')
            stats.append('n/a')
            continue
        stats.append(check_encoding(acc, case, spec, enc))
    if 'ok' in stats and spec:
        acc.nontrivial += 1
    acc.outcome((len(case['devs']), tuple(stats)))


# ---------------------------------------------------------------------------------------------
# sample file

def check_sample(acc: core.Acc, case: dict) -> None:
    acc.evaluations += 1
    path = os.path.join(core.REPO, 'tests', 'test_particles', 'sample.pcf')
    try:
        with open(path, 'rb') as f:
            data = f.read()
        first = read(data)
        fmt_ver = Element.parse(io.BytesIO(data))[2]
    except Exception as exc:  # noqa: BLE001
        acc.fail('pcf_read_raises', case, f'sample.pcf: {exc!r}', exc=type(exc).__name__, part=PART, enc='sample')
        return
    expected = observe(first)
    # what Particle.parse yields on a real file is the value; an option called 'name' duplicating the element name
    # is the same leak that clause pcf_name_in_options reports on generated values
    leaked = False
    for e in expected:
        for opts in [e['options']] + [op['options'] for lst in OP_LISTS for op in e[lst]]:
            if 'name' in opts:
                leaked = True
                del opts['name']
    if leaked:
        acc.fail('pcf_name_in_options', case, 'sample.pcf: Particle.parse puts the element name into options["name"]',
                 part=PART)
    ok = bool(first)
    for enc in case['encs']:
        st = check_encoding(acc, case, None, enc, parts=list(read(data).values()), expected=expected, fmt_ver=fmt_ver)
        ok = ok and st == 'ok'
    if ok:
        acc.nontrivial += 1
    acc.outcome(('sample', ok))


# ---------------------------------------------------------------------------------------------
# enumeration

def combos(depth: int):
    for idxs in itertools.combinations(range(len(FEATURES)), depth):
        ranges = []
        for i in idxs:
            name, values, primary, _ = FEATURES[i]
            n = len(values) if depth == 1 else primary
            ranges.append([(i, v) for v in range(n)])
        yield from itertools.product(*ranges)


def devs_of(combo) -> list:
    return [[FEATURES[i][0], FEATURES[i][1][v]] for i, v in combo]


def shard(spec) -> core.Acc:
    acc = core.Acc()
    if spec[0] == 'gen':
        _, encs, combo_list = spec
        for combo in combo_list:
            check_case(acc, {'part': PART, 'mode': 'gen', 'encs': encs, 'devs': devs_of(combo)})
        if combo_list:
            acc.sample({'part': PART, 'mode': 'gen', 'encs': encs, 'devs': devs_of(combo_list[-1])}, 1)
    else:
        check_sample(acc, {'part': PART, 'mode': 'sample', 'encs': spec[1]})
    return acc


def run(ctx: core.Ctx) -> None:
    depth = ctx.pick(2, 3)
    encs = encodings(ctx.quick)
    shards = [('sample', encs)]
    n = 0
    for d in range(depth + 1):
        all_c = list(combos(d))
        n += len(all_c)
        for chunk in core.chunked(all_c, 150):
            shards.append(('gen', encs, chunk))
    k = ctx.seed % len(shards)
    core.par_map(shard, shards[k:] + shards[:k], ctx.acc)
    ctx.acc.count('pcf_generated_cases', n)


RULE = (
    'pcf: base file (one system with two options and one renderer with one option) + every choice of <= 2 (quick) / '
    '<= 3 (thorough) features set to each boundary value; features = a system option of each of the 14 DMX value '
    'types (scalar and array; boundary scalars, arrays of 0/1/2-3 items), operators in each of the six lists (1, 2), '
    'system layouts (none, two, child a->b, b->a, mutual, self, chain of three, same child twice, child named in '
    'another case), names of system/operator/function/options (empty, space, mixed case, quote, backslash, newline, '
    'apostrophe), no options; an operator option of every type as single deviations.  Each case is written through '
    'binary DMX v5 and v2 and KeyValues2 (nested and flat) (thorough: + binary v1, v3, v4) and read with '
    'Particle.parse; plus tests/test_particles/sample.pcf re-exported through every encoding.  Representability: '
    'ASCII strings without NUL; floats float32-exact with <= 6 decimals; ints int32; times multiples of 0.1 ms and '
    'only in binary >= v3; colours 0-255; angles in [0,360); matrices 3x3; option names unique per element ignoring '
    'case and not one of name/functionName/children/<list names>; system names unique ignoring case; children name '
    'systems of the same file (a reference, read back as that system\'s name).  Fresh element UUIDs are not part of '
    'the value (srctools.dmx.get_uuid is replaced by a counter restarted per export).  Non-trivial = a non-empty file '
    'read back equal and rewritten identically in at least one encoding.'
)


def replay(case: dict) -> list:
    acc = core.Acc()
    if case.get('mode') == 'sample':
        check_sample(acc, case)
    else:
        check_case(acc, case)
    return acc.all_failures()
