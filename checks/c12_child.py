"""Child process for the C12 strace conformance pass: runs one scenario on the real file system, no interposer."""
import json
import os
import sys

from checks import c12

spec = json.loads(sys.argv[1])
dest = sys.argv[2]
_, run, _ = c12.scenario(spec)
os.write(2, b'C12MARK\n')
try:
    run(dest)
except BaseException as exc:  # noqa: BLE001 - the parent judges by the directory contents
    os.write(2, f'C12RAISED {type(exc).__name__}\n'.encode())
os.write(2, b'C12DONE\n')
