"""C03 — tokenizing is total and independent of how the input is chunked.

Explored exhaustively (bounded): every string up to a length bound over a syntax-relevant alphabet
x all 128 option combinations x all 2^(n-1) chunkings (the delivery schedule), plus line delivery
and empty chunks; then Keyvalues.parse over all short sequences of lexical items x parse options
x {whole, per character, every single cut}.
"""
from __future__ import annotations

import itertools

from srctools.tokenizer import Tokenizer, TokenSyntaxError, Token
from srctools.keyvalues import Keyvalues, KeyValError

from mcv import core
from mcv.enum import strings, compositions

PROPERTY = 'C03'
LEVEL = 'exploration'

SIGMA = ['"', '\\', '/', '*', '\n', '\r', '[', ']', '(', ')', '#', 'a', ' ', '{', '}', ':', '+', 'n',
         "'", '=', ',', ';', '\t', '﻿']
FLAGS = ['string_bracket', 'string_parens', 'allow_escapes', 'allow_star_comments',
         'preserve_comments', 'colon_operator', 'plus_operator']

# Reduced alphabets for longer strings: one per lexer feature that carries state across characters.
REDUCED = {
    'crlf': (['\r', '\n', 'a', '"', ' ', '\\'], ['allow_escapes']),
    'star': (['/', '*', 'a', '\n', '\r', ' '], ['allow_star_comments', 'preserve_comments']),
    'escape': (['\\', '"', 'n', '\n', '\r', 'a'], ['allow_escapes']),
    'bare': (['#', 'a', ':', '+', '/', '"', '\n'], ['colon_operator', 'plus_operator', 'preserve_comments']),
    'brack': (['[', ']', '(', ')', '\n', '\r', 'a'], ['string_bracket', 'string_parens']),
}


class CountingTokenizer(Tokenizer):
    """Tokenizer whose character fetches are counted (the `linear number of steps` clause)."""
    steps = 0

    def _next_char(self):
        self.steps += 1
        return super()._next_char()


def flags_of(mask: int, names=FLAGS) -> dict:
    return {n: bool(mask >> i & 1) for i, n in enumerate(names)}


def run_tok(data, opts: dict, text_len: int, count: bool = False):
    """Run the real tokenizer to exhaustion.  Returns (result, steps, harness_problem)."""
    cls = CountingTokenizer if count else Tokenizer
    tok = cls(data, None, **opts)
    out = []
    problem = None
    limit = text_len + 3
    try:
        while True:
            t, v = tok()
            if t is Token.EOF:
                out.append(('EOF', v, tok.line_num))
                break
            out.append((t.name, v, tok.line_num))
            if len(out) > limit:
                problem = ('too_many_tokens', f'{len(out)} tokens from {text_len} characters')
                break
        if problem is None:
            for _ in range(3):
                t, v = tok()
                if t is not Token.EOF:
                    problem = ('token_after_eof', f'{t.name} {v!r} returned after EOF')
                    break
    except TokenSyntaxError as exc:
        if type(exc) is not TokenSyntaxError:
            problem = ('wrong_error_type', repr(exc))
        out.append(('ERR', exc.mess, exc.line_num))
    except Exception as exc:  # noqa: BLE001 - totality clause: nothing else may escape
        problem = ('foreign_exception', f'{type(exc).__name__}: {exc}')
        out.append(('EXC', type(exc).__name__, None))
    return out, (tok.steps if count else 0), problem


def check_text(acc: core.Acc, text: str, opts: dict, all_chunkings: bool = True) -> None:
    n = len(text)
    ref, steps, problem = run_tok(text, opts, n, count=True)
    acc.evaluations += 1
    case = {'text': text, 'opts': {k: v for k, v in opts.items()}}
    if len(ref) > 1 or ref[0][0] != 'EOF':
        acc.nontrivial += 1
    acc.outcome(tuple(r[0] for r in ref))
    if problem:
        acc.fail('tok_' + problem[0], case, f'text={text!r} opts={opts}: {problem[1]}')
    if steps > 2 * n + 8:
        acc.fail('tok_steps', case, f'text={text!r} opts={opts}: {steps} character fetches for {n} characters')
    if n == 0:
        return
    deliveries = []
    if all_chunkings:
        for comp in compositions(text):
            if len(comp) > 1:
                deliveries.append(comp)
    else:
        for i in range(1, n):
            deliveries.append([text[:i], text[i:]])
        deliveries.append(list(text))
    deliveries.append(text.splitlines(keepends=True))
    deliveries.append([x for c in text for x in ('', c, '')])
    deliveries.append('<file-after-header>')
    deliveries.append('<other-tokenizer-pending>')
    for chunks in deliveries:
        if chunks == '<other-tokenizer-pending>':
            # another tokenizer object is alive with a peeked / pushed-back token while this text is read
            other = Tokenizer('"other" }\n', None)
            pk = other.peek()
            other2 = Tokenizer('{ "second"', None)
            other2.push_back(*other2())
            got, _, problem = run_tok(text, opts, n)
            acc.evaluations += 1
            if got != ref:
                acc.fail('tok_chunk_dependent', dict(case, chunks='whole, while two other tokenizers hold pending tokens'),
                         f'text={text!r} opts={opts}\n alone : {ref}\n with two other tokenizers holding a peeked / pushed-back token: {got}')
                break
            after = (other(), other2())
            if after != (pk, (Token.BRACE_OPEN, '{')):
                acc.fail('tok_chunk_dependent', dict(case, chunks='the other tokenizers afterwards'),
                         f'text={text!r}: the other tokenizers lost their pending tokens: {after!r}')
                break
            continue
        if chunks == '<file-after-header>':
            # a file object whose first line (a header with tokens in it) was already consumed by the caller
            import io
            buf = io.StringIO('"header" { [x] /* */\n' + text)
            buf.readline()
            got, _, problem = run_tok(buf, opts, n)
            if got != ref and ref and ref[-1][0] != 'EXC':
                # line numbers are relative to what the tokenizer was given: compare as is
                acc.fail('tok_chunk_dependent', dict(case, chunks='file positioned after a header line'),
                         f'text={text!r} opts={opts}\n whole : {ref}\n file object positioned after a consumed header line: {got}')
            acc.evaluations += 1
            continue
        got, _, problem = run_tok(iter(chunks), opts, n)
        acc.evaluations += 1
        if got != ref:
            ccase = dict(case, chunks=chunks)
            acc.fail('tok_chunk_dependent', ccase,
                     f'text={text!r} opts={opts}\n whole : {ref}\n chunks={chunks!r}: {got}')
            break
        if problem:
            ccase = dict(case, chunks=chunks)
            acc.fail('tok_' + problem[0], ccase, f'text={text!r} chunks={chunks!r}: {problem[1]}')
            break


# ---------------------------------------------------------------------------------------------
# Keyvalues.parse

KV_ITEMS = ['"a"', '"b"', 'a', '{', '}', '\n', '[f]', '[!f]', '[]', '"', '\\', '//c', ' ']
# coarser, line-level items: reach flag-replacement and skipped-block logic within a small depth
KV_LINES = ['"a" "b"\n', '"a" "b" [f]\n', '"a" "b" [!f]\n', '"a"\n', '"a" [f]\n', '"a" [!f]\n', '{\n', '}\n',
            '"a" {', '}', '"b" "c" "d"\n', '"a" "b" []\n', '"a" [!]\n']
KV_OPTS = ['newline_keys', 'newline_values', 'allow_escapes', 'single_line', 'single_block']
KV_DEFAULT = {'newline_keys': False, 'newline_values': True, 'allow_escapes': True, 'single_line': False,
              'single_block': False}


def kv_dump(kv) -> object:
    if not isinstance(kv, Keyvalues):
        return ('NOTKV', repr(kv))
    if kv.has_children():
        return (kv._real_name, [kv_dump(c) for c in kv._value], kv.line_num)
    return (kv._real_name, kv._value, kv.line_num)


def run_kv(data, opts: dict):
    try:
        res = Keyvalues.parse(data, 'f', **opts)
        return ('OK', kv_dump(res)), None
    except KeyValError as exc:
        return ('ERR', exc.mess, exc.line_num), None
    except TokenSyntaxError as exc:
        return ('ERRTOK', exc.mess, exc.line_num), ('wrong_error_type', f'{type(exc).__name__}: {exc.mess}')
    except RecursionError as exc:
        return ('EXC', 'RecursionError'), ('foreign_exception', 'RecursionError')
    except Exception as exc:  # noqa: BLE001
        return ('EXC', type(exc).__name__), ('foreign_exception', f'{type(exc).__name__}: {exc}')


def check_kv(acc: core.Acc, items: tuple, opts: dict) -> None:
    text = ''.join(items)
    ref, problem = run_kv(text, opts)
    acc.evaluations += 1
    if ref[0] == 'OK':
        acc.nontrivial += 1
    acc.outcome(ref[0] if ref[0] != 'ERR' else ('ERR', ref[1][:30]))
    case = {'kv_items': list(items), 'opts': dict(opts)}
    nondefault = sorted(k for k, v in opts.items() if v != KV_DEFAULT[k])
    if problem:
        acc.fail('kv_' + problem[0], case, f'Keyvalues.parse({text!r}, **{opts}) -> {problem[1]}',
                 exc=problem[1].split(':')[0], skipped_block=('[!f]' in items), flag_opts=nondefault)
        return
    n = len(text)
    deliveries = [list(text)] + [[text[:i], text[i:]] for i in range(1, n)]
    for chunks in deliveries:
        got, problem = run_kv(iter(chunks), opts)
        acc.evaluations += 1
        if got != ref:
            acc.fail('kv_chunk_dependent', dict(case, chunks=chunks),
                     f'text={text!r} opts={opts}\n whole: {ref}\n chunks={chunks!r}: {got}')
            break


# ---------------------------------------------------------------------------------------------
# shards

def shard(spec) -> core.Acc:
    acc = core.Acc()
    kind = spec[0]
    if kind == 'tok':
        _, prefix, length, masks, all_chunk = spec
        rest = length - len(prefix)
        for tail in itertools.product(SIGMA, repeat=rest):
            text = prefix + ''.join(tail)
            for m in masks:
                check_text(acc, text, flags_of(m), all_chunk)
        acc.sample({'text': prefix + SIGMA[0] * rest, 'opts_mask': masks[0], 'chunkings': 'all'}, 1)
    elif kind == 'red':
        _, name, prefix, length = spec
        alpha, fl = REDUCED[name]
        rest = length - len(prefix)
        for tail in itertools.product(alpha, repeat=rest):
            text = prefix + ''.join(tail)
            for m in range(1 << len(fl)):
                opts = flags_of(m, fl)
                check_text(acc, text, opts, True)
        acc.count('reduced_' + name, len(alpha) ** rest)
    elif kind in ('kv', 'kvl'):
        _, prefix, length, optsets = spec
        rest = length - len(prefix)
        for tail in itertools.product(KV_ITEMS if kind == 'kv' else KV_LINES, repeat=rest):
            items = tuple(prefix) + tail
            for opts in optsets:
                check_kv(acc, items, opts)
        acc.sample({'kv_items': list(prefix) + [KV_ITEMS[0]] * rest, 'opts': optsets[-1]}, 1)
    return acc


def run(ctx: core.Ctx) -> None:
    q = ctx.quick
    shards = []
    all_masks = list(range(128))
    # (a) tokenizer, full alphabet
    L = 3 if q else 4
    for n in range(0, L + 1):
        if n <= 1:
            shards.append(('tok', '', n, all_masks, True))
        elif n <= 3:
            for c in SIGMA:
                shards.append(('tok', c, n, all_masks, True))
        else:
            for c in itertools.product(SIGMA, repeat=2):
                shards.append(('tok', ''.join(c), n, all_masks, True))
    # (a') longer strings over reduced alphabets
    RL = 5 if q else 7
    for name, (alpha, fl) in REDUCED.items():
        for n in range(4, RL + 1):
            for c in itertools.product(alpha, repeat=2):
                shards.append(('red', name, ''.join(c), n))
    # (b) Keyvalues.parse
    KL = 5 if q else 6
    single = [dict(KV_DEFAULT)] + [dict(KV_DEFAULT, **{k: not KV_DEFAULT[k]}) for k in KV_OPTS]
    allsets = [dict(zip(KV_OPTS, bits)) for bits in itertools.product([False, True], repeat=5)]
    for n in range(0, KL + 1):
        if q:
            optsets = allsets if n <= 3 else single if n == 4 else [dict(KV_DEFAULT)]
        else:
            optsets = allsets if n <= 5 else single
        if n <= 2:
            shards.append(('kv', (), n, optsets))
        else:
            for c in itertools.product(KV_ITEMS, repeat=2):
                shards.append(('kv', c, n, optsets))
    KLL = 4 if q else 6
    for n in range(1, KLL + 1):
        optsets = single if (q or n >= 6) else allsets
        if n <= 2:
            shards.append(('kvl', (), n, optsets))
        else:
            for c in itertools.product(KV_LINES, repeat=2):
                shards.append(('kvl', c, n, optsets))
    # seed only rotates the order in which shards are handed out
    k = ctx.seed % len(shards)
    shards = shards[k:] + shards[:k]
    core.par_map(shard, shards, ctx.acc)
    ctx.rule = (f'tokenizer: every string of length <= {L} over a {len(SIGMA)}-character alphabet x all 128 option '
                f'combinations x every chunking (all 2^(n-1) compositions, lines, empty chunks interleaved); strings '
                f'of length 4..{RL} over 5 reduced 6/7-character alphabets x the options that feature reads x every '
                f'chunking; Keyvalues.parse: every sequence of <= {KL} lexical items from {len(KV_ITEMS)} x parse-option '
                f'sets (all 32 for short sequences, default + single flips beyond), and every sequence of <= {KLL} line-level items from {len(KV_LINES)} x whole / per character / every '
                f'single cut.  Non-trivial = produces at least one token or an error (tokenizer) / parses (Keyvalues). '
                f'Enumeration yields each (text, options) pair once.')
    ctx.coverage_extra['schedules'] = 'every chunking of every enumerated string'


def replay(case: dict) -> list:
    acc = core.Acc()
    if 'kv_items' in case:
        check_kv(acc, tuple(case['kv_items']), case['opts'])
    else:
        check_text(acc, case['text'], case['opts'], True)
    return acc.all_failures()
