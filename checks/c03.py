"""C03 — tokenizing is total and independent of how the input is chunked.

Explored exhaustively (bounded): every string up to a length bound over a syntax-relevant alphabet
x all 128 option combinations x all 2^(n-1) chunkings (the delivery schedule), plus line delivery
and empty chunks; then Keyvalues.parse over all short sequences of lexical items x parse options
x {whole, per character, every single cut}.
"""
from __future__ import annotations

import itertools

from srctools.tokenizer import Tokenizer, TokenSyntaxError, Token
from srctools.keyvalues import Keyvalues, KeyValError

from mcv import core
from mcv.enum import strings, compositions

PROPERTY = 'C03'
LEVEL = 'exploration'

SIGMA = ['"', '\\', '/', '*', '\n', '\r', '[', ']', '(', ')', '#', 'a', ' ', '{', '}', ':', '+', 'n',
         "'", '=', ',', ';', '\t', '﻿']
FLAGS = ['string_bracket', 'string_parens', 'allow_escapes', 'allow_star_comments',
         'preserve_comments', 'colon_operator', 'plus_operator']

# Reduced alphabets for longer strings: one per lexer feature that carries state across characters.
REDUCED = {
    'crlf': (['\r', '\n', 'a', '"', ' ', '\\'], ['allow_escapes']),
    'star': (['/', '*', 'a', '\n', '\r', ' '], ['allow_star_comments', 'preserve_comments']),
    'escape': (['\\', '"', 'n', '\n', '\r', 'a'], ['allow_escapes']),
    'bare': (['#', 'a', ':', '+', '/', '"', '\n'], ['colon_operator', 'plus_operator', 'preserve_comments']),
    'brack': (['[', ']', '(', ')', '\n', '\r', 'a'], ['string_bracket', 'string_parens']),
}


class CountingTokenizer(Tokenizer):
    """Tokenizer whose character fetches are counted (the `linear number of steps` clause)."""
    steps = 0

    def _next_char(self):
        self.steps += 1
        return super()._next_char()


def flags_of(mask: int, names=FLAGS) -> dict:
    return {n: bool(mask >> i & 1) for i, n in enumerate(names)}


def run_tok(data, opts: dict, text_len: int, count: bool = False):
    """Run the real tokenizer to exhaustion.  Returns (result, steps, harness_problem)."""
    cls = CountingTokenizer if count else Tokenizer
    out = []
    problem = None
    limit = text_len + 3
    tok = None
    try:
        tok = cls(data, None, **opts)
        while True:
            t, v = tok()
            if t is Token.EOF:
                out.append(('EOF', v, tok.line_num))
                break
            out.append((t.name, v, tok.line_num))
            if len(out) > limit:
                problem = ('too_many_tokens', f'{len(out)} tokens from {text_len} characters')
                break
        if problem is None:
            for _ in range(3):
                t, v = tok()
                if t is not Token.EOF:
                    problem = ('token_after_eof', f'{t.name} {v!r} returned after EOF')
                    break
    except TokenSyntaxError as exc:
        if type(exc) is not TokenSyntaxError:
            problem = ('wrong_error_type', repr(exc))
        out.append(('ERR', exc.mess, exc.line_num))
    except Exception as exc:  # noqa: BLE001 - totality clause: nothing else may escape
        problem = ('foreign_exception', f'{type(exc).__name__}: {exc}')
        out.append(('EXC', type(exc).__name__, None))
    return out, (tok.steps if count and tok is not None else 0), problem


def _decode_fault_source(chunks: list, k: int):
    for i, c in enumerate(chunks + ['']):
        if i == k:
            raise UnicodeDecodeError('utf-8', b'\xff\xfe', 0, 1, 'invalid start byte')
        yield c
    raise UnicodeDecodeError('utf-8', b'\xff\xfe', 0, 1, 'invalid start byte')


def check_text(acc: core.Acc, text: str, opts: dict, all_chunkings: bool = True) -> None:
    n = len(text)
    ref, steps, problem = run_tok(text, opts, n, count=True)
    acc.evaluations += 1
    case = {'text': text, 'opts': {k: v for k, v in opts.items()}}
    if len(ref) > 1 or ref[0][0] != 'EOF':
        acc.nontrivial += 1
    acc.outcome(tuple(r[0] for r in ref))
    if problem:
        acc.fail('tok_' + problem[0], case, f'text={text!r} opts={opts}: {problem[1]}')
    if steps > 2 * n + 8:
        acc.fail('tok_steps', case, f'text={text!r} opts={opts}: {steps} character fetches for {n} characters')
    if n == 0:
        return
    deliveries = []
    if all_chunkings:
        for comp in compositions(text):
            if len(comp) > 1:
                deliveries.append(comp)
    else:
        for i in range(1, n):
            deliveries.append([text[:i], text[i:]])
        deliveries.append(list(text))
    deliveries.append(text.splitlines(keepends=True))
    deliveries.append([x for c in text for x in ('', c, '')])
    deliveries.append('<file-after-header>')
    deliveries.append('<other-tokenizer-pending>')
    if n <= 3:
        # environment answers: the file iterator fails to decode at its k-th read (a binary / wrongly encoded file); the tokenizer
        # reports that as its own error type whichever read it is, after the tokens of the text delivered before it
        for k in range(0, n + 1):
            got, _, problem = run_tok(_decode_fault_source(list(text), k), opts, n)
            acc.evaluations += 1
            want_prefix = [r for r in ref if r[0] not in ('EOF', 'ERR', 'EXC')]
            body = [g for g in got if g[0] not in ('ERR',)]
            if problem or not got or got[-1][0] != 'ERR' or body != want_prefix[:len(body)]:
                acc.fail('tok_decode_fault', dict(case, chunks=f'one character per read, read #{k} raises UnicodeDecodeError'),
                         f'text={text!r} opts={opts}: the source failed to decode at read #{k}: {problem or got}\n (whole text: {ref})')
                break
    for chunks in deliveries:
        if chunks == '<other-tokenizer-pending>':
            # another tokenizer object is alive with a peeked / pushed-back token while this text is read
            other = Tokenizer('"other" }\n', None)
            pk = other.peek()
            other2 = Tokenizer('{ "second"', None)
            other2.push_back(*other2())
            got, _, problem = run_tok(text, opts, n)
            acc.evaluations += 1
            if got != ref:
                acc.fail('tok_chunk_dependent', dict(case, chunks='whole, while two other tokenizers hold pending tokens'),
                         f'text={text!r} opts={opts}\n alone : {ref}\n with two other tokenizers holding a peeked / pushed-back token: {got}')
                break
            after = (other(), other2())
            if after != (pk, (Token.BRACE_OPEN, '{')):
                acc.fail('tok_chunk_dependent', dict(case, chunks='the other tokenizers afterwards'),
                         f'text={text!r}: the other tokenizers lost their pending tokens: {after!r}')
                break
            continue
        if chunks == '<file-after-header>':
            # a file object whose first line (a header with tokens in it) was already consumed by the caller
            import io
            buf = io.StringIO('"header" { [x] /* */\n' + text)
            buf.readline()
            got, _, problem = run_tok(buf, opts, n)
            if got != ref and ref and ref[-1][0] != 'EXC':
                # line numbers are relative to what the tokenizer was given: compare as is
                acc.fail('tok_chunk_dependent', dict(case, chunks='file positioned after a header line'),
                         f'text={text!r} opts={opts}\n whole : {ref}\n file object positioned after a consumed header line: {got}')
            acc.evaluations += 1
            continue
        got, _, problem = run_tok(iter(chunks), opts, n)
        acc.evaluations += 1
        if got != ref:
            ccase = dict(case, chunks=chunks)
            acc.fail('tok_chunk_dependent', ccase,
                     f'text={text!r} opts={opts}\n whole : {ref}\n chunks={chunks!r}: {got}')
            break
        if problem:
            ccase = dict(case, chunks=chunks)
            acc.fail('tok_' + problem[0], ccase, f'text={text!r} chunks={chunks!r}: {problem[1]}')
            break


# ---------------------------------------------------------------------------------------------
# Keyvalues.parse

KV_ITEMS = ['"a"', '"b"', 'a', '{', '}', '\n', '[f]', '[!f]', '[]', '"', '\\', '//c', ' ']
# coarser, line-level items: reach flag-replacement and skipped-block logic within a small depth
KV_LINES = ['"a" "b"\n', '"a" "b" [f]\n', '"a" "b" [!f]\n', '"a"\n', '"a" [f]\n', '"a" [!f]\n', '{\n', '}\n',
            '"a" {', '}', '"b" "c" "d"\n', '"a" "b" []\n', '"a" [!]\n']
KV_OPTS = ['newline_keys', 'newline_values', 'allow_escapes', 'single_line', 'single_block']
KV_DEFAULT = {'newline_keys': False, 'newline_values': True, 'allow_escapes': True, 'single_line': False,
              'single_block': False}


class ForeignError(TokenSyntaxError):
    """Another format's error class (what a caller's tokenizer may have been built with)."""


def kv_dump(kv) -> object:
    if not isinstance(kv, Keyvalues):
        return ('NOTKV', repr(kv))
    if kv.has_children():
        return (kv._real_name, [kv_dump(c) for c in kv._value], kv.line_num)
    return (kv._real_name, kv._value, kv.line_num)


def run_kv(data, opts: dict, dump: bool = True):
    try:
        res = Keyvalues.parse(data, 'f', **opts)
        # (the dump recurses over the tree: not used for the very deep documents of the repetition shards)
        return ('OK', kv_dump(res) if dump else isinstance(res, Keyvalues)), None
    except KeyValError as exc:
        return ('ERR', exc.mess, exc.line_num), None
    except TokenSyntaxError as exc:
        return ('ERRTOK', exc.mess, exc.line_num), ('wrong_error_type', f'{type(exc).__name__}: {exc.mess}')
    except RecursionError as exc:
        return ('EXC', 'RecursionError'), ('foreign_exception', 'RecursionError')
    except Exception as exc:  # noqa: BLE001
        return ('EXC', type(exc).__name__), ('foreign_exception', f'{type(exc).__name__}: {exc}')


def check_kv(acc: core.Acc, items: tuple, opts: dict) -> None:
    text = ''.join(items)
    ref, problem = run_kv(text, opts)
    acc.evaluations += 1
    if ref[0] == 'OK':
        acc.nontrivial += 1
    acc.outcome(ref[0] if ref[0] != 'ERR' else ('ERR', ref[1][:30]))
    case = {'kv_items': list(items), 'opts': dict(opts)}
    nondefault = sorted(k for k, v in opts.items() if v != KV_DEFAULT[k])
    if problem:
        acc.fail('kv_' + problem[0], case, f'Keyvalues.parse({text!r}, **{opts}) -> {problem[1]}',
                 exc=problem[1].split(':')[0], skipped_block=('[!f]' in items), flag_opts=nondefault)
        return
    n = len(text)
    # a ready-made tokenizer handed to parse(): whatever error class it was built with, parse() reports KeyValError
    for ename, ecls in (('default', TokenSyntaxError), ('foreign', ForeignError), ('keyvalerror', KeyValError)):
        for chunked in (False, True):
            tk = Tokenizer(list(text) if chunked else text, 'other', ecls, string_bracket=True, allow_escapes=opts['allow_escapes'])
            got, problem = run_kv(tk, {k: v for k, v in opts.items() if k != 'allow_escapes'})
            acc.evaluations += 1
            if got != ref or problem:
                acc.fail('kv_tokenizer_route', dict(case, route=f'Tokenizer(error={ename}, chunked={chunked})'),
                         f'text={text!r} opts={opts}\n from the text: {ref}\n from a ready-made Tokenizer built with error class {ecls.__name__}: {got} {problem or ""}')
                return
    deliveries = [list(text)] + [[text[:i], text[i:]] for i in range(1, n)]
    for chunks in deliveries:
        got, problem = run_kv(iter(chunks), opts)
        acc.evaluations += 1
        if got != ref:
            acc.fail('kv_chunk_dependent', dict(case, chunks=chunks),
                     f'text={text!r} opts={opts}\n whole: {ref}\n chunks={chunks!r}: {got}')
            break


# ---------------------------------------------------------------------------------------------
# shards

REP_UNITS = ['/* */ ', '/* */\n', '//c\n', '\n', '\r\n', ' ', '\t', '"a" "b"\n', '"a\\n"', '[f]', '(x)', '{', '}', '{ }\n', 'a+b ', '#', ':', '=', ',', '\ufeff',
             '"a"\n{\n', '/**/', '/*\n*/', '// \\\n']
REP_KV_UNITS = {'"a" "b"\n': '', '//c\n': '', '\n': '', '"a"\n{\n': '}\n', '/* */\n': '', ' ': '', '"a" "b" [f]\n': ''}
REP_MASKS = [0, 127] + [1 << i for i in range(7)] + [127 ^ (1 << i) for i in range(7)]


def shard(spec) -> core.Acc:
    acc = core.Acc()
    kind = spec[0]
    if kind == 'tok':
        _, prefix, length, masks, all_chunk = spec
        rest = length - len(prefix)
        for tail in itertools.product(SIGMA, repeat=rest):
            text = prefix + ''.join(tail)
            for m in masks:
                check_text(acc, text, flags_of(m), all_chunk)
        acc.sample({'text': prefix + SIGMA[0] * rest, 'opts_mask': masks[0], 'chunkings': 'all'}, 1)
    elif kind == 'red':
        _, name, prefix, length = spec
        alpha, fl = REDUCED[name]
        rest = length - len(prefix)
        for tail in itertools.product(alpha, repeat=rest):
            text = prefix + ''.join(tail)
            for m in range(1 << len(fl)):
                opts = flags_of(m, fl)
                check_text(acc, text, opts, True)
        acc.count('reduced_' + name, len(alpha) ** rest)
    elif kind == 'rep':
        _, unit, count = spec
        text = unit * count
        for m in REP_MASKS:
            opts = flags_of(m)
            ref, steps, problem = run_tok(text, opts, len(text), count=True)
            acc.evaluations += 1
            acc.nontrivial += 1
            case = {'rep_unit': unit, 'rep_count': count, 'opts': opts}
            if problem:
                acc.fail('tok_' + problem[0], case, f'{unit!r} x {count} opts={opts}: {problem[1]}', gen='rep')
                continue
            if steps > 2 * len(text) + 8:
                acc.fail('tok_steps', case, f'{unit!r} x {count} opts={opts}: {steps} character fetches for {len(text)} characters', gen='rep')
            for dname, data in (('one unit per chunk', [unit] * count), ('units with 3 empty chunks between', [x for _ in range(count) for x in (unit, '', '', '')]),
                                ('cut inside every unit', [x for _ in range(count) for x in (unit[:1], unit[1:])])):
                got, _, problem = run_tok(iter(data), opts, len(text))
                acc.evaluations += 1
                if got != ref or problem:
                    acc.fail('tok_chunk_dependent', dict(case, chunks=dname), f'{unit!r} x {count} opts={opts}: delivered as {dname}: '
                             f'{problem or "differs from the whole text"}; last tokens {got[-2:]} vs {ref[-2:]}', gen='rep')
                    break
        for opts in ([dict(KV_DEFAULT)] if unit in REP_KV_UNITS else []):
            ref, problem = run_kv(text + REP_KV_UNITS[unit] * count, opts, dump=False)
            acc.evaluations += 1
            if problem or ref[0] not in ('OK', 'ERR'):
                acc.fail('kv_' + (problem or ('?', ''))[0], {'rep_unit': unit, 'rep_count': count, 'opts': opts, 'kv': True},
                         f'Keyvalues.parse({unit!r} x {count}) -> {problem}', gen='rep')
    elif kind in ('kv', 'kvl'):
        _, prefix, length, optsets = spec
        rest = length - len(prefix)
        for tail in itertools.product(KV_ITEMS if kind == 'kv' else KV_LINES, repeat=rest):
            items = tuple(prefix) + tail
            for opts in optsets:
                check_kv(acc, items, opts)
        acc.sample({'kv_items': list(prefix) + [KV_ITEMS[0]] * rest, 'opts': optsets[-1]}, 1)
    return acc


def run(ctx: core.Ctx) -> None:
    q = ctx.quick
    shards = []
    all_masks = list(range(128))
    # (a) tokenizer, full alphabet
    L = 3 if q else 4
    for n in range(0, L + 1):
        if n <= 1:
            shards.append(('tok', '', n, all_masks, True))
        elif n <= 3:
            for c in SIGMA:
                shards.append(('tok', c, n, all_masks, True))
        else:
            for c in itertools.product(SIGMA, repeat=2):
                shards.append(('tok', ''.join(c), n, all_masks, True))
    # (a') longer strings over reduced alphabets
    RL = 5 if q else 7
    for name, (alpha, fl) in REDUCED.items():
        for n in range(4, RL + 1):
            for c in itertools.product(alpha, repeat=2):
                shards.append(('red', name, ''.join(c), n))
    # (b) Keyvalues.parse
    KL = 5 if q else 6
    single = [dict(KV_DEFAULT)] + [dict(KV_DEFAULT, **{k: not KV_DEFAULT[k]}) for k in KV_OPTS]
    allsets = [dict(zip(KV_OPTS, bits)) for bits in itertools.product([False, True], repeat=5)]
    for n in range(0, KL + 1):
        if q:
            optsets = allsets if n <= 3 else single if n == 4 else [dict(KV_DEFAULT)]
        else:
            optsets = allsets if n <= 5 else single
        if n <= 2:
            shards.append(('kv', (), n, optsets))
        else:
            for c in itertools.product(KV_ITEMS, repeat=2):
                shards.append(('kv', c, n, optsets))
    KLL = 4 if q else 6
    for n in range(1, KLL + 1):
        optsets = single if (q or n >= 6) else allsets
        if n <= 2:
            shards.append(('kvl', (), n, optsets))
        else:
            for c in itertools.product(KV_LINES, repeat=2):
                shards.append(('kvl', c, n, optsets))
    # (c) counts: one unit repeated many times (a run of comments, blank lines, brackets ...), 16 option sets, 4 deliveries
    for unit in list(dict.fromkeys(REP_UNITS + list(REP_KV_UNITS))):
        for count in ((400, 1100) if q else (400, 1100, 5000)):
            shards.append(('rep', unit, count))
    # seed only rotates the order in which shards are handed out
    k = ctx.seed % len(shards)
    shards = shards[k:] + shards[:k]
    core.par_map(shard, shards, ctx.acc)
    ctx.rule = (f'tokenizer: every string of length <= {L} over a {len(SIGMA)}-character alphabet x all 128 option '
                f'combinations x every chunking (all 2^(n-1) compositions, lines, empty chunks interleaved); strings '
                f'of length 4..{RL} over 5 reduced 6/7-character alphabets x the options that feature reads x every '
                f'chunking; Keyvalues.parse: every sequence of <= {KL} lexical items from {len(KV_ITEMS)} x parse-option '
                f'sets (all 32 for short sequences, default + single flips beyond), and every sequence of <= {KLL} line-level items from {len(KV_LINES)} x whole / per character / every '
                f'single cut, and from a ready-made tokenizer built with another error class; each short text also with the source failing to decode at its k-th read; {len(REP_UNITS)} syntactic units repeated 400 / 1100{"" if q else " / 5000"} times x 16 option sets x 4 deliveries.  Non-trivial = produces at least one token or an error (tokenizer) / parses (Keyvalues). '
                f'Enumeration yields each (text, options) pair once.')
    ctx.coverage_extra['schedules'] = 'every chunking of every enumerated string'


def replay(case: dict) -> list:
    acc = core.Acc()
    if 'rep_unit' in case:
        sub = shard(('rep', case['rep_unit'], case['rep_count']))
        return [f for f in sub.all_failures() if f.case.get('opts') == case['opts'] and f.case.get('chunks') == case.get('chunks')]
    if 'kv_items' in case:
        check_kv(acc, tuple(case['kv_items']), case['opts'])
    else:
        check_text(acc, case['text'], case['opts'], True)
    return acc.all_failures()
