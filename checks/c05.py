"""C05 — Angle stays in [0,360), frozen values never change, text form is canonical.

Explicit-state BFS over histories of public operations on three mutable registers (Angle A, Vec V,
Matrix M) and three frozen registers (FA, FV, FM), with frozen *witness* objects created in the initial
state and used as operands everywhere.  Canonical form = IEEE bit patterns of every register.
"""
from __future__ import annotations

import copy
import pickle
import re
import struct

from srctools.math import Vec, FrozenVec, Angle, FrozenAngle, Matrix, FrozenMatrix, format_float

from mcv import core, bfs

PROPERTY = 'C05'
LEVEL = 'model_checking'

K = [0.0, -0.0, 360.0, 720.0, -360.0, -1e-14, 1e-14, 359.99999999999994, -1e-9, 1e-9, -4e-7, 90.0, -90.0, 45.5,
     1000000.5, 179.99999999999997, 180.0, 120.0]
KSMALL = [-1e-14, -1e-9, 360.0, 90.0, 45.5]
SCALES = [-1.0, 0.5, 360.0, 1e-14, -1e-14, 2.0, 3.0]
A2 = [(0.0, -1e-14, 0.0), (-1e-14, 0.0, -1e-14), (90.0, 0.0, 0.0), (0.0, 90.0, 0.0), (270.0, 359.99999999999994, 1e-9)]
# recorded known finding (see known_findings.json): does not stop the search from expanding the state
BENIGN = frozenset({'text_negative_zero'})
NUM_RE = re.compile(r'-?\d+(\.\d{1,6})?\Z')


def bits(x: float) -> str:
    return struct.pack('>d', x).hex()


def vbits(v) -> tuple:
    return (bits(v.x), bits(v.y), bits(v.z))


def abits(a) -> tuple:
    return (bits(a.pitch), bits(a.yaw), bits(a.roll))


def mbits(m) -> tuple:
    return tuple(bits(m[i, j]) for i in range(3) for j in range(3))


class St:
    def __init__(self) -> None:
        self.A = Angle(10.0, 20.0, 30.0)
        self.V = Vec(1.0, 2.0, 3.0)
        self.M = Matrix()
        # frozen witnesses: never rebound, used as operands by the operations
        self.WA = FrozenAngle(10.0, 20.0, 30.0)
        self.WV = FrozenVec(1.0, 2.0, 3.0)
        self.WM = FrozenMatrix.from_angle(10.0, 20.0, 30.0)
        self.W0 = (abits(self.WA), vbits(self.WV), mbits(self.WM), hash(self.WA), hash(self.WV))
        # frozen registers produced by operations
        self.FA = self.WA
        self.FV = self.WV
        self.FM = self.WM
        self.F0 = None
        self.results: list = []      # objects returned by the last operation (checked, then dropped)
        self.problems: list = []


def mutate_all_angle(c: Angle) -> None:
    c.pitch = 1.0
    c[1] = 2.0
    c *= 2.0
    c @= Matrix.from_yaw(33.0)
    with c.transform() as m:
        m @= Matrix.from_roll(5.0)


def mutate_all_vec(c: Vec) -> None:
    c.x = 9.0
    c[1] = 8.0
    c += Vec(1, 1, 1)
    c *= 2.0
    c @= Matrix.from_yaw(33.0)
    c.localise(Vec(1, 2, 3), Angle(0, 90, 0))


def mutate_all_mat(c: Matrix) -> None:
    c[0, 0] = 5.0
    c @= Matrix.from_yaw(33.0)


def apply(st: St, op: list) -> None:
    k = op[0]
    A, V, M = st.A, st.V, st.M
    res = st.results = []
    try:
        # ------------------------------------------------------------------ Angle
        if k == 'A_set':
            setattr(A, op[1], op[2])
        elif k == 'A_idx':
            A[op[1]] = op[2]
        elif k == 'A_new':
            st.A = Angle(op[1], op[2], op[3])
        elif k == 'A_new_iter':
            st.A = Angle([op[1], op[2]], 0.0, op[1])
        elif k == 'A_deprecated':
            # older entry points that still hand out angles / rotate in place
            import warnings
            with warnings.catch_warnings():
                warnings.simplefilter('ignore', DeprecationWarning)
                for axis in (Vec(op[1] or 1.0, 0, 0), Vec(0, -1.0, 0), Vec(0, 0, op[1] or 1.0)):
                    res.append(axis.rotation_around(op[1]))
                st.A = Vec(0, 0, 1.0).rotation_around(op[1])
                try:
                    res.append(Vec(1, 0, 0).to_angle_roll(Vec(0, 0, 1)))
                    res.append((Vec(1, 0, 0) @ A).to_angle_roll(Vec(0, 0, 1) @ A))
                except (ValueError, ZeroDivisionError):
                    pass
                V.rotate_by_str(str(st.FA), roll=op[1])
                V.rotate(op[1], A.yaw, -op[1])
            st.M = Matrix.from_angstr(str(A), roll=op[1])
            res.append(FrozenMatrix.from_angstr(st.FA))
            res.append((1.0, 2.0, 3.0) @ st.WM)
            res.append(st.WV @ M)
            res.append(st.WM.forward(2.0))
        elif k == 'A_from_vecobj':
            # the single-argument constructor forms: a vector object, a frozen vector, the V register (any magnitude)
            st.A = Angle(Vec(op[1], -op[1], 720.0 + op[1]))
            st.FA = FrozenAngle(FrozenVec(-op[1], 360.0, op[1]))
            res.append(Angle(V))
            res.append(FrozenAngle(st.FV))
            res.append(Angle(-Vec(0.0, 90.0, op[1])))
        elif k == 'FA_new':
            st.FA = FrozenAngle(op[1], op[2], op[3])
        elif k == 'FA_new_iter':
            st.FA = FrozenAngle((x for x in [op[1]]), op[1], op[1])
        elif k == 'A_with_axes':
            st.A = Angle.with_axes('yaw', op[1], 'roll', op[1])
            st.FA = FrozenAngle.with_axes('pitch', op[1], 'yaw', A)
        elif k == 'A_imul':
            A *= op[1]
        elif k == 'A_mul':
            st.A = A * op[1]
            st.FA = op[1] * st.FA
        elif k == 'A_imat_M':
            A @= M
        elif k == 'A_imat_WM':
            A @= st.WM
        elif k == 'A_imat_A2':
            A @= Angle(*op[1])
        elif k == 'A_imat_FA':
            A @= st.FA
        elif k == 'A_rmat_A2':
            st.A = Angle(*op[1]) @ A
        elif k == 'FA_mat':
            st.FA = st.FA @ A
            res.append(st.FA @ M)
            res.append(st.WA @ st.WM)
        elif k == 'A_mat_M':
            st.A = A @ M
        elif k == 'A_transform':
            with A.transform() as m:
                m @= getattr(Matrix, op[1])(op[2])
        elif k == 'A_from_M':
            st.A = M.to_angle()
        elif k == 'A_from_basis':
            st.A = Angle.from_basis(x=Vec(1, 0, 0) @ M, y=Vec(0, 1, 0) @ M)
            st.FA = FrozenAngle.from_basis(x=Vec(1, 0, 0) @ M, z=Vec(0, 0, 1) @ M)
        elif k == 'A_from_V':
            st.A = V.to_angle(op[1])
        elif k == 'A_str':
            st.A = Angle.from_str(str(A))
            res.append(FrozenAngle.from_str(str(st.FA)))
        elif k == 'A_copy':
            how = op[1]
            c = {'copy': A.copy, 'copy.copy': lambda: copy.copy(A), 'deepcopy': lambda: copy.deepcopy(A),
                 'pickle': lambda: pickle.loads(pickle.dumps(A)), 'ctor': lambda: Angle(A),
                 'from_str': lambda: Angle.from_str(A), 'thaw_freeze': lambda: A.freeze().thaw()}[how]()
            before = abits(A)
            if c is A or abits(c) != before or not (c == A):
                st.problems.append(('copy_not_equal_distinct', f'Angle {how}: copy is source or differs'))
            mutate_all_angle(c)
            if abits(A) != before:
                st.problems.append(('copy_aliases_source', f'Angle {how}: mutating the copy changed the source'))
            c2 = {'copy': A.copy, 'copy.copy': lambda: copy.copy(A), 'deepcopy': lambda: copy.deepcopy(A),
                  'pickle': lambda: pickle.loads(pickle.dumps(A)), 'ctor': lambda: Angle(A),
                  'from_str': lambda: Angle.from_str(A), 'thaw_freeze': lambda: A.freeze().thaw()}[how]()
            A.yaw = op[2]
            if abits(c2) != before:
                st.problems.append(('copy_aliases_source', f'Angle {how}: mutating the source changed the copy'))
        elif k == 'A_freeze':
            st.FA = A.freeze()
            res.append(FrozenAngle(A))
            res.append(FrozenAngle(st.FA))
            if FrozenAngle(st.FA) is not st.FA or st.FA.copy() is not st.FA:
                st.problems.append(('frozen_copy_not_self', 'FrozenAngle(x)/copy() of a FrozenAngle is documented to return self'))
            before = abits(st.FA)
            A.pitch = op[1]
            if abits(st.FA) != before:
                st.problems.append(('freeze_aliases_source', 'mutating the Angle changed its frozen copy'))
        elif k == 'A_thaw':
            st.A = st.FA.thaw()
            before = abits(st.FA)
            mutate_all_angle(st.A)
            if abits(st.FA) != before:
                st.problems.append(('thaw_aliases_source', 'mutating the thawed Angle changed the FrozenAngle'))
        elif k == 'F_pickle':
            # frozen values of DIFFERENT classes holding the same three numbers, through the copy protocols one after the other
            # (order op[1]): each must come back as its own class, equal to and as immutable as what went in
            fa = st.FA
            fv = FrozenVec(fa.pitch, fa.yaw, fa.roll)
            pair = [('FrozenAngle', fa), ('FrozenVec', fv)]
            if op[1]:
                pair.reverse()
            for how, fn in (('pickle', lambda o: pickle.loads(pickle.dumps(o))), ('deepcopy', copy.deepcopy), ('copy.copy', copy.copy),
                            ('pickle-0', lambda o: pickle.loads(pickle.dumps(o, 0)))):
                for tname, obj in pair:
                    try:
                        back = fn(obj)
                    except Exception as exc:  # noqa: BLE001
                        st.problems.append(('frozen_copy_wrong', f'{how} of {obj!r} raised {type(exc).__name__}: {exc}'))
                        continue
                    if type(back) is not type(obj) or not (back == obj) or hash(back) != hash(obj) or \
                            (abits(back) != abits(obj) if tname == 'FrozenAngle' else vbits(back) != vbits(obj)):
                        st.problems.append(('frozen_copy_wrong', f'{how} of {obj!r} (after the same numbers as the other frozen class) gave {back!r}'))
                    res.append(back)
        # ------------------------------------------------------------------ Matrix
        elif k == 'M_from_A':
            st.M = Matrix.from_angle(A)
            st.FM = FrozenMatrix.from_angle(st.FA)
        elif k == 'M_axis':
            st.M = getattr(Matrix, op[1])(op[2])
        elif k == 'M_imat':
            M @= getattr(Matrix, op[1])(op[2])
        elif k == 'M_imat_A':
            M @= A
        elif k == 'M_imat_W':
            M @= st.WM
            M @= st.WA
        elif k == 'M_transpose':
            st.M = M.transpose()
            st.FM = st.FM.transpose()
        elif k == 'M_inverse':
            st.M = M.inverse()
            st.FM = st.FM.inverse()
        elif k == 'FM_mat':
            st.FM = st.FM @ M
            res.append(st.FM @ st.WA)
            # the frozen witness as LEFT operand of every matrix product form
            res.append(st.WM @ A)
            res.append(st.WM @ st.WA)
            res.append(st.WM @ M)
            res.append(st.WM @ st.WM)
            x = st.WM
            x @= A            # must rebind, not rotate the witness
            res.append(x)
        elif k == 'M_copy':
            how = op[1]
            mk = {'copy': M.copy, 'deepcopy': lambda: copy.deepcopy(M), 'pickle': lambda: pickle.loads(pickle.dumps(M)),
                  'ctor': lambda: Matrix(M), 'thaw_freeze': lambda: M.freeze().thaw()}[how]
            c = mk()
            before = mbits(M)
            if c is M or mbits(c) != before or not (c == M):
                st.problems.append(('copy_not_equal_distinct', f'Matrix {how}: copy is source or differs'))
            mutate_all_mat(c)
            if mbits(M) != before:
                st.problems.append(('copy_aliases_source', f'Matrix {how}: mutating the copy changed the source'))
            c2 = mk()
            M @= Matrix.from_pitch(12.0)
            if mbits(c2) != before:
                st.problems.append(('copy_aliases_source', f'Matrix {how}: mutating the source changed the copy'))
        elif k == 'M_freeze':
            st.FM = M.freeze()
            before = mbits(st.FM)
            M @= Matrix.from_roll(7.0)
            if mbits(st.FM) != before:
                st.problems.append(('freeze_aliases_source', 'mutating the Matrix changed its frozen copy'))
            if st.FM.copy() is not st.FM:
                st.problems.append(('frozen_copy_not_self', 'FrozenMatrix.copy() is documented to return self'))
        elif k == 'M_setitem':
            res.append(M.freeze())          # a frozen copy taken just before the cell is edited
            M[op[1], op[2]] = op[3]
            res.append(M.freeze())
        elif k == 'M_thaw':
            st.M = st.FM.thaw()
            before = mbits(st.FM)
            mutate_all_mat(st.M)
            if mbits(st.FM) != before:
                st.problems.append(('thaw_aliases_source', 'mutating the thawed Matrix changed the FrozenMatrix'))
        # ------------------------------------------------------------------ Vec
        elif k == 'V_new':
            st.V = Vec(op[1], op[2], op[3])
            st.FV = FrozenVec(op[3], op[1], op[2])
        elif k == 'V_setx':
            V.x = op[1]
            V['z'] = op[1]
        elif k == 'V_iadd':
            V += op[1]
        elif k == 'V_isub':
            V -= Vec(op[1], 0.0, -op[1])
        elif k == 'V_imul':
            V *= op[1]
        elif k == 'V_neg':
            st.V = -V
            st.FV = -st.FV
        elif k == 'V_imat_A':
            V @= A
        elif k == 'V_imat_M':
            V @= M
        elif k == 'V_imat_W':
            V @= st.WA
            V @= st.WM
        elif k == 'FV_mat':
            st.FV = st.FV @ A
            res.append(st.FV @ M)
            res.append(st.WV @ st.WA)
            res.append(st.WV @ st.WM)
            res.append((1.0, 2.0, 3.0) @ A)
        elif k == 'FV_arith':
            st.FV = (st.FV + V) * 0.5 - st.WV
            x = st.WV
            x += V           # must rebind, not mutate the witness
            x @= A
            res.append(x)
            res.append(st.WV.cross(V))
            res.append(st.WV.norm())
        elif k == 'V_localise':
            V.localise(st.WV, A)
        elif k == 'V_localise_M':
            V.localise(Vec(op[1], 0, 0), st.WM)
        elif k == 'V_str':
            st.V = Vec.from_str(str(V))
            res.append(FrozenVec.from_str(str(st.FV)))
        elif k == 'V_copy':
            how = op[1]
            mk = {'copy': V.copy, 'deepcopy': lambda: copy.deepcopy(V), 'pickle': lambda: pickle.loads(pickle.dumps(V)),
                  'ctor': lambda: Vec(V), 'from_str': lambda: Vec.from_str(V), 'thaw_freeze': lambda: V.freeze().thaw()}[how]
            c = mk()
            before = vbits(V)
            if c is V or vbits(c) != before or not (c == V):
                st.problems.append(('copy_not_equal_distinct', f'Vec {how}: copy is source or differs'))
            mutate_all_vec(c)
            if vbits(V) != before:
                st.problems.append(('copy_aliases_source', f'Vec {how}: mutating the copy changed the source'))
            c2 = mk()
            V.y = op[2]
            if vbits(c2) != before:
                st.problems.append(('copy_aliases_source', f'Vec {how}: mutating the source changed the copy'))
        elif k == 'V_freeze':
            st.FV = V.freeze()
            before = vbits(st.FV)
            V.x = op[1]
            if vbits(st.FV) != before:
                st.problems.append(('freeze_aliases_source', 'mutating the Vec changed its frozen copy'))
            if FrozenVec(st.FV) is not st.FV or st.FV.copy() is not st.FV:
                st.problems.append(('frozen_copy_not_self', 'FrozenVec(x)/copy() of a FrozenVec is documented to return self'))
        elif k == 'V_thaw':
            st.V = st.FV.thaw()
            before = vbits(st.FV)
            mutate_all_vec(st.V)
            if vbits(st.FV) != before:
                st.problems.append(('thaw_aliases_source', 'mutating the thawed Vec changed the FrozenVec'))
        elif k == 'poke_frozen':
            # every public mutator must be rejected on frozen objects
            for obj, attempts in ((st.WA, [lambda o: setattr(o, 'pitch', 1.0), lambda o: o.__setitem__(0, 1.0)]),
                                  (st.WV, [lambda o: setattr(o, 'x', 1.0), lambda o: o.__setitem__('x', 1.0),
                                           lambda o: o.localise(Vec(1, 1, 1))]),
                                  (st.WM, [lambda o: o.__setitem__((0, 0), 5.0)])):
                for att in attempts:
                    try:
                        att(obj)
                    except (AttributeError, TypeError):
                        pass
                    else:
                        st.problems.append(('frozen_mutator_accepted', f'a mutator on {type(obj).__name__} did not raise'))
        else:
            raise AssertionError(op)
    except Exception as exc:  # noqa: BLE001
        st.problems.append(('op_raised', f'{op} raised {type(exc).__name__}: {exc}'))


CORE_CONST = {-1e-14, 360.0, -90.0, 359.99999999999994, 90.0, -1e-9, 1e-14, -1.0, 180.0, 2.0}


def is_core(op: list) -> bool:
    """Reduced alphabet for the deeper search: every operation kind, boundary constants only."""
    k = op[0]
    nums = [x for x in op[1:] if isinstance(x, float)]
    if k in ('A_idx', 'A_new', 'A_new_iter', 'FA_new', 'FA_new_iter', 'A_with_axes', 'A_mul', 'V_setx', 'V_iadd', 'V_isub',
             'V_localise_M', 'M_copy', 'V_copy'):
        return False
    if k == 'A_copy':
        return op[1] in ('copy', 'pickle')
    if k in ('A_transform', 'M_imat'):
        return op[2] == -1e-14
    if k == 'M_axis':
        return op[2] in (-1e-14, 90.0)
    if k in ('A_imat_A2', 'A_rmat_A2'):
        return op[1][0] in (0.0, 90.0) and op[1][1] in (-1e-14, 0.0)
    if k in ('V_new', 'V_freeze', 'A_from_V'):
        return nums[0] == -1e-9
    return all(x in CORE_CONST for x in nums)


class Model(bfs.Model):
    def __init__(self, core_only: bool = False) -> None:
        self.core_only = core_only

    def build(self, history: list) -> St:
        st = St()
        for op in history:
            apply(st, op)
        return st

    def enabled(self, st: St) -> list:
        ops: list = []
        for ax in ('pitch', 'yaw', 'roll'):
            for kv in K:
                ops.append(['A_set', ax, kv])
        for kv in KSMALL:
            ops.append(['A_idx', 0, kv])
            ops.append(['A_idx', 'y', kv])
            ops.append(['A_new', kv, kv, kv])
            ops.append(['A_new_iter', kv, -kv])
            ops.append(['FA_new', kv, 0.0, -kv])
            ops.append(['FA_new_iter', kv])
            ops.append(['A_with_axes', kv])
            ops.append(['A_from_V', kv])
            ops.append(['A_from_vecobj', kv])
            ops.append(['A_deprecated', kv])
        for s in SCALES:
            ops.append(['A_imul', s])
            ops.append(['A_mul', s])
            ops.append(['V_imul', s])
        ops += [['A_imat_M'], ['A_imat_WM'], ['A_imat_FA'], ['A_mat_M'], ['A_from_M'], ['A_from_basis'], ['A_str'], ['FA_mat']]
        for a2 in A2:
            ops.append(['A_imat_A2', list(a2)])
            ops.append(['A_rmat_A2', list(a2)])
        for fn in ('from_yaw', 'from_pitch', 'from_roll'):
            for kv in (-1e-14, 1e-9, 90.0, 45.5):
                ops.append(['A_transform', fn, kv])
                ops.append(['M_axis', fn, kv])
                ops.append(['M_imat', fn, kv])
        for how in ('copy', 'copy.copy', 'deepcopy', 'pickle', 'ctor', 'from_str', 'thaw_freeze'):
            ops.append(['A_copy', how, -1e-14])
        for how in ('copy', 'deepcopy', 'pickle', 'ctor', 'thaw_freeze'):
            ops.append(['M_copy', how])
        for how in ('copy', 'deepcopy', 'pickle', 'ctor', 'from_str', 'thaw_freeze'):
            ops.append(['V_copy', how, -1e-9])
        ops += [['F_pickle', False], ['F_pickle', True]]
        ops += [['A_freeze', -1e-14], ['A_thaw'], ['M_from_A'], ['M_imat_A'], ['M_imat_W'], ['M_transpose'], ['M_inverse'],
                ['FM_mat'], ['M_freeze'], ['M_thaw'], ['M_setitem', 0, 1, 0.5], ['M_setitem', 2, 2, -1.0]]
        for kv in (-1e-9, 1e-9, -4e-7, 4e-7, 0.5, 1000000.5, -0.0, 5e-05, 1.234e-05, 6e-07, 1e16, 123456789012345678.0):
            ops.append(['V_new', kv, -kv, 0.0])
            ops.append(['V_setx', kv])
            ops.append(['V_iadd', kv])
            ops.append(['V_isub', kv])
            ops.append(['V_freeze', kv])
            ops.append(['V_localise_M', kv])
        ops += [['V_neg'], ['V_imat_A'], ['V_imat_M'], ['V_imat_W'], ['FV_mat'], ['FV_arith'], ['V_localise'], ['V_str'],
                ['V_thaw'], ['poke_frozen']]
        if self.core_only:
            ops = [op for op in ops if is_core(op)]
        return ops

    def canon(self, st: St):
        return (abits(st.A), vbits(st.V), mbits(st.M), abits(st.FA), vbits(st.FV), mbits(st.FM), len(st.problems))

    def check(self, st: St, history: list, acc: core.Acc) -> None:
        acc.evaluations += 1
        case = {'history': history}
        lastop = history[-1][0] if history else ''
        for kind, msg in st.problems:
            acc.fail(kind, case, f'history={history}\n {msg}', op=lastop)
        st.problems = []
        if history:
            acc.nontrivial += 1
        # (1) range of every Angle / FrozenAngle in sight
        angles = [('A', st.A), ('FA', st.FA), ('WA', st.WA)] + [(f'result{i}', r) for i, r in enumerate(st.results)
                                                                 if isinstance(r, (Angle, FrozenAngle))]
        for name, a in angles:
            for ax in ('pitch', 'yaw', 'roll'):
                x = getattr(a, ax)
                if not (0.0 <= x < 360.0):
                    acc.fail('angle_out_of_range', case, f'history={history}\n {name}.{ax} = {x!r} is outside [0, 360)',
                             op=lastop, value=repr(x))
                    break
        # (2) frozen witnesses unchanged
        now = (abits(st.WA), vbits(st.WV), mbits(st.WM), hash(st.WA), hash(st.WV))
        if now != st.W0:
            acc.fail('frozen_changed', case, f'history={history}\n a frozen witness changed value or hash: {st.W0} -> {now}', op=lastop)
        # frozen registers must still hold the bits they had when produced: re-checked via hash stability
        for name, f in (('FA', st.FA), ('FV', st.FV)):
            if hash(f) != hash(f):
                acc.fail('frozen_hash_unstable', case, f'history={history}\n hash({name}) not stable', op=lastop)
        # (2b) freeze()/thaw()/copy() of the registers equal their source NOW (whatever was converted earlier), and mutable
        # results derived from frozen objects are private to the caller
        for name, obj, bitsfn in (('M', st.M, mbits), ('A', st.A, abits), ('V', st.V, vbits)):
            fz = obj.freeze()
            if bitsfn(fz) != bitsfn(obj) or bitsfn(fz.thaw()) != bitsfn(obj) or bitsfn(obj.copy()) != bitsfn(obj):
                acc.fail('conversion_not_equal', case, f'history={history}\n {name}.freeze() / .freeze().thaw() / .copy() differs from {name} itself', op=lastop, reg=name)
        for name, fobj, bitsfn in (('FM', st.FM, mbits), ('FA', st.FA, abits), ('FV', st.FV, vbits)):
            before_f = bitsfn(fobj)
            derived = [fobj.thaw()]
            if name == 'FM':
                derived += [fobj.to_angle(), fobj.forward(), fobj.left(), fobj.up(), fobj.transpose().thaw(), fobj.inverse().thaw()]
            elif name == 'FV':
                derived += [fobj.to_angle(), fobj.norm().thaw(), Vec(fobj)]
            else:
                derived += [Angle(fobj), Matrix.from_angle(fobj)]
            first = [tuple(d) if not isinstance(d, Matrix) else mbits(d) for d in derived]
            for d in derived:
                if isinstance(d, Angle):
                    d.yaw = (d.yaw + 33.0) % 360.0
                    d *= 2.0
                elif isinstance(d, Vec):
                    d.x += 1.5
                    d *= 2.0
                elif isinstance(d, Matrix):
                    d @= Matrix.from_yaw(33.0)
            again = [fobj.thaw()]
            if name == 'FM':
                again += [fobj.to_angle(), fobj.forward(), fobj.left(), fobj.up(), fobj.transpose().thaw(), fobj.inverse().thaw()]
            elif name == 'FV':
                again += [fobj.to_angle(), fobj.norm().thaw(), Vec(fobj)]
            else:
                again += [Angle(fobj), Matrix.from_angle(fobj)]
            second = [tuple(d) if not isinstance(d, Matrix) else mbits(d) for d in again]
            if bitsfn(fobj) != before_f or first != second:
                acc.fail('frozen_result_shared', case, f'history={history}\n mutating objects derived from {name} (thaw / to_angle / axes / ...) changed {name} or what it hands out next: '
                         f'{first} -> {second}', op=lastop, reg=name)
        # (2c) methods of the MUTABLE types documented as returning a copy / new value hand out a new object, also when nothing
        # had to change (already inside the bounds, already unit length, zero rotation, factor 1 ...)
        V0, A0, M0 = st.V, st.A, st.M
        big = 1e300
        fresh = {
            'V.clamped(in bounds)': lambda: V0.clamped(Vec(-big, -big, -big), Vec(big, big, big)),
            'V.clamped(mins=)': lambda: V0.clamped(mins=Vec(-big, -big, -big)),
            'V.copy()': V0.copy, 'V + 0': lambda: V0 + Vec(0, 0, 0), 'V * 1': lambda: V0 * 1.0, 'V @ identity': lambda: V0 @ Matrix(),
            '+V': lambda: +V0, 'V.with_axes': lambda: V0.with_axes('x', V0.x),
            'V.lerp-free round()': lambda: round(V0, 6), 'abs(V) or V': lambda: abs(V0),
            'A.copy()': A0.copy, 'A * 1': lambda: A0 * 1.0, 'A @ zero': lambda: A0 @ Angle(0, 0, 0), 'A @ identity': lambda: A0 @ Matrix(),
            'M.copy()': M0.copy, 'M @ identity': lambda: M0 @ Matrix(), 'M.transpose()': M0.transpose, 'M.inverse()': M0.inverse,
        }
        for label, fn in fresh.items():
            try:
                r = fn()
            except Exception as exc:  # noqa: BLE001
                acc.fail('op_raised', case, f'history={history}\n {label} raised {type(exc).__name__}: {exc}', op=lastop)
                continue
            if r is V0 or r is A0 or r is M0:
                acc.fail('copy_is_source', case, f'history={history}\n {label} returned the object itself, not a new value', op=lastop, method=label.split('(')[0])
        # (3) canonical text
        for name, obj, comps in (('A', st.A, abits), ('FA', st.FA, abits), ('V', st.V, vbits), ('FV', st.FV, vbits)):
            text = str(obj)
            # the other documented string forms agree with str(): join(' '), format() with an empty spec, f-strings; join(', ') joins the same numbers
            forms = {'join': obj.join(' '), 'format': format(obj, ''), 'fstring': f'{obj}', 'join_comma': obj.join(', ').replace(', ', ' ')}
            # explicit format specs: every component printed with the spec, to the precision the spec asks for
            for spec, tol in (('.3f', 5e-4), ('.0f', 0.5), ('.1f', 0.05), ('g', None), ('.8f', 5e-9)):
                ftext = format(obj, spec)
                fparts = ftext.split(' ')
                ok = len(fparts) == 3
                if ok:
                    for fp, x in zip(fparts, list(obj)):
                        try:
                            val = float(fp)
                        except ValueError:
                            ok = False
                            break
                        lim = (tol if tol is not None else 5e-6 * max(1.0, abs(x))) + abs(x) * 1e-15
                        if abs(val - x) > lim:
                            ok = False
                            break
                if not ok:
                    acc.fail('text_format_spec', case, f'history={history}\n format({name}, {spec!r}) = {ftext!r} for {list(obj)!r}', op=lastop, spec=spec)
                    break
            odd = [(k, v) for k, v in forms.items() if v != text]
            if odd:
                acc.fail('text_forms_disagree', case, f'history={history}\n str({name}) = {text!r} but {odd[0][0]} gives {odd[0][1]!r}', op=lastop)
                continue
            parts = text.split(' ')
            vals = list(obj)
            probs = [] if len(parts) == 3 else [(False, f'{len(parts)} components')]
            for p, x in zip(parts, vals):
                if p == '-0':
                    probs.append((True, "component '-0' (negative zero)"))
                elif not NUM_RE.match(p) or (p.startswith('-') and float(p) == 0.0):
                    probs.append((False, f'component {p!r} is not a plain decimal with <= 6 places'))
                elif abs(float(p) - x) > 5e-7 + abs(x) * 1e-15:
                    probs.append((False, f'component {p!r} is not within 5e-7 of {x!r}'))
            other = [w for nz, w in probs if not nz]
            if other:
                acc.fail('text_not_canonical', case, f'history={history}\n str({name}) = {text!r} for {vals!r}: {other[0]}',
                         op=lastop, negzero=False)
                continue
            if probs:
                # smallest magnitude that prints as -0, for the finding predicate
                acc.fail('text_negative_zero', case, f'history={history}\n str({name}) = {text!r} for {vals!r}: {probs[0][1]}',
                         cls=type(obj).__name__)
                continue
            back = type(obj).from_str(text)
            if any(abs(a - b) > 5e-7 + abs(b) * 1e-15 for a, b in zip(back, vals)):
                # an Angle of 359.9999999 prints as 360 and parses back to 0: equal modulo 360
                if isinstance(obj, (Angle, FrozenAngle)) and all(abs((a - b + 180.0) % 360.0 - 180.0) <= 5e-7 for a, b in zip(back, vals)):
                    continue
                acc.fail('text_not_parsed_back', case, f'history={history}\n {type(obj).__name__}.from_str({text!r}) = {list(back)!r}, value was {vals!r}', op=lastop)
        acc.outcome((lastop, tuple(round(x, 3) for x in st.A)))


def run(ctx: core.Ctx) -> None:
    model = Model()
    res = bfs.explore(model, ctx.acc, ctx.pick(2, 3), chunk=ctx.pick(40, 200), benign_kinds=BENIGN)
    core_model = Model(core_only=True)
    a2 = core.Acc()
    res2 = bfs.explore(core_model, a2, ctx.pick(3, 4), chunk=ctx.pick(40, 200), benign_kinds=BENIGN)
    ctx.acc.merge(a2)
    ctx.coverage_extra.update({'states': res['states'] + res2['states'], 'transitions': res['transitions'] + res2['transitions'],
                               'traces_validated_against_impl': res['transitions'] + res2['transitions'],
                               'depth_completed': {'full_alphabet': res['depth_completed'], 'core_alphabet': res2['depth_completed']},
                               'alphabet_sizes': {'full': len(model.enabled(model.build([]))), 'core': len(core_model.enabled(core_model.build([])))},
                               'states_per_level': {'full': res['per_level'], 'core': res2['per_level']}})
    ctx.acc.sample({'history': [['M_axis', 'from_yaw', -1e-14], ['A_from_M']]})
    nops = len(model.enabled(model.build([])))
    ctx.rule = (f'BFS over all histories of <= {res["depth_completed"]} operations from a menu of {nops} (and of <= '
                f'{res2["depth_completed"]} operations from the reduced boundary-constant menu) (constructor forms, '
                f'setters, item assignment, *=, @= with Angle/Matrix/frozen operands, reflected @, transform() blocks, to_angle, '
                f'from_basis, Vec.to_angle, str/from_str, copy/copy.copy/deepcopy/pickle/ctor/freeze-thaw with mutation of either '
                f'side, Matrix and Vec arithmetic, public mutators poked at frozen objects) over boundary constants '
                f'{K}; states deduplicated on the IEEE bit patterns of all six registers.  Every transition executes the real '
                f'classes.  Non-trivial = every non-initial state.')


def replay(case: dict) -> list:
    model = Model()
    acc = core.Acc()
    hist = case['history']
    for i in range(len(hist) + 1):
        st = model.build(hist[:i])
        model.check(st, hist[:i], acc)
        if any(k not in BENIGN for k in acc.fail_counts):
            break          # (the recorded '-0' finding at an earlier prefix must not hide the failure being replayed)
    return acc.all_failures()
