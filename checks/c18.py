"""C18 — a constrained directory filesystem (RawFileSystem, constrain_path=True) never reaches outside its root.

Explored exhaustively (bounded): every path string built from <= N segments over an escape-relevant
segment alphabet (plus the absolute spellings of the root and of two siblings whose names extend the
root's name as first segment), joined by every enumerated separator assignment of '/' and '\\',
x every way the root is handed to the filesystem (absolute, trailing separator, relative to the cwd,
os.PathLike, through a FileSystemChain with and without a subfolder prefix)
x the operations {in, [], open_bin, open_str, walk_folder}, all against a REAL directory tree on tmpfs in
which every file outside the root carries a unique sentinel.

Oracle (independent of filesys.py): an own lexical resolver over path components decides where a path
leads; observations are the real path of every opened handle / returned File and the bytes read.
packlist.unify_path is enumerated over the same strings.
"""
from __future__ import annotations

import itertools
import os
import pathlib
import shutil

from srctools.filesys import RawFileSystem, FileSystemChain, RootEscapeError
from srctools.packlist import unify_path

from mcv import core

PROPERTY = 'C18'
LEVEL = 'exploration'

SEGS = ['..', '.', '', 'sub', 'f.txt', 'g.txt', 'root', 'root_evil', 'rootX', 'Root', 'secret.txt', 'outside.txt']
# absolute spellings of W/root, W/root_evil, W/rootX (only as first segment), with either slash
ABS_TOKENS = ['@/root', '@/root_evil', '@/rootX', '@/Root', '@\\root', '@\\root_evil', '@\\rootX']
FIRSTS = SEGS + ABS_TOKENS
SEGS_LOOK = ['\u2025', '\uff0e\uff0e', '\u2025\uff0fsecret.txt', '\uff0e\uff0e\uff0fsecret.txt', 'sub\uff0f\u2025', '\u2025\uff3csecret.txt',
             '\u2024\u2024', '..', 'sub', 'secret.txt', 'root_evil']

# how the root reaches the filesystem.  (name, via)
CONFIGS = ['abs', 'abs_slash', 'pathlike', 'rel', 'rel_dot_slash', 'rel_updown', 'chain_plain', 'chain_sub',
           'chain_sub_slash', 'chain_up', 'chain_evil', 'chain_sub_evil']
OPS = ['in', 'getitem', 'open_bin', 'open_str', 'walk']
ESCAPING_PREFIX_CONFIGS = ('chain_up', 'chain_evil', 'chain_sub_evil')
OPS_SEQ = OPS + ['in', 'open_bin']     # per (file system, path): every operation, then the first ones again (a repeated request)

INSIDE = {
    'root/f.txt': b'inside-f',
    'root/sub/g.txt': b'inside-g',
}
# every file outside the root carries a unique sentinel; names mirror the ones the alphabet can spell
OUTSIDE = [
    'outside.txt', 'f.txt', 'g.txt', 'sub/g.txt', 'secret.txt',
    'root_evil/secret.txt', 'root_evil/f.txt', 'root_evil/g.txt', 'root_evil/sub/g.txt', 'root_evil/outside.txt',
    'rootX/s.txt', 'rootX/f.txt', 'rootX/g.txt', 'rootX/sub/g.txt', 'rootX/secret.txt',
    'Root/f.txt', 'Root/g.txt', 'Root/sub/g.txt', 'Root/secret.txt',      # differs from the root in case only (a sibling on POSIX)
    'r/f.txt', 'r/g.txt', 'r/sub/g.txt', 'r/secret.txt', 'r/root/f.txt', 'r/root/sub/g.txt',
]
READ_CAP = 1 << 16
WALK_CAP = 64       # the whole fixture has < 30 files: a longer walk has left it


def sentinel(rel: str) -> bytes:
    return ('SENTINEL-OUTSIDE<' + rel + '>').encode()


def build_fixture(W: str) -> None:
    for rel, data in INSIDE.items():
        p = os.path.join(W, rel)
        os.makedirs(os.path.dirname(p), exist_ok=True)
        with open(p, 'wb') as f:
            f.write(data)
    for rel in OUTSIDE:
        p = os.path.join(W, rel)
        os.makedirs(os.path.dirname(p), exist_ok=True)
        with open(p, 'wb') as f:
            f.write(sentinel(rel))


class World:
    """The fixture as the oracle sees it: component tuples of every file, root components, contents."""

    def __init__(self, W: str):
        self.W = W
        self.Wc = tuple(c for c in os.path.realpath(W).split('/') if c)
        self.root = self.Wc + ('root',)
        self.files: dict[tuple, bytes] = {}
        for rel, data in INSIDE.items():
            self.files[self.Wc + tuple(rel.split('/'))] = data
        for rel in OUTSIDE:
            self.files[self.Wc + tuple(rel.split('/'))] = sentinel(rel)
        self.inside_data = set(INSIDE.values())
        self.real_root = '/' + '/'.join(self.root)

    def is_inside(self, loc: tuple) -> bool:
        return loc[:len(self.root)] == self.root

    def real_inside(self, path: str) -> bool:
        rp = os.path.realpath(path)
        return rp == self.real_root or rp.startswith(self.real_root + '/')

    def show(self, s: str) -> str:
        return s.replace(self.W, '<W>').replace(self.W.replace('/', '\\'), '<W\\>')


def resolve(base: tuple, path: str, both_slashes: bool) -> tuple:
    """Own lexical resolver.  both_slashes=False: POSIX reading (only '/' separates);
    True: the library's documented reading (both slashes are separators)."""
    if both_slashes:
        path = path.replace('\\', '/')
    comps = [] if path.startswith('/') else list(base)
    for c in path.split('/'):
        if c == '' or c == '.':
            continue
        if c == '..':
            if comps:
                comps.pop()
        else:
            comps.append(c)
    return tuple(comps)


def candidates(world: World, prefix: str, path: str) -> tuple[set, set]:
    """(narrow, broad) sets of locations the path may denote.
    narrow: the two slash readings, with os.path.join semantics for a chain prefix (an absolute name discards
            the prefix) - used to DEMAND RootEscapeError when every reading leaves the root;
    broad:  additionally the readings where the name is always taken relative to the prefix - used to JUSTIFY
            a positive existence answer."""
    narrow = set()
    broad = set()
    pre = prefix.rstrip('/')
    for both in (False, True):
        p = path.replace('\\', '/') if both else path
        if pre and not p.startswith('/'):
            joined = pre + '/' + p
        else:
            joined = p
        narrow.add(resolve(world.root, joined, both))
        if pre:
            broad.add(resolve(world.root, pre + '/' + p.lstrip('/'), both))
    if pre and not path.startswith('/'):
        # hybrid reading: the chain joins prefix and name as POSIX strings, the result is then read with both
        # slashes as separators (a name starting with a backslash stays relative to the prefix)
        narrow.add(resolve(world.root, pre + '/' + path, True))
    broad |= narrow
    return narrow, broad


def spell(world: World, segs: list, seps: list) -> str:
    out = []
    for i, s in enumerate(segs):
        if s.startswith('@'):
            a = world.W + '/' + s[2:]
            s = a if s[1] == '/' else a.replace('/', '\\')
        out.append(s)
        if i < len(seps):
            out.append(seps[i])
    return ''.join(out)


def make_systems(world: World) -> dict:
    """Build every root configuration.  Relative roots are cwd-dependent: the cwd is changed (in this worker
    process only) for construction and then moved to W/r, a directory that mirrors the root's file names with
    sentinels, so that any later dependence on the cwd is caught."""
    W = world.W
    root = W + '/root'
    out = {}
    out['abs'] = (RawFileSystem(root), '')
    out['abs_slash'] = (RawFileSystem(root + '/'), '')
    out['pathlike'] = (RawFileSystem(pathlib.Path(root)), '')
    os.chdir(W)
    out['rel'] = (RawFileSystem('root'), '')
    out['rel_dot_slash'] = (RawFileSystem('./root/'), '')
    os.chdir(W + '/root_evil')
    out['rel_updown'] = (RawFileSystem('../root_evil/../root'), '')
    os.chdir(W + '/r')
    out['chain_plain'] = (FileSystemChain(RawFileSystem(root)), '')
    out['chain_sub'] = (FileSystemChain((RawFileSystem(root), 'sub')), 'sub')
    ch = FileSystemChain()
    ch.add_sys(RawFileSystem(root + '/'), 'sub/', priority=True)
    out['chain_sub_slash'] = (ch, 'sub/')
    # the subfolder given for a chain member itself points out of the member's root: every name is then outside (or back inside
    # only through a matching descent) - the member's containment check has to see the joined path
    out['chain_up'] = (FileSystemChain((RawFileSystem(root), '..')), '..')
    out['chain_evil'] = (FileSystemChain((RawFileSystem(root), '../root_evil')), '../root_evil')
    ch2 = FileSystemChain()
    ch2.add_sys(RawFileSystem(root), 'sub/../../root_evil')
    out['chain_sub_evil'] = (ch2, 'sub/../../root_evil')
    # an UNCONSTRAINED file system on the same root: asked for every path first (anything it answers is legitimate for it);
    # nothing it did may change what the constrained systems answer afterwards
    out['__twin'] = (RawFileSystem(root, constrain_path=False), '')
    return out


def ask_twin(systems: dict, p: str) -> None:
    twin = systems['__twin'][0]
    for fn in (lambda: p in twin, lambda: twin[p], lambda: twin.open_bin(p).close(), lambda: list(itertools.islice(twin.walk_folder(p), 4))):
        try:
            fn()
        except Exception:  # noqa: BLE001 - the twin's own behaviour is not under test
            pass


NOTFOUND = (FileNotFoundError, NotADirectoryError, IsADirectoryError)


def run_op(fs, op: str, p: str, root_dir: str = '', prefix: str = ''):
    """Execute one operation on the real filesystem object; return a plain observation tuple."""
    try:
        if op == 'in':
            return ('bool', bool(p in fs))
        if op == 'getitem':
            f = fs[p]
            try:
                with f.open_bin() as h:
                    return ('file', f.path, h.name, h.read(READ_CAP))
            except RootEscapeError:
                return ('file_unopenable', f.path, 'RootEscapeError')
            except NOTFOUND as e:
                return ('file_unopenable', f.path, type(e).__name__)
        if op == 'open_bin':
            with fs.open_bin(p) as h:
                return ('handle', h.name, h.read(READ_CAP))
        if op == 'open_str':
            with fs.open_str(p) as h:
                return ('handle', h.name, h.read(READ_CAP).encode('utf8'))
        if op == 'walk':
            items = []
            for f in fs.walk_folder(p):
                if len(items) >= WALK_CAP:
                    items.append(('CAP', '', b''))
                    break
                # where the listed File lives, from its path alone; a file outside the root is reported WITHOUT
                # being opened (a broken constraint may list devices or huge files)
                loc = os.path.normpath(os.path.join(root_dir, prefix, f.path))
                if not (loc == root_dir or loc.startswith(root_dir + '/')):
                    items.append((f.path, loc, None))
                    continue
                try:
                    with f.open_bin() as h:
                        items.append((f.path, h.name, h.read(READ_CAP)))
                except RootEscapeError:
                    items.append((f.path, None, b'<RootEscapeError>'))
                except NOTFOUND as e:
                    items.append((f.path, None, b'<notfound>'))
            return ('walk', items)
        raise AssertionError(op)
    except RootEscapeError:
        return ('escape',)
    except NOTFOUND as e:
        return ('notfound', type(e).__name__)
    except Exception as e:  # noqa: BLE001
        return ('exc', f'{type(e).__name__}: {e}')


def cause_of(world: World, locs) -> str:
    """Coarse cause label: does some denoted location textually extend the root's path string without being
    inside it (a sibling whose name has the root's name as prefix)?"""
    for loc in sorted(locs):
        if not world.is_inside(loc) and ('/' + '/'.join(loc)).startswith(world.real_root):
            return 'sibling_name_prefix'
    return 'other'


def check_call(acc: core.Acc, world: World, cfg: str, fs, prefix: str, op: str, segs: list, seps: list,
               p: str, narrow: set, broad: set) -> None:
    acc.evaluations += 1
    obs = run_op(fs, op, p, world.real_root, prefix)
    tag = obs[0]
    via = 'chain' if cfg.startswith('chain') else 'direct'
    all_outside = all(not world.is_inside(l) for l in narrow)
    case = {'segs': segs, 'seps': seps, 'cfg': cfg, 'op': op}

    def fail(kind: str, what: str, locs=narrow) -> None:
        acc.fail(kind, case, f'root config {cfg}, operation {op}, path {world.show(p)!r}: {what}',
                 op=op, via=via, cause=cause_of(world, locs))

    def check_bytes(where: str, name, data: bytes) -> bool:
        ok = True
        if name is not None and not world.real_inside(name):
            fail('outside_file_opened', f'{where}: opened {world.show(str(name))!r}, which is outside the root; '
                                        f'bytes read: {data[:60]!r}',
                 locs=[tuple(c for c in os.path.realpath(name).split('/') if c)])
            ok = False
        elif data.startswith(b'SENTINEL-OUTSIDE'):
            fail('outside_bytes_returned', f'{where}: returned the sentinel of an outside file: {data[:60]!r}')
            ok = False
        elif name is not None and data not in world.inside_data:
            fail('unexpected_bytes', f'{where}: bytes {data[:60]!r} are no file of the root')
            ok = False
        return ok

    if tag == 'escape':
        acc.outcome((cfg, op, 'RootEscapeError', 'all_outside' if all_outside else 'some_inside'))
        acc.nontrivial += 1
        return
    if tag == 'exc':
        acc.outcome((cfg, op, 'exc'))
        fail('foreign_exception', f'raised {obs[1]} (neither RootEscapeError nor a not-found error)')
        return
    if tag == 'notfound' or (tag == 'bool' and obs[1] is False):
        acc.outcome((cfg, op, 'absent', obs[1] if tag == 'notfound' else 'False', all_outside))
        if all_outside:
            acc.nontrivial += 1
            fail('escape_not_rejected',
                 f'the path leaves the root under either slash reading (it denotes '
                 f'{sorted(world.show("/" + "/".join(l)) for l in narrow)}) but the call answered '
                 f'{"False" if tag == "bool" else obs[1]} instead of raising RootEscapeError')
        return
    acc.nontrivial += 1
    if tag == 'bool':
        good = [l for l in broad if world.is_inside(l) and l in world.files]
        bad = [l for l in broad if not world.is_inside(l) and l in world.files]
        acc.outcome((cfg, op, 'True', bool(good), bool(bad)))
        if not good:
            if bad:
                fail('outside_file_exists', f'`in` answered True; the only existing file the path can denote is '
                                            f'{sorted(world.show("/" + "/".join(l)) for l in bad)} (outside the root)',
                     locs=bad)
            else:
                fail('phantom_exists', '`in` answered True but the path denotes no file of the fixture')
        elif bad:
            acc.count('ambiguous_exists_true')
        return
    if tag == 'file':
        _, fpath, hname, data = obs
        ok = check_bytes(f'fs[path] -> File(path={world.show(fpath)!r}).open_bin()', hname, data)
        acc.outcome((cfg, op, 'file', ok))
        return
    if tag == 'file_unopenable':
        acc.outcome((cfg, op, 'file_unopenable', obs[2]))
        acc.count('getitem_file_then_unopenable')
        if all_outside:
            fail('escape_not_rejected', f'fs[path] returned File(path={world.show(obs[1])!r}) for a path that leaves '
                                        f'the root (opening it then raised {obs[2]})')
        return
    if tag == 'handle':
        ok = check_bytes('opened handle', obs[1], obs[2])
        acc.outcome((cfg, op, 'handle', ok))
        return
    if tag == 'walk':
        items = obs[1]
        ok = True
        for fpath, hname, data in items:
            if fpath == 'CAP':
                fail('walk_left_fixture', f'walk_folder yielded more than {WALK_CAP} files')
                ok = False
                break
            if data is None:
                fail('outside_file_listed', f'walk_folder -> File(path={world.show(fpath)!r}) lives at '
                                            f'{world.show(hname)!r}, outside the root (not opened)',
                     locs=[tuple(c for c in hname.split('/') if c)])
                ok = False
                break
            if hname is None:
                acc.count('walked_file_unopenable')
                continue
            if not check_bytes(f'walk_folder -> File(path={world.show(fpath)!r})', hname, data):
                ok = False
                break
        if ok and all_outside:
            ok = False
            fail('escape_not_rejected',
                 f'the folder leaves the root under either slash reading (it denotes '
                 f'{sorted(world.show("/" + "/".join(l)) for l in narrow)}) but walk_folder yielded {len(items)} files '
                 f'instead of raising RootEscapeError')
        acc.outcome((cfg, op, 'walk', min(len(items), 3), ok))
        if not items and not all_outside:
            acc.nontrivial -= 1
        return
    raise AssertionError(obs)


def depth_escape(result: str):
    """Own reading of a unified path: components split on '/', '.'/'' skipped; returns 'leading' if the first
    effective component is '..', 'later' if the running depth ever drops below the root, else None."""
    depth = 0
    first = True
    for c in result.split('/'):
        if c in ('', '.'):
            continue
        if c == '..':
            if first:
                return 'leading'
            depth -= 1
            if depth < 0:
                return 'later'
        else:
            depth += 1
        first = False
    return None


def check_unify(acc: core.Acc, world: World, segs: list, seps: list, p: str) -> None:
    acc.evaluations += 1
    case = {'segs': segs, 'seps': seps, 'op': 'unify_path'}
    try:
        res = unify_path(p)
    except ValueError as e:
        acc.outcome(('unify', 'ValueError'))
        acc.nontrivial += 1
        return
    except Exception as e:  # noqa: BLE001
        acc.outcome(('unify', 'exc'))
        acc.fail('unify_foreign_exception', case, f'unify_path({world.show(p)!r}) raised {type(e).__name__}: {e}',
                 op='unify_path')
        return
    if not isinstance(res, str):
        acc.fail('unify_not_str', case, f'unify_path({world.show(p)!r}) returned {res!r}', op='unify_path')
        return
    esc = depth_escape(res)
    acc.outcome(('unify', 'ok' if esc is None else esc, res.startswith('/')))
    if res and res != p.casefold():
        acc.nontrivial += 1
    if esc is not None:
        first = next((c for c in res.split('/') if c not in ('', '.')), '')
        acc.fail('unify_returns_escaping_path', case,
                 f'unify_path({world.show(p)!r}) returned {world.show(res)!r}: '
                 + ('its leading component is "..".' if first == '..' and res.split('/')[0] == '..' else
                    'it climbs above the pack root ("." / "" components skipped).'),
                 op='unify_path', leading_dotdot=(res.split('/')[0] == '..'))
    if res.startswith('/'):
        acc.fail('unify_returns_absolute', case, f'unify_path({world.show(p)!r}) returned {world.show(res)!r}',
                 op='unify_path')


def check_packlist(acc: core.Acc, world: World, segs: list, seps: list, p: str) -> None:
    """The pack list's entry points that build a pack path from a caller-given name or folder: whatever they accept, no name
    recorded in the pack list may climb above the pack root or be absolute."""
    from srctools.packlist import PackList
    if len(segs) > 3:
        return
    for route in ('pack_file', 'inject_file', 'inject_vscript'):
        acc.evaluations += 1
        case = {'segs': segs, 'seps': seps, 'op': 'packlist_' + route}
        pl = PackList(FileSystemChain())
        try:
            if route == 'pack_file':
                pl.pack_file(p if p else 'x', data=b'data')
            elif route == 'inject_file':
                pl.inject_file(b'data', p, 'cfg')
            else:
                pl.inject_vscript('x <- 1', p)
        except ValueError:
            acc.outcome(('packlist', route, 'ValueError'))
            continue
        except Exception as e:  # noqa: BLE001
            acc.fail('unify_foreign_exception', case, f'PackList.{route}({world.show(p)!r}) raised {type(e).__name__}: {e}', op='packlist_' + route)
            continue
        for name in pl.filenames():
            esc = depth_escape(name)
            if esc is not None or name.startswith('/'):
                acc.fail('packlist_holds_escaping_name', case, f'PackList.{route}({world.show(p)!r}) recorded the pack name {world.show(name)!r}',
                         op='packlist_' + route)
                break


# ---------------------------------------------------------------------------------------------

FOREIGN_PATHS = ['../root_evil/secret.txt', '..\\root_evil\\secret.txt', '../outside.txt', '../rootX/s.txt', 'sub/../../outside.txt']


def check_foreign_handles(acc: core.Acc, world: World) -> None:
    """File *objects* as input: handles whose stored name was never validated against this root (made by an unconstrained
    filesystem on the same folder, by an ancestor-rooted one, or while constrain_path was switched off and back on)."""
    from srctools.filesys import RawFileSystem, RootEscapeError
    root_dir = os.path.join(world.W, 'root')
    outside = {sentinel(rel) for rel in OUTSIDE}
    for how in ('unconstrained_donor', 'toggled_constraint', 'absolute_name_via_ancestor'):
        for path in FOREIGN_PATHS + [os.path.join(world.W, 'root_evil', 'secret.txt')]:
            fs = RawFileSystem(root_dir)
            try:
                if how == 'unconstrained_donor':
                    handle = RawFileSystem(root_dir, constrain_path=False)[path]
                elif how == 'toggled_constraint':
                    fs.constrain_path = False
                    handle = fs[path]
                    fs.constrain_path = True
                else:
                    if not os.path.isabs(path):
                        continue
                    handle = RawFileSystem(world.W)[path]
            except (FileNotFoundError, NotADirectoryError, RootEscapeError):
                continue
            for op in ('open_bin', 'open_str', 'File.open_bin'):
                acc.evaluations += 1
                acc.nontrivial += 1
                case = {'segs': [path], 'seps': [], 'op': 'foreign_handle', 'cfg': how, 'handle_op': op}
                try:
                    if op == 'File.open_bin':
                        if handle.sys is not fs:
                            continue
                        f = handle.open_bin()
                    else:
                        f = getattr(fs, op)(handle)
                    with f:
                        data = f.read(READ_CAP)
                    data = data.encode() if isinstance(data, str) else data
                except RootEscapeError:
                    acc.outcome(('foreign', how, op, 'rejected'))
                    continue
                except NOTFOUND:
                    acc.outcome(('foreign', how, op, 'notfound'))
                    continue
                except Exception as exc:  # noqa: BLE001
                    acc.fail('foreign_exception', case, f'{op}(<File {path!r} from {how}>) raised {type(exc).__name__}: {exc}', op=op, via='handle')
                    continue
                acc.outcome(('foreign', how, op, 'opened'))
                if data in outside:
                    acc.fail('outside_file_opened', case,
                             f'constrained RawFileSystem(<W>/root).{op}(<File {path!r} obtained via {how}>) returned the outside file {data!r}',
                             op=op, via='handle', cause='unvalidated_file_handle')


PATTERN_ROOTS = [('maps[1]', 'maps1'), ('ro[o]t2', 'root2'), ('r*s', 'rats'), ('q?x', 'qax'), ('a[!b]c', 'axc'), ('plain', 'plain2')]


def check_pattern_roots(acc: core.Acc, world: World) -> None:
    """Root folders whose own NAME contains characters that are wildcards to glob / fnmatch, next to a sibling folder that the name
    matches as a pattern: listings and lookups stay inside the root itself."""
    base = os.path.join(world.W, 'pattern_roots')
    for rname, sibling in PATTERN_ROOTS:
        for d, tag in ((rname, 'IN'), (sibling, 'OUT')):
            os.makedirs(os.path.join(base, d, 'sub'), exist_ok=True)
            for rel in ('a.txt', 'sub/b.txt'):
                with open(os.path.join(base, d, rel), 'wb') as f:
                    f.write(f'{tag}:{d}:{rel}'.encode())
    for rname, sibling in PATTERN_ROOTS:
        root = os.path.join(base, rname)
        for cfg, mk in (('abs', lambda: RawFileSystem(root)), ('abs_slash', lambda: RawFileSystem(root + '/')),
                        ('chain', lambda: FileSystemChain(RawFileSystem(root))), ('chain_sub', lambda: FileSystemChain((RawFileSystem(root), 'sub')))):
            want = {'b.txt'} if cfg == 'chain_sub' else {'a.txt', 'sub/b.txt'}
            for op, fn in (('walk_folder("")', lambda fs: [f.path for f in fs.walk_folder('')]), ('iter', lambda fs: [f.path for f in fs]),
                           ('walk_folder("sub")', lambda fs: [f.path for f in fs.walk_folder('sub')] if cfg != 'chain_sub' else [f.path for f in fs.walk_folder('')])):
                acc.evaluations += 1
                acc.nontrivial += 1
                case = {'pattern_root': rname, 'cfg': cfg, 'op': op}
                try:
                    fs = mk()
                    names = fn(fs)
                    datas = []
                    for nm in names[:8]:
                        with fs.open_bin(nm) as fh:
                            datas.append(fh.read(200))
                except Exception as e:  # noqa: BLE001
                    acc.fail('pattern_root_raises', case, f'root folder named {rname!r} ({cfg}): {op} raised {type(e).__name__}: {e}', op='walk')
                    continue
                expect = want if op != 'walk_folder("sub")' or cfg == 'chain_sub' else {'sub/b.txt'}
                bad = [nm for nm in names if nm.replace('\\', '/').casefold() not in expect] + [d for d in datas if not d.startswith(b'IN:')]
                if bad or len(names) != len(expect):
                    acc.fail('listing_left_root', case, f'root folder named {rname!r} beside a folder {sibling!r} ({cfg}): {op} lists {names} '
                             f'(contents {datas}); the root holds exactly {sorted(expect)}', op='walk')


def check_factory_history(acc: core.Acc, world: World) -> None:
    """get_filesystem(root) asked twice with the same string: what a caller did to the first object (switching its public
    constrain_path attribute off, using it) has no bearing on the second, which is constrained like any new file system."""
    from srctools.filesys import get_filesystem, RootEscapeError
    root = os.path.join(world.W, 'root')
    outside = {sentinel(rel) for rel in OUTSIDE}
    for history in ('toggle_first', 'toggle_first_and_use', 'plain_first'):
        first = get_filesystem(root)
        if history != 'plain_first':
            first.constrain_path = False
        if history == 'toggle_first_and_use':
            for path in FOREIGN_PATHS:
                try:
                    first.open_bin(path).close()
                except Exception:  # noqa: BLE001 - legitimate for an unconstrained system either way
                    pass
        for wrap in ('direct', 'chain'):
            second = get_filesystem(root)
            fs = second if wrap == 'direct' else FileSystemChain(second)
            for path in FOREIGN_PATHS + [os.path.join(world.W, 'root_evil', 'secret.txt')]:
                for op in ('in', 'getitem', 'open_bin', 'walk'):
                    acc.evaluations += 1
                    acc.nontrivial += 1
                    case = {'factory_history': history, 'wrap': wrap, 'path': world.show(path), 'op': op}
                    try:
                        if op == 'in':
                            res = path in fs
                            leaked = res is True
                        elif op == 'getitem':
                            res = fs[path]
                            leaked = True
                        elif op == 'open_bin':
                            with fs.open_bin(path) as fh:
                                res = fh.read(200)
                            leaked = True
                        else:
                            folder = os.path.dirname(path.replace('\\', '/'))      # (a folder that is outside under every reading)
                            if not folder:
                                continue
                            res = [f.path for f in itertools.islice(fs.walk_folder(folder), 8)]
                            leaked = bool(res)
                    except (RootEscapeError, FileNotFoundError, KeyError, NotADirectoryError):
                        continue
                    except Exception as e:  # noqa: BLE001
                        acc.fail('foreign_exception', case, f'get_filesystem(root) after history {history}: {op}({world.show(path)!r}) raised {type(e).__name__}: {e}', op=op)
                        continue
                    if leaked:
                        acc.fail('escape', case, f'the SECOND get_filesystem(root) (history: {history}; {wrap}) answered {op}({world.show(path)!r}) '
                                 f'with {world.show(str(res))[:120]!r}: a path outside the root', op=op)
            del second, fs
        del first


def sep_assignments(n: int, mode: str) -> list:
    """Separator assignments for n segments (n-1 separators)."""
    k = n - 1
    if k <= 0:
        return [[]]
    if mode == 'all':
        return [list(t) for t in itertools.product('/\\', repeat=k)]
    # 'four': all-'/', all-'\\', the two alternating mixes
    seen = []
    for pat in (['/'] * k, ['\\'] * k, [('/\\')[i % 2] for i in range(k)], [('\\/')[i % 2] for i in range(k)]):
        if pat not in seen:
            seen.append(pat)
    return seen


def shard_paths(spec):
    """Yield (segs, seps) for a shard.  spec = (head tuple, n, mode): all paths of exactly n segments starting
    with head.  The map (segs, seps) -> string is injective (no segment contains a separator, the absolute
    tokens contain a directory name no other spelling produces), so each path string is met once."""
    head, n, mode = spec
    if head and head[0] == '__look__':
        # characters that only LOOK like dots and slashes (compatibility forms): ordinary name characters, never separators
        for segs in itertools.product(SEGS_LOOK, repeat=n):
            for seps in sep_assignments(n, mode):
                yield list(segs), seps
        return
    rest = n - len(head)
    assigns = sep_assignments(n, mode)
    for tail in itertools.product(SEGS, repeat=rest):
        segs = list(head) + list(tail)
        for seps in assigns:
            yield segs, seps


_WORLD: World | None = None


def check_inst_locs(acc: core.Acc, world: World) -> None:
    """Directory file systems the library creates itself (constraint on, by default) and hands out inside a chain:
    instancing.get_inst_locs(map) for maps directly in sdk_content/maps, in sub-folders one and two levels below, and outside
    any sdk_content.  Paths that leave BOTH roots (files one and two levels above sdk_content/maps, absolute names) are never
    answered with data, through the chain and through each of its members."""
    from pathlib import Path
    from srctools.filesys import RootEscapeError
    from srctools.instancing import get_inst_locs
    base = os.path.join(world.W, 'instlocs')
    maps = os.path.join(base, 'game', 'sdk_content', 'maps')
    files = {os.path.join(base, 'top.txt'): b'<top>', os.path.join(base, 'game', 'g.txt'): b'<game>',
             os.path.join(base, 'game', 'sdk_content', 'secret.txt'): b'<secret>', os.path.join(maps, 'inst.vmf'): b'<inst>',
             os.path.join(maps, 'sub', 'm.vmf'): b'<m>', os.path.join(maps, 'sub', 'deep', 'd.vmf'): b'<d>',
             os.path.join(base, 'loose', 'x', 'l.vmf'): b'<l>', os.path.join(base, 'loose', 'other.txt'): b'<other>'}
    for path, data in files.items():
        os.makedirs(os.path.dirname(path), exist_ok=True)
        with open(path, 'wb') as f:
            f.write(data)
    forbidden = {b'<top>', b'<game>', b'<secret>'}
    map_files = {'in_maps': os.path.join(maps, 'map.vmf'), 'sub': os.path.join(maps, 'sub', 'm.vmf'), 'deep': os.path.join(maps, 'sub', 'deep', 'd.vmf'),
                 'loose': os.path.join(base, 'loose', 'x', 'l.vmf')}
    for where, mp in map_files.items():
        ups = []
        for n in range(1, 6):
            for name in ('secret.txt', 'g.txt', 'top.txt', 'other.txt'):
                ups.append('/'.join(['..'] * n + [name]))
                ups.append('\\'.join(['..'] * n + [name]))
                ups.append('./' + '/'.join(['..'] * n + [name]))
        ups += [os.path.join(base, 'game', 'sdk_content', 'secret.txt'), os.path.join(base, 'top.txt')]
        chain = get_inst_locs(Path(mp))
        targets = [('chain', chain)] + [(f'member{i}', m) for i, (m, _pre) in enumerate(chain.systems)]
        for tname, fs in targets:
            roots = [os.path.realpath(m.path) for m, _pre in chain.systems] if tname == 'chain' else [os.path.realpath(fs.path)]
            for q in ups:
                for op in ('in', 'getitem', 'open_bin', 'open_str'):
                    acc.evaluations += 1
                    case = {'inst_locs': where, 'via': tname, 'path': world.show(q), 'op': op}
                    try:
                        if op == 'in':
                            data = None
                            if q not in fs:
                                continue
                            # which file was found?  (only judged through the data operations below)
                            continue
                        elif op == 'getitem':
                            data = read_all_c18(fs[q].open_bin)
                        elif op == 'open_bin':
                            data = read_all_c18(lambda: fs.open_bin(q))
                        else:
                            with fs.open_str(q) as fh:
                                data = fh.read().encode()
                    except (RootEscapeError, FileNotFoundError, KeyError, NotADirectoryError, IsADirectoryError):
                        continue
                    except Exception as e:  # noqa: BLE001
                        acc.fail('foreign_exception', case, f'get_inst_locs({world.show(mp)!r}) {tname}: {op}({world.show(q)!r}) raised {type(e).__name__}: {e}', op=op)
                        continue
                    acc.nontrivial += 1
                    inside = [path for path, d in files.items() if d == data and any(os.path.realpath(path).startswith(r + os.sep) for r in roots)]
                    if data in forbidden or not inside:
                        acc.fail('escape', case, f'get_inst_locs({world.show(mp)!r}) - roots {[world.show(r) for r in roots]} - {tname}: {op}({world.show(q)!r}) '
                                 f'returned {data!r}, the content of a file outside every root', op=op)


def read_all_c18(opener) -> bytes:
    with opener() as fh:
        return fh.read()


def shard(spec) -> core.Acc:
    acc = core.Acc()
    world = _WORLD
    assert world is not None
    cwd = os.getcwd()
    try:
        systems = make_systems(world)
        n_paths = 0
        for segs, seps in shard_paths(spec):
            p = spell(world, segs, seps)
            n_paths += 1
            cand_cache: dict = {}
            ask_twin(systems, p)
            for cfg in CONFIGS:
                fs, prefix = systems[cfg]
                if prefix not in cand_cache:
                    cand_cache[prefix] = candidates(world, prefix, p)
                narrow, broad = cand_cache[prefix]
                for op in OPS_SEQ:      # one file-system object serves the whole shard: repeated identical requests included
                    if op == 'walk' and cfg in ESCAPING_PREFIX_CONFIGS:
                        continue        # how listed names relate to a prefix that leaves the member's root is not defined; data access is
                    check_call(acc, world, cfg, fs, prefix, op, segs, seps, p, narrow, broad)
            check_unify(acc, world, segs, seps, p)
            check_packlist(acc, world, segs, seps, p)
            if len(segs) <= 3 and segs and not segs[0].startswith('@'):
                # drive-relative spellings (a drive letter and colon directly before the path, as stored by Windows tools)
                for drive in ('c:', 'C:', 'Z:'):
                    check_unify(acc, world, [drive] + segs, [''] + seps, drive + p)
                    check_packlist(acc, world, [drive] + segs, [''] + seps, drive + p)
        acc.count('paths', n_paths)
        if spec == _FIRST_SHARD[0]:
            check_foreign_handles(acc, world)
            check_pattern_roots(acc, world)
            check_factory_history(acc, world)
            check_inst_locs(acc, world)
        if n_paths:
            acc.sample({'segs': segs, 'seps': seps, 'path': world.show(p), 'configs': 'all', 'ops': 'all'}, 1)
    finally:
        os.chdir(cwd)
    return acc


_FIRST_SHARD: list = [None]


def plan(quick: bool) -> tuple[list, str]:
    shards = []
    # (n, mode) blocks.  A leading separator is the first segment ''; "<= 4 segments with a leading separator"
    # is therefore the block of 5 segments whose first is ''.
    if quick:
        blocks = [(1, 'all', None), (2, 'all', None), (3, 'all', None), (4, 'four', None), (5, 'four', '')]
        desc = ('<= 3 segments: every separator assignment; 4 segments, and 4 segments behind a leading separator: '
                'all-/, all-\\ and both alternating mixes')
    else:
        blocks = [(1, 'all', None), (2, 'all', None), (3, 'all', None), (4, 'all', None), (5, 'all', ''),
                  (5, 'four', None)]
        desc = ('<= 4 segments, and 4 segments behind a leading separator: every separator assignment; 5 segments: '
                'all-/, all-\\ and both alternating mixes')
    for n, mode, forced_first in blocks:
        firsts = FIRSTS if forced_first is None else [forced_first]
        if n == 5 and forced_first is None:
            firsts = [f for f in FIRSTS if f != '']      # ''-first 5-segment paths are already in the 'all' block
        for f in firsts:
            if n <= 3:
                shards.append(((f,), n, mode))
            else:
                for s in SEGS:
                    if n == 5:
                        for s2 in SEGS:
                            shards.append(((f, s, s2), n, mode))
                    else:
                        shards.append(((f, s), n, mode))
    for n in (1, 2, 3):
        shards.append((('__look__',), n, 'four'))
    shards.append(((), 0, 'all'))      # the empty path
    desc += '; plus every path of <= 3 segments over 11 segments containing compatibility look-alikes of ".." and "/" (U+2025, U+FF0E, U+FF0F, U+FF3C, U+2024)'
    return shards, desc


def run(ctx: core.Ctx) -> None:
    global _WORLD
    W = os.path.join(ctx.scratch, 'W')
    build_fixture(W)
    _WORLD = World(W)
    shards, desc = plan(ctx.quick)
    _FIRST_SHARD[0] = shards[0]        # the shard that also runs the File-handle battery (inherited by the forked workers)
    k = ctx.seed % len(shards)
    shards = shards[k:] + shards[:k]
    cwd = os.getcwd()
    try:
        core.par_map(shard, shards, ctx.acc)
    finally:
        os.chdir(cwd)
        _WORLD = None
    ctx.rule = (f'every path string of segments from {SEGS} (first segment additionally the absolute spelling of '
                f'W/root, W/root_evil, W/rootX with either slash), {desc}; x {len(CONFIGS)} root configurations '
                f'{CONFIGS} x operations {OPS}; plus packlist.unify_path and the PackList entry points on every path string (<= 3 segments also behind a drive letter and colon); root folders whose own name is a glob pattern matching a sibling folder; get_filesystem() asked again after the first object was unconstrained; the chains instancing.get_inst_locs() builds for maps at 4 places relative to sdk_content/maps, asked (whole and per member) for files 1-5 levels up in three spellings and by absolute name; plus File handles created by an unconstrained / ancestor-rooted / temporarily unconstrained filesystem handed to open_bin, open_str and File.open_bin.  A (path, config, op) '
                f'triple is one case and is met once (the segments/separators -> string map is injective).  '
                f'Non-trivial = the call did anything but answer "absent" for a path that stays inside the root '
                f'(it raised RootEscapeError, found/opened/listed a file, or failed the oracle); for unify_path: it '
                f'raised or changed the string.')
    ctx.assumptions.append('POSIX host (tmpfs): "\\" is an ordinary filename character for the OS; the oracle therefore '
                           'considers both the POSIX and the both-slashes reading of a path and demands RootEscapeError '
                           'only when every reading leaves the root.  No symlinks in the fixture.  Windows drive/UNC '
                           'prefixes are not enumerated.')
    ctx.coverage_extra['paths'] = ctx.acc.counters.get('paths', 0)


def replay(case: dict) -> list:
    global _WORLD
    acc = core.Acc()
    base = os.path.join('/dev/shm', f'verif-C18-replay-{os.getpid()}')
    shutil.rmtree(base, ignore_errors=True)
    W = os.path.join(base, 'W')
    cwd = os.getcwd()
    try:
        build_fixture(W)
        world = World(W)
        if 'pattern_root' in case:
            check_pattern_roots(acc, world)
            return [f for f in acc.all_failures() if f.case == case]
        if 'inst_locs' in case:
            check_inst_locs(acc, world)
            return [f for f in acc.all_failures() if f.case == case]
        if 'factory_history' in case:
            check_factory_history(acc, world)
            return [f for f in acc.all_failures() if f.case.get('factory_history') == case['factory_history'] and f.case.get('op') == case['op']]
        segs, seps = list(case['segs']), list(case['seps'])
        if case['op'] == 'foreign_handle':
            check_foreign_handles(acc, world)
            return acc.all_failures()
        p = spell(world, segs, seps)
        if case['op'].startswith('packlist_'):
            check_packlist(acc, world, segs, seps, p)
            return [f for f in acc.all_failures() if f.case.get('op') == case['op']]
        if case['op'] == 'unify_path':
            check_unify(acc, world, segs, seps, p)
        else:
            systems = make_systems(world)
            fs, prefix = systems[case['cfg']]
            narrow, broad = candidates(world, prefix, p)
            # the recorded history for one path on one file-system object is the fixed operation sequence
            ask_twin(systems, p)
            for op in OPS_SEQ:
                if op == 'walk' and case['cfg'] in ESCAPING_PREFIX_CONFIGS:
                    continue
                check_call(acc, world, case['cfg'], fs, prefix, op, segs, seps, p, narrow, broad)
            return [f for f in acc.all_failures() if f.case.get('op') == case['op']]
    finally:
        os.chdir(cwd)
        shutil.rmtree(base, ignore_errors=True)
    return acc.all_failures()
