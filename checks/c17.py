"""C17 — instance collapse transforms contents exactly and leaves the template intact.

(E) every subset of <= k template features x placements x fixup styles x fixup tables: the result of collapsing
    at a placement is compared with (a) the template itself transformed by an independent reference (planes,
    origins, orientations as matrices, displacement data, texture law, names, $variables), and (b) the result
    of the identity placement transformed by the harness (differential).
(B) BFS over histories of collapses on two shared templates: after every step each template exports
    byte-identically to before the first collapse, and the k-th collapse equals a collapse of a freshly
    parsed template at the same placement.
(T) cyclic instance graphs through collapse_all: must return or raise within a horizon of collapse_one calls.
"""
from __future__ import annotations

import io
import itertools
import math
import re

from srctools import instancing
from srctools.filesys import VirtualFileSystem
from srctools.instancing import Instance, InstanceFile, FixupStyle, collapse_one, collapse_all
from srctools.keyvalues import Keyvalues
from srctools.math import Vec, Angle, Matrix
from srctools.vmf import VMF, Output, UVAxis, Side, FixupValue, DispFlag, VisGroup

from mcv import core, bfs

import logging as _logging
_logging.getLogger('srctools.srctools.instancing').setLevel(_logging.ERROR); _logging.getLogger('srctools').setLevel(_logging.ERROR)      # 'Unknown keyvalue' warnings of the library are not findings

PROPERTY = 'C17'
LEVEL = 'model_checking'

# ------------------------------------------------------------------------------------------------ templates


def t_world_brush(v: VMF) -> None:
    p = v.make_prism(Vec(-32, -16, 0), Vec(32, 16, 8), mat='concrete/floor')
    p.top.uaxis = UVAxis(1, 0, 0, offset=12.5, scale=0.25)
    p.top.vaxis = UVAxis(0, -1, 0, offset=-7.0, scale=0.5)
    p.north.uaxis = UVAxis(1, 0, 0, offset=3.0, scale=0.125)
    v.add_brush(p.solid)


def t_disp(v: VMF) -> None:
    p = v.make_prism(Vec(64, 64, -16), Vec(192, 192, 0), mat='nature/blend')
    v.add_brush(p.solid)
    top = p.top
    new = Side(v, [q.copy() for q in top.planes], mat='nature/blendgrass', uaxis=top.uaxis.copy(), vaxis=top.vaxis.copy(), disp_power=1)
    p.solid.sides[p.solid.sides.index(top)] = new
    new.disp_pos = Vec(64, 64, 0)
    new.disp_flags = DispFlag.COLL_PHYSICS
    for i, vert in enumerate(new._disp_verts):
        vert.normal = Vec(0.0, 0.6, 0.8) if i % 2 else Vec(0, 0, 1)
        vert.offset = Vec(i, -i, 2.0 * i)
        vert.offset_norm = Vec(1, 0, 0) if i % 3 else Vec(0, 1, 0)
        vert.distance = float(i)


def t_strata_points(v: VMF) -> None:
    p = v.make_prism(Vec(0, 0, 32), Vec(16, 16, 48), set_points=True)
    v.add_brush(p.solid)


def t_brush_ent(v: VMF) -> None:
    e = v.create_ent('func_brush', targetname='door', origin='8 8 72')
    e.solids.append(v.make_prism(Vec(0, 0, 64), Vec(16, 16, 80), mat='metal/door').solid)


def t_point_ent(v: VMF) -> None:
    v.create_ent('info_target', origin='16 32 48', angles='10 20 30', targetname='tgt')
    # nearly vertical orientations with roll, outside the library's gimbal-lock zone (horizontal length 0.017 / 0.0087 > 0.001)
    v.create_ent('info_target', origin='0 0 8', angles='89 40 25', targetname='steep_up')
    v.create_ent('info_target', origin='0 8 0', angles='-89.5 10 300', targetname='steep_down')
    v.create_ent('info_target', origin='8 0 0', angles='80 0 45', targetname='steep_80')


def t_pitch_ent(v: VMF) -> None:
    v.create_ent('light_environment', origin='0 0 128', angles='0 30 0', pitch='-45', targetname='sun')
    v.create_ent('light_spot', origin='-8 0 64', angles='-20 135 5', pitch='-20', target='tgt')


def t_relay(v: VMF) -> None:
    e = v.create_ent('logic_relay', origin='0 0 0', targetname='rl', parentname='door')
    e.add_out(Output('OnTrigger', 'tgt', 'Kill'), Output('OnTrigger', '@global', 'Trigger', 'p', 1.5),
              Output('OnUser1', '!activator', 'Use'), Output('OnUser2', 'door', 'Open', comma_sep=True),
              Output('OnUser3', 'tgt', 'Fire', times=3), Output('OnUser4', 'tgt', 'Fire', times=0), Output('OnUser4', 'tgt', 'Fire', only_once=True))


def t_vars(v: VMF) -> None:
    e = v.create_ent('info_target', origin='$pos', targetname='$nm', parentname='x_$ab_y', angles='0 0 0')
    e.add_out(Output('OnUser1', '$nm', 'Kill'), Output('OnUser2', '$a', 'Use'), Output('OnUser3', '$ab', 'Use'), Output('OnUser4', '$pos', 'Use'))


def t_nested(v: VMF) -> None:
    e = v.create_ent('func_instance', file='inner.vmf', targetname='inner', origin='100 0 0', angles='0 90 0', fixup_style='0')
    e.fixup['$target'] = 'door'
    e.fixup['$count'] = '5'
    e.fixup['$global'] = '@glob'
    e.fixup['$passed'] = '$a'
    e.fixup['$offset'] = '-64'
    e.fixup['$scale'] = '.5'
    e.fixup['$bang'] = '!self'


def t_hidden(v: VMF) -> None:
    e = v.create_ent('info_target', origin='1 1 1', targetname='hidden_ent')
    e.hidden = True
    e2 = v.create_ent('info_target', origin='2 2 2', targetname='unshown_ent')
    e2.vis_shown = False
    s = v.make_prism(Vec(-200, -200, 0), Vec(-190, -190, 10)).solid
    s.hidden = True
    v.add_brush(s)


def t_overlay(v: VMF) -> None:
    p = v.make_prism(Vec(-64, 200, 0), Vec(64, 264, 16))
    v.add_brush(p.solid)
    v.create_ent('info_overlay', origin='0 232 17', angles='0 0 0', sides=f'{p.top.id} {p.north.id}', basisorigin='0 232 16',
                 basisnormal='0 0 1', basisu='1 0 0', basisv='0 1 0', uv0='-8 -8 0')


def t_visgroup(v: VMF) -> None:
    g = v.create_visgroup('grp')
    e = v.create_ent('info_target', origin='5 5 5', targetname='vis_ent')
    e.visgroup_ids.add(g.id)


def t_alias_classes(v: VMF) -> None:
    """Classnames that are aliases in the engine database (their keyvalue types are inherited through the aliased class)."""
    v.create_ent('env_glow', origin='3 3 3', targetname='glow', parentname='par')
    v.create_ent('dynamic_prop', origin='4 4 4', angles='0 90 0', targetname='dyn', parentname='glow')
    v.create_ent('momentary_door', origin='5 5 5', targetname='mdoor').add_out(Output('OnFullyOpen', 'glow', 'ShowSprite'))


def t_push(v: VMF) -> None:
    e = v.create_ent('trigger_push', origin='0 0 0', pushdir='0 90 0', targetname='push')
    e.solids.append(v.make_prism(Vec(-8, -8, -8), Vec(8, 8, 8), mat='tools/toolstrigger').solid)


def t_brush_ent_hidden_solid(v: VMF) -> None:
    """A visible brush entity that owns one visible and one hidden solid (Hammer's `hidden { solid }` inside the entity)."""
    e = v.create_ent('func_brush', targetname='partly', origin='40 8 72')
    e.solids.append(v.make_prism(Vec(32, 0, 64), Vec(48, 16, 80), mat='metal/door').solid)
    hid = v.make_prism(Vec(32, 0, 80), Vec(48, 16, 96), mat='metal/door_hidden').solid
    hid.hidden = True
    e.solids.append(hid)


PLAIN_KEYS = ('see_ticket', 'zz_note', 'qq_ref')


def t_unknown_keys(v: VMF) -> None:
    """Keys no entity definition knows, on several entities of one class, after the name: free-form text, copied as it is (also when
    the text happens to be another entity's name)."""
    for n in range(3):
        v.create_ent('info_target', origin=f'{n} 0 0', targetname=f'uk{n}', see_ticket='see_ticket_42', zz_note='door', qq_ref=f'uk{n}')
    v.create_ent('logic_relay', origin='0 0 0', targetname='uk_rl', see_ticket='see_ticket_42', zz_note='tgt')


def t_name_clash(v: VMF) -> None:
    """Template names that already start / end with the instance's own name and a hyphen: still distinct entities after fixing up."""
    v.create_ent('info_target', origin='1 0 0', targetname='nc_door')
    v.create_ent('info_target', origin='2 0 0', targetname='inst-nc_door', parentname='nc_door')
    e = v.create_ent('info_target', origin='3 0 0', targetname='nc_door-inst', parentname='inst-nc_door')
    e.add_out(Output('OnUser1', 'nc_door', 'Kill'), Output('OnUser2', 'inst-nc_door', 'Kill'), Output('OnUser3', 'nc_door-inst', 'Kill'))


TEMPLATE_FEATURES = [(f.__name__[2:], f) for f in [t_brush_ent_hidden_solid, t_unknown_keys, t_name_clash, t_world_brush, t_disp, t_strata_points, t_brush_ent, t_point_ent, t_pitch_ent, t_relay,
                                                   t_vars, t_nested, t_hidden, t_overlay, t_visgroup, t_alias_classes, t_push]]
TF = dict(TEMPLATE_FEATURES)

PLACEMENTS = {
    'identity': ((0, 0, 0), (0, 0, 0)),
    'translate': ((64, -32, 16), (0, 0, 0)),
    'yaw90': ((0, 0, 0), (0, 90, 0)),
    'pitch90': ((8, 0, 0), (90, 0, 0)),
    'roll90': ((0, 0, -8), (0, 0, 90)),
    'general': ((-100.5, 200.25, 33), (30, 45, 60)),
    'tiny': ((1, 2, 3), (359.99999999999994, 1e-14, 0)),
    'flip_roll': ((4, 0, 0), (0, 45, 180)),          # mounted upside down: up axis along -Z
    'flip_pitch': ((0, 4, 0), (180, 30, 0)),
    'tilt': ((0, 0, 4), (8.7, 0, 0)),                # brings a template pitch of 80 to 88.7
}
FIXUP_TABLES = {
    'none': [],
    'one': [('nm', 'named')],
    'prefix': [('a', 'AAA'), ('ab', 'BBB'), ('nm', 'n2'), ('pos', '4 5 6')],
    # values that the name rules exempt (@global, !special) or that are blank, reached through a variable
    'special': [('a', '@glob'), ('ab', '!activator'), ('nm', ''), ('pos', '0 0 0')],
}


def template_text(names) -> str:
    v = VMF()
    for n, f in TEMPLATE_FEATURES:
        if n in names:
            f(v)
    return v.export(inc_version=False)


def load_template(text: str) -> InstanceFile:
    return InstanceFile(VMF.parse(Keyvalues.parse(text), preserve_ids=True))


def make_inst(placement: str, style: FixupStyle, table: str, name: str = 'inst') -> Instance:
    pos, ang = PLACEMENTS[placement]
    return Instance(name, 'tmpl.vmf', Vec(*pos), Matrix.from_angle(Angle(*ang)), style,
                    fixup=[FixupValue(k, val, i + 1) for i, (k, val) in enumerate(FIXUP_TABLES[table])])


# ------------------------------------------------------------------------------------------------ reference model

def ref_matrix(p, y, r):
    rp, ry, rr = math.radians(p), math.radians(y), math.radians(r)
    sp, cp, sy, cy, sr, cr = math.sin(rp), math.cos(rp), math.sin(ry), math.cos(ry), math.sin(rr), math.cos(rr)
    return ((cp * cy, cp * sy, -sp), (sr * sp * cy - cr * sy, sr * sp * sy + cr * cy, sr * cp),
            (cr * sp * cy + sr * sy, cr * sp * sy - sr * cy, cr * cp))


def rot(v, m):
    return tuple(v[0] * m[0][j] + v[1] * m[1][j] + v[2] * m[2][j] for j in range(3))


def xform(v, m, o):
    r = rot(v, m)
    return (r[0] + o[0], r[1] + o[1], r[2] + o[2])


def mat_mul(a, b):
    return tuple(tuple(sum(a[i][k] * b[k][j] for k in range(3)) for j in range(3)) for i in range(3))


def vclose(a, b, tol) -> bool:
    return all(abs(x - y) <= tol for x, y in zip(a, b))


def parse3(s: str):
    parts = s.split()
    return tuple(float(x) for x in parts) if len(parts) == 3 else None


def ref_substitute(value: str, table: list) -> str:
    """$var substitution: longest variable name first, case-insensitive; unknown variables become ''."""
    lookup = {k.casefold(): v for k, v in table}

    def rep(m):
        name = m.group(1).casefold()
        # longest prefix that is a defined variable
        for ln in range(len(name), 0, -1):
            if name[:ln] in lookup:
                return lookup[name[:ln]] + m.group(1)[ln:]
        return None
    out = value
    if '$' not in value:
        return value
    res = re.sub(r'\$([A-Za-z0-9_]+)', lambda m: rep(m) if rep(m) is not None else '\0' + m.group(0), value)
    return res


def ref_name(name: str, style: FixupStyle, inst: str) -> str:
    if not name or name[0] in '@!':
        return name
    if style is FixupStyle.NONE:
        return name
    return f'{inst}-{name}' if style is FixupStyle.PREFIX else f'{name}-{inst}'


def side_obs(f: Side) -> dict:
    d = {'planes': [tuple(p) for p in f.planes], 'u': (f.uaxis.x, f.uaxis.y, f.uaxis.z, f.uaxis.offset, f.uaxis.scale),
         'v': (f.vaxis.x, f.vaxis.y, f.vaxis.z, f.vaxis.offset, f.vaxis.scale), 'mat': f.mat,
         'points': None if f.strata_points is None else [tuple(p) for p in f.strata_points]}
    if f.is_disp:
        d['disp_pos'] = tuple(f.disp_pos)
        d['verts'] = [(tuple(v.normal), tuple(v.offset), tuple(v.offset_norm), v.distance, v.alpha) for v in f._disp_verts]
        d['allowed'] = list(f.disp_allowed_vert)
    return d


def check_side(fails: list, where: str, src: dict, got: dict, m, o, tol: float) -> None:
    for i, (p, q) in enumerate(zip(src['planes'], got['planes'])):
        if not vclose(xform(p, m, o), q, tol):
            fails.append(('geometry', f'{where}.plane[{i}]: {q} expected {xform(p, m, o)}'))
            return
    if src['mat'] != got['mat']:
        fails.append(('content', f'{where}.material {got["mat"]!r} != {src["mat"]!r}'))
    # texture law: u.P/scale + offset invariant for each plane point
    for ax in ('u', 'v'):
        sx, gx = src[ax], got[ax]
        if abs(sx[4] - gx[4]) > 1e-9:
            fails.append(('texture', f'{where}.{ax}axis scale changed {sx[4]} -> {gx[4]}'))
            continue
        for p, q in zip(src['planes'], got['planes']):
            a = (p[0] * sx[0] + p[1] * sx[1] + p[2] * sx[2]) / sx[4] + sx[3]
            b = (q[0] * gx[0] + q[1] * gx[1] + q[2] * gx[2]) / gx[4] + gx[3]
            if abs(a - b) > 1e-3:
                fails.append(('texture', f'{where}.{ax}axis: texture coordinate of {p} moved from {a:.6f} to {b:.6f}'))
                break
    if (src['points'] is None) != (got['points'] is None):
        fails.append(('content', f'{where}: point data lost'))
    elif src['points'] is not None:
        for p, q in zip(src['points'], got['points']):
            if not vclose(xform(p, m, o), q, tol):
                fails.append(('geometry_points', f'{where}.point_data {q} expected {xform(p, m, o)}'))
                break
    if 'verts' in src:
        if 'verts' not in got:
            fails.append(('content', f'{where}: displacement lost'))
            return
        if not vclose(xform(src['disp_pos'], m, o), got['disp_pos'], tol):
            fails.append(('geometry', f'{where}.disp start {got["disp_pos"]} expected {xform(src["disp_pos"], m, o)}'))
        if src['allowed'] != got['allowed']:
            fails.append(('content', f'{where}.allowed_verts {got["allowed"]} != {src["allowed"]}'))
        for i, (a, b) in enumerate(zip(src['verts'], got['verts'])):
            if not (vclose(rot(a[0], m), b[0], 1e-6) and vclose(rot(a[1], m), b[1], 1e-5) and vclose(rot(a[2], m), b[2], 1e-6)
                    and a[3] == b[3] and a[4] == b[4]):
                fails.append(('geometry_disp', f'{where}.vert[{i}] {b} expected rotation of {a}'))
                break


def visible_template(file: InstanceFile):
    brushes = [s for s in file.vmf.brushes if not (s.hidden or not s.vis_shown)]
    ents = [e for e in file.vmf.entities if not (e.hidden or not e.vis_shown)]
    return brushes, ents


def snapshot_template(file: InstanceFile):
    brushes, ents = visible_template(file)
    return ([[side_obs(f) for f in s.sides] for s in brushes],
            [{'keys': dict(e.items()), 'solids': [[side_obs(f) for f in s.sides] for s in e.solids],
              'solid_visible': [not (s.hidden or not s.vis_shown) for s in e.solids],
              'outputs': [(o.output, o.target, o.input, o.params, o.delay, o.times) for o in e.outputs],
              'fixup': {k: v for k, v in e.fixup.items()} if e._fixup is not None else {}} for e in ents])


def check_collapse(fails: list, tmpl, target: VMF, n_before, placement: str, style: FixupStyle, table: str) -> None:
    """Absolute oracle: target contents added by the collapse vs the template snapshot transformed by the reference."""
    t_brushes, t_ents = tmpl
    pos, ang = PLACEMENTS[placement]
    m = ref_matrix(*ang)
    o = pos
    tol = 1e-5
    new_brushes = target.brushes[n_before[0]:]
    new_ents = target.entities[n_before[1]:]
    if len(new_brushes) != len(t_brushes) or len(new_ents) != len(t_ents):
        fails.append(('count', f'{len(new_brushes)} brushes / {len(new_ents)} entities added, template has {len(t_brushes)} / {len(t_ents)} visible'))
        return
    for i, (src, b) in enumerate(zip(t_brushes, new_brushes)):
        for j, (ss, f) in enumerate(zip(src, b.sides)):
            check_side(fails, f'brush[{i}].side[{j}]', ss, side_obs(f), m, o, tol)
    tab = FIXUP_TABLES[table]
    for i, (src, e) in enumerate(zip(t_ents, new_ents)):
        cls = src['keys']['classname']
        for j, (ssol, sol) in enumerate(zip(src['solids'], e.solids)):
            for k, (ss, f) in enumerate(zip(ssol, sol.sides)):
                check_side(fails, f'ent[{i}:{cls}].solid[{j}].side[{k}]', ss, side_obs(f), m, o, tol)
        # "a copy of every VISIBLE brush": the visible solids of the entity, no more (a hidden solid is left out or stays hidden)
        vis_src = [ssol for ssol, vis in zip(src['solids'], src['solid_visible']) if vis]
        vis_got = [sol for sol in e.solids if not (sol.hidden or not sol.vis_shown)]
        if len(vis_got) != len(vis_src):
            fails.append(('count', f'ent[{i}:{cls}]: {len(vis_got)} visible solids after collapsing, the template entity has {len(vis_src)} visible '
                                   f'(and {len(src["solids"]) - len(vis_src)} hidden)'))
        for key, val in src['keys'].items():
            kf = key.casefold()
            sub = ref_substitute(val, tab)
            if '\0' in sub:
                continue          # undefined variable: replacement text is not pinned by the property
            got = e[key]
            if kf == 'origin':
                p = parse3(sub)
                q = parse3(got)
                if p is None or q is None or not vclose(xform(p, m, o), q, 2e-5 + 1e-6 * max(map(abs, xform(p, m, o)))):
                    fails.append(('origin', f'ent[{i}:{cls}].origin = {got!r}, expected {xform(p, m, o) if p else sub}'))
            elif kf == 'angles' and 'pitch' not in {k.casefold() for k in src['keys']}:
                a = parse3(sub)
                q = parse3(got)
                if a is None or q is None:
                    continue
                want = mat_mul(ref_matrix(*a), m)
                have = ref_matrix(*q)
                if max(abs(want[r][c] - have[r][c]) for r in range(3) for c in range(3)) > 1e-5:
                    fails.append(('orientation', f'ent[{i}:{cls}].angles = {got!r} is not {sub!r} composed with the instance rotation {ang}'))
            elif kf in ('targetname', 'parentname') or (kf == 'target' and cls in ('light_spot',)):
                want = ref_name(sub, style, 'inst')
                if got != want:
                    fails.append(('name', f'ent[{i}:{cls}].{key} = {got!r}, expected {want!r} (style {style.name})'))
            elif kf in PLAIN_KEYS:
                if got != sub:
                    fails.append(('plain_key', f'ent[{i}:{cls}].{key} = {got!r}, expected {sub!r}: a key no definition knows is free-form text'))
            elif kf in ('classname', 'file', 'fixup_style', 'basisv', 'uv0') or kf == 'pitch' or kf == 'yaw':
                continue
        if 'pitch' in {k.casefold() for k in src['keys']}:
            # orientation of pitch entities: forward direction must be the template's rotated
            a = parse3(src['keys']['angles'])
            sp = float(src['keys']['pitch'])
            fwd_src = ref_matrix(-sp, a[1], 0)[0]
            q = parse3(e['angles'])
            gp = float(e['pitch'])
            fwd_got = ref_matrix(-gp, q[1], 0)[0]
            if not vclose(rot(fwd_src, m), fwd_got, 1e-4):
                fails.append(('orientation_pitch', f'ent[{i}:{cls}] pitch/angles = {e["pitch"]!r}/{e["angles"]!r}: forward {fwd_got}, expected {rot(fwd_src, m)}'))
        for (oo, ot, oi, op, od, otimes), out in zip(src['outputs'], e.outputs):
            sub = ref_substitute(ot, tab)
            if '\0' in sub:
                continue
            want = ref_name(sub, style, 'inst')
            if out.target != want or (out.output, out.input, out.params, out.delay, out.times) != (oo, oi, op, od, otimes):
                fails.append(('output', f'ent[{i}:{cls}] output {oo}: target {out.target!r} expected {want!r}'))
        if cls == 'func_instance':
            for var, val in src['fixup'].items():
                sub = val
                want = ref_name(sub, style, 'inst') if (sub and sub[0] not in '@!-.0123456789') else sub
                if e.fixup[var] != want:
                    fails.append(('nested_fixup', f'nested instance fixup ${var} = {e.fixup[var]!r}, expected {want!r}'))
        if cls == 'info_overlay':
            old_ids = src['keys']['sides'].split()
            got_ids = e['sides'].split()
            all_new = {f.id for b in new_brushes for f in b.sides}
            if len(got_ids) != len(old_ids) or not all(int(x) in all_new for x in got_ids):
                fails.append(('side_list', f'overlay sides {e["sides"]!r} do not reference the {len(old_ids)} copied faces'))


def run_case(acc: core.Acc, names: tuple, placement: str, style: FixupStyle, table: str, text_cache: dict) -> None:
    case = {'template': list(names), 'placement': placement, 'style': style.name, 'table': table}
    acc.evaluations += 1
    text = text_cache.setdefault(names, template_text(names))
    file = load_template(text)
    tmpl = snapshot_template(file)
    before = file.vmf.export(inc_version=False)
    target = VMF()
    target.create_ent('info_player_start', origin='0 0 0')
    n_before = (len(target.brushes), len(target.entities))
    inst = make_inst(placement, style, table)
    try:
        collapse_one(target, inst, file)
    except Exception as exc:  # noqa: BLE001
        acc.fail('collapse_raises', case, f'{case}: collapse_one raised {type(exc).__name__}: {exc}', exc=type(exc).__name__)
        return
    fails: list = []
    check_collapse(fails, tmpl, target, n_before, placement, style, table)
    seen = set()
    for kind, msg in fails:
        if kind in seen:
            continue
        seen.add(kind)
        acc.fail('collapse_' + kind, case, f'{case}: {msg}', clause=kind)
    if file.vmf.export(inc_version=False) != before:
        acc.fail('template_modified', case, f'{case}: the template VMF exports differently after one collapse', clause='template')
    # exported target must be parseable and IDs unique (cheap sanity of the produced map)
    try:
        VMF.parse(Keyvalues.parse(target.export(inc_version=False)))
    except Exception as exc:  # noqa: BLE001
        acc.fail('result_unparseable', case, f'{case}: the collapsed map cannot be exported and re-parsed: {exc}', clause='export')
    acc.outcome((placement, style.name, len(target.entities), len(target.brushes)))


# ------------------------------------------------------------------------------------------------ histories (B)

class HistModel(bfs.Model):
    """State = history of collapses over two shared, cached templates."""
    NAMES = [('world_brush', 'disp', 'nested', 'relay', 'brush_ent', 'vars'), ('point_ent', 'pitch_ent', 'nested', 'strata_points')]

    def __init__(self) -> None:
        self.texts = [template_text(n) for n in self.NAMES]

    def build(self, history: list):
        files = [load_template(t) for t in self.texts]
        base = [f.vmf.export(inc_version=False) for f in files]
        target = VMF()
        results = []
        problems = []
        for k, (ti, placement, style, table) in enumerate(history):
            nb = (len(target.brushes), len(target.entities))
            inst = make_inst(placement, FixupStyle[style], table, name=f'i{k}')
            try:
                collapse_one(target, inst, files[ti])
            except Exception as exc:  # noqa: BLE001
                problems.append(('collapse_raises', f'{type(exc).__name__}: {exc}'))
                continue
            results.append((ti, placement, style, table, k, nb))
        return {'files': files, 'base': base, 'target': target, 'results': results, 'problems': problems}

    def enabled(self, st) -> list:
        ops = []
        for ti in (0, 1):
            for placement in ('identity', 'general', 'yaw90'):
                ops.append([ti, placement, 'PREFIX', 'prefix'])
            ops.append([ti, 'translate', 'SUFFIX', 'one'])
            ops.append([ti, 'pitch90', 'NONE', 'none'])
        return ops

    def canon(self, st):
        return (tuple(f.vmf.export(inc_version=False) for f in st['files']), norm(st['target'].export(inc_version=False)))

    def check(self, st, history: list, acc: core.Acc) -> None:
        acc.evaluations += 1
        case = {'history': history}
        for kind, msg in st['problems']:
            acc.fail(kind, case, f'history={history}: {msg}')
        for ti, f in enumerate(st['files']):
            if f.vmf.export(inc_version=False) != st['base'][ti]:
                acc.fail('template_modified', case, f'history={history}: template {ti} exports differently than before the first collapse',
                         clause='template')
                return
        if history:
            acc.nontrivial += 1
            # the last collapse must equal the same collapse done with a freshly parsed template into an empty map
            ti, placement, style, table, k, nb = st['results'][-1] if st['results'] else (None,) * 6
            if ti is not None:
                fresh = load_template(self.texts[ti])
                t2 = VMF()
                collapse_one(t2, make_inst(placement, FixupStyle[style], table, name=f'i{k}'), fresh)
                a = added_text(st['target'], nb)
                b = added_text(t2, (0, 0))
                if a != b:
                    la, lb = a.split('\n'), b.split('\n')
                    i = next((i for i, (x, y) in enumerate(zip(la, lb)) if x != y), min(len(la), len(lb)))
                    acc.fail('history_dependent_result', case,
                             f'history={history}: collapse #{k} differs from the same collapse of a fresh template at line {i}: '
                             f'{la[i-1:i+2]} vs {lb[i-1:i+2]}', clause='history')
        acc.outcome(len(st['target'].entities))


ID_RE = re.compile(r'"(id|nodeid|sides)" "[-0-9 ]*"')


def norm(text: str) -> str:
    return ID_RE.sub(lambda m: f'"{m.group(1)}" "#"', text)


def added_text(target: VMF, nb) -> str:
    buf = io.StringIO()
    for s in target.brushes[nb[0]:]:
        s.export(buf)
    for e in target.entities[nb[1]:]:
        e.export(buf)
    return norm(buf.getvalue())


# ------------------------------------------------------------------------------------------------ termination (T)

GRAPHS = {
    'A->A': {'a.vmf': ['a.vmf']},
    'A->A,A': {'a.vmf': ['a.vmf', 'a.vmf']},
    'A->B->A': {'a.vmf': ['b.vmf'], 'b.vmf': ['a.vmf']},
    'A->B,B;B->A': {'a.vmf': ['b.vmf', 'b.vmf'], 'b.vmf': ['a.vmf']},
    'A->B,C;B->C;C->(none)': {'a.vmf': ['b.vmf', 'c.vmf'], 'b.vmf': ['c.vmf'], 'c.vmf': []},
    'A->A,A (mixed-case file name)': {'Tower_A.vmf': ['Tower_A.vmf', 'tower_a.VMF']},
    'A->B,B;B->A (mixed-case file names)': {'Inst/A.vmf': ['inst/B.vmf', 'INST/b.vmf'], 'inst/b.vmf': ['Inst/A.vmf']},
    'chain depth 5': {'a.vmf': ['b.vmf'], 'b.vmf': ['c.vmf'], 'c.vmf': ['d.vmf'], 'd.vmf': ['e.vmf'], 'e.vmf': []},
}
HORIZON = 3000


def check_termination(acc: core.Acc, gname: str, limit) -> None:
    graph = GRAPHS[gname]
    case = {'graph': gname, 'recur_limit': limit}
    acc.evaluations += 1
    acc.nontrivial += 1
    files = {}
    for fname, includes in graph.items():
        v = VMF()
        v.create_ent('info_target', origin='0 0 0', targetname='t_' + fname[0].lower())
        for j, inc in enumerate(includes):
            v.create_ent('func_instance', file=inc, origin=f'{16 * (j + 1)} 0 0', angles='0 90 0', targetname=f'sub{j}')
        files[fname] = v.export(inc_version=False)
    fsys = VirtualFileSystem(files)
    main = VMF()
    main.create_ent('func_instance', file=next(iter(graph)), origin='0 0 0', angles='0 0 0', targetname='root')
    calls = [0]
    real = instancing.collapse_one

    class Horizon(Exception):
        pass

    def counting(*a, **kw):
        calls[0] += 1
        if calls[0] > HORIZON:
            raise Horizon()
        return real(*a, **kw)
    instancing.collapse_one = counting
    outcome = 'returned'
    try:
        if limit is None:
            collapse_all(main, fsys)
        else:
            collapse_all(main, fsys, recur_limit=limit)
    except Horizon:
        outcome = 'horizon'
    except RecursionError:
        outcome = 'RecursionError'
    except Exception as exc:  # noqa: BLE001
        outcome = f'{type(exc).__name__}: {exc}'
    finally:
        instancing.collapse_one = real
    acc.outcome((gname, outcome if outcome in ('returned', 'horizon', 'RecursionError') else 'other'))
    cyclic = any(gname.startswith(p) for p in ('A->A', 'A->B->A', 'A->B,B;B->A'))
    if outcome == 'horizon':
        acc.fail('collapse_all_no_termination', case,
                 f'instance graph {gname}: collapse_all(recur_limit={limit}) performed more than {HORIZON} collapses without finishing '
                 f'(instance count grows each round)', graph=gname)
    elif outcome not in ('returned', 'RecursionError'):
        acc.fail('collapse_all_raises', case, f'instance graph {gname}: collapse_all raised {outcome}', graph=gname)
    elif not cyclic and limit is None:
        if outcome != 'returned' or any(e['classname'] == 'func_instance' for e in main.entities):
            acc.fail('collapse_all_incomplete', case, f'acyclic graph {gname}: outcome {outcome}, instances left: '
                     f'{sum(1 for e in main.entities if e["classname"] == "func_instance")}', graph=gname)
    acc.count('collapse_one_calls', calls[0])


# ------------------------------------------------------------------------------------------------

# ------------------------------------------------------------------------------------------------ collapse_all naming

def check_collapse_all_names(acc: core.Acc, style: str) -> None:
    """collapse_all() of a map with named and UNNAMED func_instance entities: every instance's entities are renamed with the
    instance's own (for unnamed ones: generated, non-empty, distinct) name, consistently with the targets of their outputs."""
    acc.evaluations += 1
    acc.nontrivial += 1
    case = {'collapse_all_names': style}
    t = VMF()
    t.create_ent('logic_relay', origin='0 0 0', targetname='r').add_out(Output('OnTrigger', 'door', 'Open'))
    t.create_ent('func_door', origin='8 0 0', targetname='door')
    fsys = VirtualFileSystem({'t.vmf': t.export(inc_version=False)})
    main = VMF()
    style_num = {'PREFIX': '0', 'SUFFIX': '1', 'NONE': '2'}[style]
    main.create_ent('func_instance', file='t.vmf', origin='0 0 0', angles='0 0 0', targetname='named', fixup_style=style_num)
    main.create_ent('func_instance', file='t.vmf', origin='64 0 0', angles='0 90 0', fixup_style=style_num)
    main.create_ent('func_instance', file='t.vmf', origin='128 0 0', angles='0 0 0', targetname='', fixup_style=style_num)
    try:
        collapse_all(main, fsys)
    except Exception as exc:  # noqa: BLE001
        acc.fail('collapse_all_raises', case, f'collapse_all with unnamed instances ({style}) raised {type(exc).__name__}: {exc}', graph='names')
        return
    relays = [e for e in main.entities if e['classname'] == 'logic_relay']
    doors = {e['targetname'] for e in main.entities if e['classname'] == 'func_door'}
    if len(relays) != 3 or len(doors) != (3 if style != 'NONE' else 1):
        acc.fail('collapse_name', case, f'{style}: {len(relays)} relays, door names {sorted(doors)}', clause='name')
        return
    affixes = []
    for e in relays:
        nm, targ = e['targetname'], e.outputs[0].target
        if style == 'NONE':
            ok, aff = (nm == 'r' and targ == 'door'), ''
        elif style == 'PREFIX':
            ok, aff = (nm.endswith('-r') and targ == nm[:-1] + 'door' and len(nm) > 2), nm[:-2]
        else:
            ok, aff = (nm.startswith('r-') and targ == 'door' + nm[1:] and len(nm) > 2), nm[2:]
        if not ok or (style != 'NONE' and targ not in doors):
            acc.fail('collapse_name', case, f'{style}: relay named {nm!r} fires {targ!r} (doors: {sorted(doors)})', clause='name')
            return
        affixes.append(aff)
    if style != 'NONE' and (len(set(affixes)) != 3 or 'named' not in affixes):
        acc.fail('collapse_name', case, f'{style}: instance names used for the three collapses: {affixes} (must be distinct, one of them "named")', clause='name')


# ------------------------------------------------------------------------------------------------ visgroup= option

def vis_template() -> str:
    """Nested visgroups grp > kid > gk, a flat group, members at every level, in two groups, and in none."""
    v = VMF()
    grp, flat = v.create_visgroup('grp'), v.create_visgroup('flat')
    kid, gk = VisGroup(v, 'kid'), VisGroup(v, 'gk')
    grp.child_groups.append(kid)
    kid.child_groups.append(gk)
    for name, groups in (('e_top', [grp]), ('e_kid', [kid]), ('e_gk', [gk]), ('e_flat', [flat]), ('e_none', []), ('e_two', [kid, flat])):
        e = v.create_ent('info_target', origin='1 2 3', targetname=name)
        e.visgroup_ids.update(g.id for g in groups)
    for mat, groups in (('m_kid', [kid]), ('m_none', []), ('m_gk_flat', [gk, flat])):
        sol = v.make_prism(Vec(0, 0, 0), Vec(8, 8, 8), mat=mat).solid
        sol.visgroup_ids.update(g.id for g in groups)
        v.add_brush(sol)
    return v.export(inc_version=False)


VIS_MEMBERS = {'e_top': {'grp'}, 'e_kid': {'kid'}, 'e_gk': {'gk'}, 'e_flat': {'flat'}, 'e_none': set(), 'e_two': {'kid', 'flat'},
               'm_kid': {'kid'}, 'm_none': set(), 'm_gk_flat': {'gk', 'flat'}}
VIS_TREE = [['grp', [['kid', [['gk', []]]]]], ['flat', []]]


def vis_tree_of(groups) -> list:
    return [[g.name, vis_tree_of(g.child_groups)] for g in groups]


def check_visgroup_modes(acc: core.Acc, mode: str, pre_groups: int, placement: str) -> None:
    """collapse_one(..., visgroup=False | True | <VisGroup>): which groups exist afterwards and who is in them."""
    acc.evaluations += 1
    acc.nontrivial += 1
    case = {'visgroup_mode': mode, 'pre_groups': pre_groups, 'placement': placement}
    file = load_template(vis_template())
    before = file.vmf.export(inc_version=False)
    target = VMF()
    own = [target.create_visgroup(f'own{i}') for i in range(pre_groups)]
    parent = None
    if mode == 'group':
        parent = target.create_visgroup('instances')
    nb, ne = len(target.brushes), len(target.entities)
    inst = make_inst(placement, FixupStyle.NONE, 'none')
    try:
        collapse_one(target, inst, file, visgroup={'false': False, 'true': True, 'group': parent}[mode])
    except Exception as exc:  # noqa: BLE001
        acc.fail('collapse_raises', case, f'{case}: collapse_one raised {type(exc).__name__}: {exc!r}', exc=type(exc).__name__)
        return

    def fail(msg):
        acc.fail('collapse_visgroups', case, f'{case}: {msg}', clause='visgroups')

    def walk(groups):
        for g in groups:
            yield g
            yield from walk(g.child_groups)
    allg = list(walk(target.vis_tree))
    ids = [g.id for g in allg]
    if len(set(ids)) != len(ids) or any(not isinstance(i, int) or i <= 0 for i in ids):
        fail(f'visgroup IDs of the target are not unique positive ints: {ids}')
        return
    want_tree = [[f'own{i}', []] for i in range(pre_groups)]
    if mode == 'true':
        want_tree += VIS_TREE
    elif mode == 'group':
        want_tree += [['instances', VIS_TREE]]
    if vis_tree_of(target.vis_tree) != want_tree:
        fail(f'visgroup tree afterwards {vis_tree_of(target.vis_tree)}, expected {want_tree}')
        return
    copied = {g.name: g.id for g in allg if g.name in ('grp', 'kid', 'gk', 'flat')}
    objs = [(e['targetname'], e.visgroup_ids) for e in target.entities[ne:]] + [(b.sides[0].mat, b.visgroup_ids) for b in target.brushes[nb:]]
    if sorted(n for n, _ in objs) != sorted(VIS_MEMBERS):
        fail(f'objects added: {sorted(n for n, _ in objs)}')
        return
    for name, got in objs:
        if mode == 'false':
            want = set()
        else:
            want = {copied[g] for g in VIS_MEMBERS[name]}
            if not want and mode == 'group':
                want = {parent.id}
        if set(got) != want:
            fail(f'{name}: member of visgroups {sorted(got)}, expected {sorted(want)} (copied groups {copied})')
            return
    if file.vmf.export(inc_version=False) != before:
        acc.fail('template_modified', case, f'{case}: the template exports differently after the collapse', clause='template')


def shard(spec) -> core.Acc:
    acc = core.Acc()
    cache: dict = {}
    if spec[0] == 'vis':
        for mode in ('false', 'true', 'group'):
            for pre in (0, 1, 5):
                for placement in ('identity', 'general'):
                    check_visgroup_modes(acc, mode, pre, placement)
        for style in ('PREFIX', 'SUFFIX', 'NONE'):
            check_collapse_all_names(acc, style)
        acc.sample({'visgroup_modes': ['false', 'true', 'group'], 'pre_groups': [0, 1, 5]}, 1)
        return acc
    if spec[0] == 'cases':
        for names in spec[1]:
            for placement, style, table in spec[2]:
                run_case(acc, names, placement, style, table, cache)
            acc.nontrivial += 1
        acc.sample({'template': list(spec[1][-1]), 'configs': len(spec[2])}, 1)
    elif spec[0] == 'term':
        check_termination(acc, spec[1], spec[2])
    return acc


def run(ctx: core.Ctx) -> None:
    names = [n for n, _ in TEMPLATE_FEATURES]
    k = ctx.pick(2, 3)
    subsets = [c for r in range(1, k + 1) for c in itertools.combinations(names, r)]
    full = [(p, s, t) for p in PLACEMENTS for s in FixupStyle for t in FIXUP_TABLES]
    reduced = [(p, FixupStyle.PREFIX, 'prefix') for p in PLACEMENTS] + [('general', s, t) for s in FixupStyle for t in FIXUP_TABLES]
    shards = []
    for chunk in core.chunked(subsets, 4):
        shards.append(('cases', chunk, full if (not ctx.quick or all(len(c) == 1 for c in chunk)) else reduced))
    shards.append(('vis',))
    for g in GRAPHS:
        shards.append(('term', g, None))
        shards.append(('term', g, 5))
    s = ctx.seed % len(shards)
    core.par_map(shard, shards[s:] + shards[:s], ctx.acc)
    # (B) histories
    model = HistModel()
    a2 = core.Acc()
    res = bfs.explore(model, a2, ctx.pick(3, 4), chunk=8)
    ctx.acc.merge(a2)
    ctx.coverage_extra.update({'states': res['states'], 'transitions': res['transitions'], 'traces_validated_against_impl': res['transitions'],
                               'history_depth': res['depth_completed'], 'template_subsets': len(subsets), 'placements': list(PLACEMENTS),
                               'termination_graphs': list(GRAPHS), 'termination_horizon_collapses': HORIZON})
    ctx.rule = (f'(E) every subset of 1..{k} of {len(names)} template features ({len(subsets)} templates: textured world brush, displacement, '
                f'explicit point data, brush entity, point entity, pitch entities, relay with outputs, $variables, nested func_instance '
                f'with fixups, hidden objects, overlay side lists, visgroups, direction keys; nested visgroups under visgroup=False/True/<VisGroup> with 0/1/5 groups already in the target) x {len(PLACEMENTS)} placements x 3 fixup styles x '
                f'{len(FIXUP_TABLES)} fixup tables (quick: full product for single features, placements + style/table sweep for pairs), each compared with '
                f'the template transformed by an independent reference (planes, origins, orientation matrices, displacement vectors, '
                f'texture-coordinate invariance, names, substituted variables) and template export unchanged; (B) BFS over histories of '
                f'<= {res["depth_completed"]} collapses (10 operations) on two shared templates: templates export byte-identically in '
                f'every state and each collapse equals the collapse of a freshly parsed template; (T) {len(GRAPHS)} instance graphs x '
                f'recur_limit in (default, 5) under a horizon of {HORIZON} collapse_one calls.  Non-trivial = every template / history / graph.')


def replay(case: dict) -> list:
    acc = core.Acc()
    if 'collapse_all_names' in case:
        check_collapse_all_names(acc, case['collapse_all_names'])
    elif 'visgroup_mode' in case:
        check_visgroup_modes(acc, case['visgroup_mode'], case['pre_groups'], case['placement'])
    elif 'template' in case:
        run_case(acc, tuple(case['template']), case['placement'], FixupStyle[case['style']], case['table'], {})
    elif 'graph' in case:
        check_termination(acc, case['graph'], case['recur_limit'])
    else:
        model = HistModel()
        hist = case['history']
        for i in range(len(hist) + 1):
            st = model.build(hist[:i])
            model.check(st, hist[:i], acc)
            if acc.fail_counts:
                break
    return acc.all_failures()
