"""C08 — IDs handed out inside one VMF are unique per kind and never reused while live.

Explicit-state BFS over allocation / release histories on real objects.  Garbage collection is an
explicit operation of the alphabet ("drop the last handle, then gc.collect()"); otherwise the harness
holds strong references, so object lifetimes are owned by the search.  The ID managers of the different
kinds are independent, so four sub-models are searched separately (entities + node IDs, brushes + faces,
groups + visgroups, fixup indexes), plus parse / instance-collapse operations in the entity model.
"""
from __future__ import annotations

import gc
import itertools

from srctools import Vec, Matrix
from srctools.keyvalues import Keyvalues
from srctools.vmf import VMF, Entity, Solid, Side, VisGroup, EntityGroup, FixupValue, EntityFixup
from srctools.instancing import Instance, InstanceFile, collapse_one

from mcv import core, bfs

PROPERTY = 'C08'
LEVEL = 'model_checking'

DOCS = {
    'dup_ent': 'world\n{\n"id" "1"\n"classname" "worldspawn"\n}\nentity\n{\n"id" "5"\n"classname" "a"\n}\nentity\n{\n"id" "5"\n"classname" "b"\n}\n'
               'entity\n{\n"id" "1"\n"classname" "c"\n}\n',
    'odd_ids': 'world\n{\n"id" "0"\n"classname" "worldspawn"\n}\nentity\n{\n"id" "0"\n"classname" "a"\n}\nentity\n{\n"id" "-3"\n"classname" "b"\n}\n'
               'entity\n{\n"classname" "c"\n}\nhidden\n{\nentity\n{\n"id" "2"\n"classname" "d"\n}\n}\nentity\n{\n"id" "2"\n"classname" "e"\n}\n',
    'dup_node': 'world\n{\n"id" "1"\n"classname" "worldspawn"\n}\nentity\n{\n"id" "2"\n"classname" "info_node"\n"nodeid" "1"\n}\n'
                'entity\n{\n"id" "3"\n"classname" "info_node"\n"nodeid" "1"\n}\nentity\n{\n"id" "4"\n"classname" "info_node"\n"nodeid" "0"\n}\n',
}
_SIDE = ('side\n{\n"id" "%d"\n"plane" "(0 0 0) (1 0 0) (1 1 0)"\n"material" "M"\n"uaxis" "[1 0 0 0] 0.25"\n"vaxis" "[0 -1 0 0] 0.25"\n'
         '"rotation" "0"\n"lightmapscale" "16"\n"smoothing_groups" "0"\n}\n')
DOCS['dup_solid'] = ('world\n{\n"id" "1"\n"classname" "worldspawn"\nsolid\n{\n"id" "3"\n' + _SIDE % 7 + _SIDE % 7 + '}\nsolid\n{\n"id" "3"\n' + _SIDE % 0
                     + _SIDE % 8 + '}\ngroup\n{\n"id" "4"\n}\ngroup\n{\n"id" "4"\n}\ngroup\n{\n"id" "0"\n}\n}\n'
                     'visgroups\n{\nvisgroup\n{\n"name" "a"\n"visgroupid" "2"\nvisgroup\n{\n"name" "b"\n"visgroupid" "2"\n}\n}\nvisgroup\n{\n"name" "c"\n"visgroupid" "2"\n}\n}\n'
                     'entity\n{\n"id" "2"\n"classname" "func_brush"\nsolid\n{\n"id" "3"\n' + _SIDE % 7 + '}\nhidden\n{\nsolid\n{\n"id" "3"\n' + _SIDE % 8 + '}\n}\n}\n')
TEMPLATE = ('world\n{\n"id" "1"\n"classname" "worldspawn"\nsolid\n{\n"id" "2"\n' + _SIDE % 1 + _SIDE % 1 + '}\n}\n'
            'entity\n{\n"id" "1"\n"classname" "info_node"\n"nodeid" "1"\n"origin" "0 0 0"\n}\n'
            'entity\n{\n"id" "1"\n"classname" "func_brush"\n"origin" "0 0 0"\nsolid\n{\n"id" "2"\n' + _SIDE % 1 + '}\n}\n')


def P(*xyz):
    return Vec(*xyz)


class St:
    def __init__(self) -> None:
        self.v = [VMF(), VMF()]
        self.ents: list = []     # handles (Entity or None once dropped)
        self.solids: list = []
        self.vis: list = []
        self.groups: list = []
        self.fix: list = []      # EntityFixup objects under test (attached to entities in v[0])
        self.fxo: list = []      # stand-alone EntityFixup objects made through the copy protocols
        self.problems: list = []


def _in_map(e: Entity) -> bool:
    return any(x is e for x in e.map.entities)


def _brush_in_map(s: Solid) -> bool:
    return any(x is s for x in s.map.brushes)


def apply(st: St, op: list) -> None:
    k = op[0]
    v0 = st.v[0]
    try:
        # ---- entities
        if k == 'ent':
            d = op[1]
            if d == 'live':
                d = next((e.id for e in st.ents if e is not None), 1)
            e = Entity(v0, keys={'classname': 'a'}, ent_id=d)
            v0.add_ent(e)
            st.ents.append(e)
        elif k == 'create':
            st.ents.append(v0.create_ent('a'))
        elif k == 'create_node':
            st.ents.append(v0.create_ent('info_node', nodeid=op[1]))     # a node ID requested through the constructor's keys
        elif k == 'remove':
            st.ents[op[1]].remove()
        elif k == 'add':
            e = st.ents[op[1]]
            e.map.add_ent(e)
        elif k == 'drop':
            st.ents[op[1]] = None
            gc.collect()
        elif k == 'copy':
            _, i, v, des = op
            c = st.ents[i].copy(des_id=des, vmf_file=st.v[v])
            st.v[v].add_ent(c)
            if v == 0:
                st.ents.append(c)
        elif k == 'nodeid':
            st.ents[op[1]]['nodeid'] = op[2]
        elif k == 'nodeid_case':
            st.ents[op[1]]['NodeID'] = op[2]          # keys are case-insensitive: this overwrites an existing "nodeid"
        elif k == 'nodeid_update':
            st.ents[op[1]].update({'NODEID': op[2]})
        elif k == 'delnode':
            del st.ents[op[1]]['nodeid']
        elif k == 'popnode':
            st.ents[op[1]].pop('nodeid')
        elif k == 'clearent':
            st.ents[op[1]].clear()
        elif k == 'parse':
            st.ents = []
            gc.collect()
            st.v[0] = VMF.parse(Keyvalues.parse(DOCS[op[1]]))
            st.ents = list(st.v[0].entities)[:3]
        elif k == 'collapse':
            file = InstanceFile(VMF.parse(Keyvalues.parse(TEMPLATE), preserve_ids=True))
            inst = Instance('inst', 'f.vmf', Vec(), Matrix())
            collapse_one(v0, inst, file)
        elif k == 'collapse_same':
            # the SAME Instance object collapsed again (e.g. after moving it): its id tables persist between the calls
            file = InstanceFile(VMF.parse(Keyvalues.parse(TEMPLATE), preserve_ids=True))
            if getattr(st, 'inst', None) is None:
                st.inst = Instance('inst', 'f.vmf', Vec(), Matrix())
            st.n_same = getattr(st, 'n_same', 0) + 1
            collapse_one(v0, st.inst, file)
        elif k == 'collapse_all':
            # the whole-map entry point: func_instance entities placed in the map are found, removed and expanded
            from srctools.instancing import collapse_all
            from srctools.filesys import VirtualFileSystem
            for n in range(op[1]):
                v0.create_ent('func_instance', file='f.vmf', targetname=f'i{n}', origin=f'{n * 64} 0 0', angles='0 0 0')
            collapse_all(v0, VirtualFileSystem({'f.vmf': TEMPLATE}))
            gc.collect()
        elif k == 'setkey':
            st.ents[op[1]][op[2]] = op[3]
        elif k == 'deltuple':
            del st.ents[op[1]]['health', 'nodeid', 'nope']
        # ---- solids / faces
        elif k == 'prism':
            st.solids.append(v0.make_prism(P(0, 0, 0), P(8, 8, 8)).solid)
            v0.add_brush(st.solids[-1])
        elif k == 'solid':
            d = op[1]
            if d == 'live':
                d = next((s.id for s in st.solids if s is not None), 1)
            s = Solid(v0, id=d, sides=[Side(v0, [P(0, 0, 0), P(1, 0, 0), P(1, 1, 0)], des_id=d),
                                       Side(v0, [P(0, 0, 1), P(1, 0, 1), P(1, 1, 1)], des_id=d)])
            v0.add_brush(s)
            st.solids.append(s)
        elif k == 'ctor_fails':
            # a constructor call the library rejects (invalid argument): nothing is created, and the map's IDs stay sound
            what, d = op[1], op[2]
            if d == 'live':
                d = next((s.id for s in st.solids if s is not None), 1)
            try:
                if what == 'solid':
                    Solid(v0, id=d, sides=[], visgroup_ids=3)
                elif what == 'side':
                    Side(v0, [P(0, 0, 0), P(1, 0, 0)], des_id=d)
                elif what == 'ent':
                    Entity(v0, keys={'classname': 'x'}, fixup=5, ent_id=d)
                elif what == 'group':
                    EntityGroup(v0, id=d, shown='x', auto_shown=None, color=5)     # accepted by some versions: then it is just a group
            except (TypeError, ValueError):
                pass
            gc.collect()
        elif k == 'scopy':
            _, i, v, des = op
            c = st.solids[i].copy(des_id=des, vmf_file=st.v[v])
            st.v[v].add_brush(c)
            if v == 0:
                st.solids.append(c)
        elif k == 'sremove':
            st.solids[op[1]].remove()
        elif k == 'sadd':
            v0.add_brush(st.solids[op[1]])
        elif k == 'sdrop':
            st.solids[op[1]] = None
            gc.collect()
        elif k == 'rebuild':
            # a replacement brush assembled from the SAME Side objects (what brush-editing code does), put in the old one's
            # place; the old Solid object is then forgotten.  The faces are still in the map, under the new brush.
            old_s = st.solids[op[1]]
            new_s = Solid(v0, sides=old_s.sides) if op[2] else Solid(v0, sides=list(old_s.sides))
            old_s.remove()
            v0.add_brush(new_s)
            st.solids[op[1]] = new_s
            del old_s
            gc.collect()
        elif k == 'side_drop':
            # remove one face from a brush and forget it
            s = st.solids[op[1]]
            if len(s.sides) > 1:
                s.sides.pop()
            gc.collect()
        elif k == 'side_add':
            st.solids[op[1]].sides.append(Side(v0, [P(0, 0, 2), P(1, 0, 2), P(1, 1, 2)], des_id=op[2]))
        elif k == 'entsolid':
            e = v0.create_ent('func_brush') if not v0.entities else v0.entities[0]
            s = Solid(v0, id=op[1], sides=[Side(v0, [P(0, 0, 0), P(1, 0, 0), P(1, 1, 0)], des_id=op[1])])
            e.solids.append(s)
        elif k == 'entcopy_brush':
            if v0.entities:
                c = v0.entities[0].copy()
                v0.add_ent(c)
        # ---- groups / visgroups
        elif k == 'vis':
            g = VisGroup(v0, 'g', op[1])
            v0.vis_tree.append(g)
            st.vis.append(g)
        elif k == 'vischild':
            g = VisGroup(v0, 'c', op[2])
            st.vis[op[1]].child_groups.append(g)
            st.vis.append(g)
        elif k == 'vispromote':
            # a child group becomes a top-level group of the map (moved, not copied)
            g = st.vis[op[1]]
            for parent in st.vis:
                if parent is not None and g in parent.child_groups:
                    parent.child_groups.remove(g)
                    v0.vis_tree.append(g)
                    break
        elif k == 'visdissolve':
            # a top-level group is dissolved: its children take its place in the tree, the group object is dropped
            g = st.vis[op[1]]
            if g in v0.vis_tree:
                v0.vis_tree.remove(g)
                v0.vis_tree.extend(g.child_groups)
                st.vis[op[1]] = None
                del g
                gc.collect()
        elif k == 'visdrop':
            g = st.vis[op[1]]
            if g in v0.vis_tree:
                v0.vis_tree.remove(g)
            for parent in st.vis:
                if parent is not None and g in parent.child_groups:
                    parent.child_groups.remove(g)
            st.vis[op[1]] = None
            del g
            gc.collect()
        elif k == 'viscreate':
            st.vis.append(v0.create_visgroup('n'))
        elif k == 'viscopy':
            _, i, v = op
            c = st.vis[i].copy(st.v[v])
            st.v[v].vis_tree.append(c)
            if v == 0:
                st.vis.append(c)
        elif k == 'group':
            g = EntityGroup(v0, id=op[1])
            v0.groups[g.id] = g
            st.groups.append(g)
        elif k == 'groupcopy':
            _, i, v = op
            c = st.groups[i].copy(st.v[v])
            st.v[v].groups[c.id] = c
            if v == 0:
                st.groups.append(c)
        # ---- fixups
        elif k == 'fixinit':
            vals = [FixupValue(var, val, ind) for var, val, ind in op[1]]
            e = Entity(v0, keys={'classname': 'func_instance'}, fixup=vals)
            v0.add_ent(e)
            st.fix.append(e)
        elif k == 'fixset':
            st.fix[op[1]].fixup[op[2]] = op[3]
        elif k == 'fixdel':
            del st.fix[op[1]].fixup[op[2]]
        elif k == 'fixcopy':
            c = st.fix[op[1]].copy()
            v0.add_ent(c)
            st.fix.append(c)
        elif k == 'fixctor':
            # construct from another entity's values (the documented use of copy_values())
            e = Entity(v0, keys={'classname': 'func_instance'}, fixup=st.fix[op[1]].fixup.copy_values())
            v0.add_ent(e)
            st.fix.append(e)
        elif k == 'fxproto':
            import copy as _copy
            import pickle as _pickle
            src = st.fix[op[1]].fixup
            st.fxo_how = getattr(st, 'fxo_how', []) + [op[2]]
            st.fxo.append({'copy.copy': _copy.copy, 'deepcopy': _copy.deepcopy, 'pickle': lambda o: _pickle.loads(_pickle.dumps(o)),
                           'copy()': lambda o: EntityFixup(o.copy_values())}[op[2]](src))
        elif k == 'fxoset':
            st.fxo[op[1]][op[2]] = 'w'
        elif k == 'fxodel':
            del st.fxo[op[1]][op[2]]
        elif k == 'fxoclear':
            st.fxo[op[1]].clear()
        elif k == 'fixsetdefault':
            st.fix[op[1]].fixup.setdefault(op[2], 'd')
        elif k == 'fixupdate':
            st.fix[op[1]].fixup.update(op[2])
        elif k == 'fixclear':
            st.fix[op[1]].fixup.clear()
        elif k == 'fixreparse':
            st.v[0] = VMF.parse(Keyvalues.parse(v0.export(inc_version=False)))
            st.fix = [e for e in st.v[0].entities][:len(st.fix)]
        else:
            raise AssertionError(op)
    except Exception as exc:  # noqa: BLE001
        st.problems.append(('op_raised', f'{op} raised {type(exc).__name__}: {exc}'))


def uniq_problem(ids: list, what: str):
    bad = [i for i in ids if not (type(i) is int and i > 0)]
    if bad:
        return 'nonpositive', f'{what} IDs {ids}: {bad} are not positive ints'
    if len(set(ids)) != len(ids):
        dup = sorted({i for i in ids if ids.count(i) > 1})
        return 'duplicate', f'{what} IDs {ids}: {dup} occur more than once'
    return None


def vis_ids(tree) -> list:
    out = []
    for g in tree:
        out.append(g.id)
        out.extend(vis_ids(g.child_groups))
    return out


def _node_keys(e) -> list:
    """Every stored key that spells 'nodeid' in any case, with its value (a stale second spelling has its own future), and
    the other key the alphabet can set (its value may be mistaken for a node number by a faulty delete)."""
    return sorted((k, v) for k, v in e._keys.items() if k.casefold() in ('nodeid', 'health'))


def _scalars(obj) -> list:
    return sorted((k, repr(x)) for k, x in vars(obj).items() if k not in ('id', 'hidden', 'vis_shown', 'vis_auto_shown', 'logical_pos', 'comments')
                  and type(x) in (bool, int, str, float, type(None)))


def vis_shape(tree) -> list:
    """Nested form for the canonical state: copies recurse into children, so [1[2]] and [1, 2] have different futures."""
    return [[g.id, vis_shape(g.child_groups)] for g in tree]


ENT_CORE_OPS = {'ent', 'create', 'create_node', 'remove', 'add', 'drop', 'copy', 'nodeid', 'delnode', 'collapse', 'collapse_all', 'parse'}


class Model(bfs.Model):
    def __init__(self, part: str, maxh: int, core_only: bool = False) -> None:
        self.part = part
        self.maxh = maxh
        self.core_only = core_only      # the deepest level of the entity model is explored over the core operations only

    def build(self, history: list) -> St:
        st = St()
        for op in history:
            apply(st, op)
        return st

    def dispose(self, st: St) -> None:
        st.ents = st.solids = st.vis = st.groups = st.fix = []
        st.fxo = []
        st.v = []

    def enabled(self, st: St) -> list:
        ops: list = []
        p = self.part
        if p == 'ent':
            live = [i for i, e in enumerate(st.ents) if e is not None]
            if len(st.ents) < self.maxh:
                for d in (-1, 0, -5, 1, 2, 'live'):
                    ops.append(['ent', d])
                ops.append(['create'])
                ops.append(['create_node', '1'])
            for i in live:
                e = st.ents[i]
                if _in_map(e):
                    ops.append(['remove', i])
                else:
                    ops.append(['add', i])
                    ops.append(['drop', i])
                if len(st.ents) < self.maxh:
                    ops.append(['copy', i, 0, -1])
                    ops.append(['copy', i, 0, e.id])
                    ops.append(['copy', i, 1, e.id])
                for val in ('1', '2', 'x'):
                    ops.append(['nodeid', i, val])
                ops.append(['nodeid_case', i, '2'])
                ops.append(['nodeid_case', i, '1'])
                ops.append(['nodeid_update', i, '2'])
                ops.append(['delnode', i])
                ops.append(['popnode', i])
                ops.append(['clearent', i])
            if not st.ents:
                for name in DOCS:
                    ops.append(['parse', name])
            ops.append(['collapse'])
            ops.append(['collapse_same'])
            ops.append(['collapse_all', 2])
            for i, e in enumerate(st.ents):
                if e is not None:
                    if 'health' not in e:
                        ops.append(['setkey', i, 'health', '1'])
                    else:
                        ops.append(['deltuple', i])
            ops.append(['ctor_fails', 'ent', -1])
            ops.append(['ctor_fails', 'ent', 1])
            if self.core_only:
                ops = [o for o in ops if o[0] in ENT_CORE_OPS and not (o[0] == 'ent' and o[1] in (0, -5, 2)) and not (o[0] == 'nodeid' and o[2] == '2')
                       and not (o[0] == 'copy' and o[3] == -1)]
        elif p == 'solid':
            live = [i for i, s in enumerate(st.solids) if s is not None]
            if len(st.solids) < self.maxh:
                ops.append(['prism'])
                for d in (-1, 0, 1, 2, 'live'):
                    ops.append(['solid', d])
            for i in live:
                s = st.solids[i]
                if _brush_in_map(s):
                    ops.append(['sremove', i])
                    ops.append(['side_drop', i])
                    ops.append(['side_add', i, -1])
                    ops.append(['side_add', i, 1])
                    ops.append(['rebuild', i, True])
                    ops.append(['rebuild', i, False])
                else:
                    ops.append(['sadd', i])
                    ops.append(['sdrop', i])
                if len(st.solids) < self.maxh:
                    ops.append(['scopy', i, 0, -1])
                    ops.append(['scopy', i, 0, s.id])
                    ops.append(['scopy', i, 1, s.id])
            ops.append(['entsolid', 1])
            ops.append(['entcopy_brush'])
            ops.append(['collapse'])
            for d in (-1, 1, 'live'):
                ops.append(['ctor_fails', 'solid', d])
            ops.append(['ctor_fails', 'side', -1])
            ops.append(['ctor_fails', 'side', 1])
            if not st.solids:
                ops.append(['parse', 'dup_solid'])
        elif p == 'group':
            if len(st.vis) < self.maxh:
                for d in (-1, 0, 1, 2):
                    ops.append(['vis', d])
                ops.append(['viscreate'])
                for i in range(len(st.vis)):
                    if st.vis[i] is None:
                        continue
                    ops.append(['vischild', i, st.vis[i].id])
                    ops.append(['viscopy', i, 0])
                    ops.append(['viscopy', i, 1])
            for i in range(len(st.vis)):
                if st.vis[i] is not None:
                    if any(p is not None and st.vis[i] in p.child_groups for p in st.vis):
                        ops.append(['vispromote', i])
                    ops.append(['visdrop', i])
                    if st.vis[i].child_groups:
                        ops.append(['visdissolve', i])
            if len(st.groups) < self.maxh:
                for d in (-1, 0, 1, 2):
                    ops.append(['group', d])
                for i in range(len(st.groups)):
                    ops.append(['groupcopy', i, 0])
                    ops.append(['groupcopy', i, 1])
            if not st.vis and not st.groups:
                ops.append(['parse', 'dup_solid'])
        elif p == 'fixup':
            if len(st.fix) < self.maxh:
                ops.append(['fixinit', [['a', '1', 1], ['b', '2', 1]]])
                ops.append(['fixinit', [['a', '1', 2], ['b', '2', 2], ['c', '3', 1]]])
                ops.append(['fixinit', [['a', '1', 0], ['b', '2', -1]]])
                ops.append(['fixinit', [['a', '1', 1], ['A', '2', 3]]])
                ops.append(['fixinit', []])
            for i in range(len(st.fix)):
                for var in ('a', 'B', '$c', 'd'):
                    ops.append(['fixset', i, var, 'v'])
                    ops.append(['fixdel', i, var])
                ops.append(['fixupdate', i, {'x': '1', 'y': '2'}])
                ops.append(['fixsetdefault', i, '$New_Var'])
                ops.append(['fixsetdefault', i, 'a'])
                ops.append(['fixclear', i])
                if len(st.fix) < self.maxh:
                    ops.append(['fixcopy', i])
                    ops.append(['fixctor', i])
            if st.fix:
                ops.append(['fixreparse'])
            if st.fix and len(st.fxo) < 1:
                for how in ('copy.copy', 'deepcopy', 'pickle', 'copy()'):
                    ops.append(['fxproto', 0, how])
            for j in range(len(st.fxo)):
                for var in ('a', 'B', 'e'):
                    ops.append(['fxoset', j, var])
                    ops.append(['fxodel', j, var])
                ops.append(['fxoclear', j])
        return ops

    def canon(self, st: St):
        """IDs are all the allocators read: the used sets and search hints, plus per handle its ID and whether it is in
        the map; node IDs; fixup tables.  Key/values other than nodeid never influence allocation."""
        out = []
        for vmf in st.v:
            out.append((sorted(vmf.ent_id._used), vmf.ent_id.search_pos, sorted(vmf.solid_id._used), vmf.solid_id.search_pos,
                        sorted(vmf.face_id._used), vmf.face_id.search_pos, sorted(vmf.group_id._used), sorted(vmf.vis_id._used),
                        sorted(vmf.node_id._used), vmf.node_id.search_pos,
                        [(e.id, _node_keys(e), [(s.id, [f.id for f in s.sides]) for s in e.solids]) for e in vmf.entities],
                        [(s.id, [f.id for f in s.sides]) for s in vmf.brushes], sorted(vmf.groups), vis_shape(vmf.vis_tree), vmf.spawn.id))
        # (plus every other scalar attribute of the entity object: a cached number kept beside the keys is allocator state too)
        out.append([(None if e is None else (e.id, _in_map(e), _node_keys(e), _scalars(e))) for e in st.ents])
        out.append([(None if s is None else (s.id, _brush_in_map(s), [f.id for f in s.sides])) for s in st.solids])
        out.append([None if g is None else [g.id, vis_shape(g.child_groups)] for g in st.vis])
        out.append([g.id for g in st.groups])
        out.append([sorted((k, f.var, f.value, f.id) for k, f in e.fixup._fixup.items()) for e in st.fix])
        out.append([sorted((k, f.var, f.value, f.id) for k, f in fx._fixup.items()) for fx in st.fxo])
        # how a stand-alone table was made is part of the state: tables with equal contents made through different copy
        # protocols may share hidden structure with their source and so have different futures
        out.append(list(getattr(st, 'fxo_how', [])))
        inst = getattr(st, 'inst', None)
        out.append(None if inst is None else [sorted(inst.node_ids.items()), sorted(inst.ent_ids.items()) if hasattr(inst, 'ent_ids') else None,
                                              getattr(st, 'n_same', 0)])
        out.append(len(st.problems))
        return out

    def check(self, st: St, history: list, acc: core.Acc) -> None:
        acc.evaluations += 1
        case = {'part': self.part, 'history': history}
        lastop = history[-1][0] if history else ''
        for kind, msg in st.problems:
            acc.fail(kind, case, f'history={history}\n {msg}', part=self.part, op=lastop)
        st.problems = []
        nontrivial = False
        for vi, vmf in enumerate(st.v):
            ents = list(vmf.entities) + [vmf.spawn]
            solids = list(vmf.brushes) + [s for e in vmf.entities for s in e.solids]
            # a brush may legitimately be listed once only
            sides = [f for s in solids for f in s.sides]
            nodeids = []
            for e in vmf.entities:
                if 'nodeid' in e:
                    try:
                        nodeids.append(int(e['nodeid']))
                    except ValueError:
                        pass
            groups = list(vmf.groups.values())
            sets = [
                ('entity', [e.id for e in ents]),
                ('brush', [s.id for s in solids]),
                ('face', [f.id for f in sides]),
                ('group', [g.id for g in groups]),
                ('visgroup', vis_ids(vmf.vis_tree)),
                ('node', nodeids),
            ]
            if len(ents) + len(solids) + len(groups) + len(vmf.vis_tree) > 2:
                nontrivial = True
            for what, ids in sets:
                prob = uniq_problem(ids, what)
                if prob:
                    acc.fail(f'{what}_id_{prob[0]}', case, f'history={history}\n vmf{vi}: {prob[1]}', part=self.part, op=lastop)
            # the inductive half of uniqueness: allocation consults only the pool, so an ID held by an object in the map that the pool
            # has forgotten is handed out again by the next request for it
            pools = {'entity': vmf.ent_id, 'brush': vmf.solid_id, 'face': vmf.face_id, 'node': vmf.node_id, 'group': vmf.group_id, 'visgroup': vmf.vis_id}
            for what, ids in sets:
                lost = sorted(i for i in set(ids) if isinstance(i, int) and i > 0 and i not in pools[what]._used)
                if lost:
                    acc.fail(f'{what}_pool_forgot_live_id', case, f'history={history}\n vmf{vi}: {what} IDs {lost} are held by objects in the map but '
                             f'marked free in the allocator (used: {sorted(pools[what]._used)[:20]}): the next request for one duplicates it', part=self.part, op=lastop)
            for gid, g in vmf.groups.items():
                if gid != g.id:
                    acc.fail('group_key_mismatch', case, f'history={history}\n vmf{vi}.groups[{gid}].id == {g.id}', part=self.part, op=lastop)
            for e in ents:
                if e._fixup is not None:
                    ids = [f.id for f in e._fixup._fixup.values()]
                    prob = uniq_problem(ids, 'fixup')
                    if prob:
                        acc.fail(f'fixup_index_{prob[0]}', case, f'history={history}\n vmf{vi} entity #{e.id}: {prob[1]}',
                                 part=self.part, op=lastop)
                        break
        for j, fx in enumerate(st.fxo):
            prob = uniq_problem([f.id for f in fx._fixup.values()], 'fixup')
            if prob:
                acc.fail(f'fixup_index_{prob[0]}', case, f'history={history}\n stand-alone fixup table #{j} (made through a copy protocol): {prob[1]}',
                         part=self.part, op=lastop)
                break
        if nontrivial:
            acc.nontrivial += 1
        acc.outcome(repr(self.canon(st)[0][:11])[:160])


# ---------------------------------------------------------------------------------------------
# counts: pools that already hold more than a thousand consecutive IDs

BIG_OPS = [['remove', 3], ['remove', 'mid'], ['remove', 'last'], ['create'], ['create_des', 4], ['create_sparse']]


def big_pool_shard(spec) -> core.Acc:
    """Every history of <= depth operations on a map that starts with `n` entities (and brushes) holding consecutive IDs, optionally
    with one more at ID n+3 (a gap of one below it).  Same invariant as the small models."""
    n, sparse, first, depth = spec
    acc = core.Acc()
    for d in range(1, depth + 1):
        for tail in itertools.product(BIG_OPS, repeat=d - 1):
            hist = [first] + [list(t) for t in tail]
            acc.evaluations += 1
            acc.nontrivial += 1
            case = {'big_pool': n, 'sparse': sparse, 'history': hist}
            vmf = VMF()
            ents = [vmf.create_ent('a') for _ in range(n)]
            for _ in range(n // 8):
                vmf.add_brush(vmf.make_prism(Vec(0, 0, 0), Vec(8, 8, 8)).solid)
            if sparse:
                e = Entity(vmf, {'classname': 'b'}, ent_id=len(vmf.ent_id._used) + 2)
                vmf.add_ent(e)
                ents.append(e)
            try:
                for op in hist:
                    if op[0] == 'remove':
                        i = {'mid': len(ents) // 2, 'last': len(ents) - 1}.get(op[1], op[1])
                        if i < len(ents):
                            victim = ents.pop(i)
                            victim.remove()
                            if vmf.brushes:
                                vmf.remove_brush(vmf.brushes[min(i, len(vmf.brushes) - 1)])
                            del victim
                            gc.collect(0)
                    elif op[0] == 'create':
                        ents.append(vmf.create_ent('a'))
                        vmf.add_brush(vmf.make_prism(Vec(0, 0, 0), Vec(8, 8, 8)).solid)
                    elif op[0] == 'create_des':
                        e = Entity(vmf, {'classname': 'a'}, ent_id=op[1])
                        vmf.add_ent(e)
                        ents.append(e)
                    elif op[0] == 'create_sparse':
                        e = Entity(vmf, {'classname': 'a'}, ent_id=max(vmf.ent_id._used) + 2)
                        vmf.add_ent(e)
                        ents.append(e)
            except Exception as exc:  # noqa: BLE001
                acc.fail('op_raised', case, f'map with {n} entities, history={hist}: {type(exc).__name__}: {exc}', part='big')
                continue
            for what, ids, pool in (('entity', [e.id for e in vmf.entities] + [vmf.spawn.id], vmf.ent_id),
                                    ('brush', [s.id for s in vmf.brushes], vmf.solid_id),
                                    ('face', [f.id for s in vmf.brushes for f in s.sides], vmf.face_id)):
                prob = uniq_problem(ids, what)
                if prob:
                    acc.fail(f'{what}_id_{prob[0]}', case, f'map that starts with {n} {what} IDs{" and one above a gap" if sparse else ""}, history={hist}: {prob[1][:300]}', part='big')
                    break
                lost = sorted(i for i in set(ids) if i not in pool._used)
                if lost:
                    acc.fail(f'{what}_pool_forgot_live_id', case, f'map that starts with {n} {what} IDs, history={hist}: IDs {lost[:10]} held in the map but free in the allocator', part='big')
                    break
            acc.outcome(('big', len(vmf.entities) - n))
            del ents, vmf
    return acc


PARTS = {'ent': (3, 4, 5), 'solid': (3, 4, 5), 'group': (3, 5, 6), 'fixup': (2, 4, 5)}   # maxh, quick depth, thorough depth


def run(ctx: core.Ctx) -> None:
    tot = {'states': 0, 'transitions': 0}
    detail = {}
    for part, (maxh, dq, dt) in PARTS.items():
        model = Model(part, maxh)
        a = core.Acc()
        res = bfs.explore(model, a, ctx.pick(dq, dt))
        ctx.acc.merge(a)
        tot['states'] += res['states']
        tot['transitions'] += res['transitions']
        detail[part] = {'depth': res['depth_completed'], 'states_per_level': res['per_level'], 'transitions': res['transitions']}
        gc.collect()
        if part == 'ent':
            # one level deeper over the core operations (creation, removal, re-adding, dropping, copying, node numbers, collapsing)
            a = core.Acc()
            res = bfs.explore(Model(part, maxh, core_only=True), a, ctx.pick(dq, dt) + 1)
            ctx.acc.merge(a)
            tot['states'] += res['states']
            tot['transitions'] += res['transitions']
            detail['ent_core_ops'] = {'depth': res['depth_completed'], 'states_per_level': res['per_level'], 'transitions': res['transitions']}
            gc.collect()
    big = [(n, sparse, first, ctx.pick(3, 4)) for n in ((1100, 2100) if ctx.quick else (1100, 2100, 5000)) for sparse in (False, True) for first in BIG_OPS]
    core.par_map(big_pool_shard, big, ctx.acc)
    detail['big_pools'] = {'start_sizes': sorted({b[0] for b in big}), 'depth': big[0][3], 'operations': len(BIG_OPS)}
    ctx.coverage_extra.update({'states': tot['states'], 'transitions': tot['transitions'],
                               'traces_validated_against_impl': tot['transitions'], 'sub_models': detail})
    ctx.acc.sample({'part': 'ent', 'history': [['create'], ['remove', 0], ['create'], ['drop', 0], ['create']]})
    ctx.rule = ('BFS over histories on real VMF objects in four sub-models (ID managers of different kinds are independent): '
                'ent = Entity(ent_id in -1/0/-5/1/2/live) / create_ent / remove / re-add / drop handle + gc.collect() / copy within and '
                'across maps with desired ids / nodeid set-change-delete-pop-clear / VMF.parse of documents with duplicate, zero, '
                'negative and missing ids / collapse_one of a template with duplicate ids; solid = make_prism / Solid+Side with '
                'desired ids / copy / remove_brush / re-add / drop + gc / face add-drop / brush entities; group = VisGroup and '
                'EntityGroup creation with desired ids, children, copies; fixup = construction with colliding / zero / negative '
                'indexes, set, delete, update, clear, copy, copy_values(), export+parse.  Invariant in every state: IDs of objects '
                'in the map pairwise distinct positive ints per kind; fixup indexes of each entity likewise.  Every transition '
                'is an execution of the real code.  Plus every history of <= 3 (thorough 4) of 6 operations (remove low / middle / last, create, create with a wanted low ID, create above a gap) on maps that start with 1100 / 2100 (thorough also 5000) consecutive IDs.  Non-trivial = the maps hold more than two ID-carrying objects.')


def replay(case: dict) -> list:
    if 'big_pool' in case:
        hist = case['history']
        sub = big_pool_shard((case['big_pool'], case['sparse'], hist[0], len(hist)))
        return [f for f in sub.all_failures() if f.case.get('history') == hist]
    part = case['part']
    model = Model(part, PARTS[part][0])      # (the full alphabet: histories of the core-operation pass are histories of it too)
    acc = core.Acc()
    hist = case['history']
    for i in range(len(hist) + 1):
        st = model.build(hist[:i])
        model.check(st, hist[:i], acc)
        model.dispose(st)
        if acc.fail_counts:
            break
    return acc.all_failures()
