"""C09 — copies of map objects are complete and independent of their source.

For every copyable object of every generated map (feature subsets of checks/vmfgen.py): copy within the map
and into a second map; the copy must export like the original apart from IDs; the sets of mutable objects
reachable from original and copy must be disjoint; then every mutable object reachable from one side is
mutated in place, one at a time, and the other side must export byte-identically to before.
Keyvalues: copy() and the operators documented as producing new values; Vec/Angle/Matrix arithmetic.
"""
from __future__ import annotations

import array
import copy
import enum
import io
import itertools
import pickle
import re

from srctools.keyvalues import Keyvalues
from srctools.math import Vec, FrozenVec, Angle, FrozenAngle, Matrix, FrozenMatrix
from srctools.vmf import (VMF, Entity, Solid, Side, Output, VisGroup, EntityGroup, Cordon, Camera, UVAxis, DispVertex, FixupValue,
                          EntityFixup, Vec4)

from mcv import core
from mcv.enum import trees
from checks import vmfgen

PROPERTY = 'C09'
LEVEL = 'exploration'

ID_RE = re.compile(r'"(id|visgroupid|groupid|nodeid)" "-?\d+"')   # nodeid is an ID too: a copy gets a fresh one
IMMUTABLE = (str, int, float, bool, type(None), bytes, enum.Enum, Vec4, FrozenVec, FrozenAngle, FrozenMatrix, type)
MUTATION_LIMIT = 260


def text_of(obj) -> str:
    buf = io.StringIO()
    if isinstance(obj, Entity):
        obj.export(buf)
    elif isinstance(obj, Solid):
        obj.export(buf)
    elif isinstance(obj, Side):
        obj.export(buf)
    elif isinstance(obj, Output):
        return obj.as_keyvalue()
    elif isinstance(obj, (VisGroup, Cordon, Camera)):
        obj.export(buf, '')
    elif isinstance(obj, EntityGroup):
        obj.export(buf, '')
    elif isinstance(obj, Keyvalues):
        return repr(kv_dump(obj))
    elif isinstance(obj, EntityFixup):
        obj.export(buf, '')
    else:
        raise AssertionError(type(obj))
    return buf.getvalue()


def norm_ids(text: str) -> str:
    return ID_RE.sub(lambda m: f'"{m.group(1)}" "#"', text)


def kv_dump(kv: Keyvalues):
    if not isinstance(kv, Keyvalues):
        return ['?', repr(kv)]      # a marker appended by mutate() to a child list
    if isinstance(kv._value, list):
        return ['B', kv._real_name, [kv_dump(c) for c in kv._value]]
    return ['L', kv._real_name, kv._value]


def reachable(obj, out=None, path='') -> dict:
    """id -> (path, object) for every mutable object reachable from obj, stopping at the owning VMF."""
    if out is None:
        out = {}
    if isinstance(obj, IMMUTABLE) or isinstance(obj, VMF):
        return out
    if isinstance(obj, tuple):
        for i, x in enumerate(obj):
            reachable(x, out, f'{path}[{i}]')
        return out
    if id(obj) in out:
        return out
    if callable(obj) and not hasattr(obj, '__slots__') and not hasattr(obj, '__dict__'):
        return out
    out[id(obj)] = (path, obj)
    if isinstance(obj, (list, set, frozenset)):
        for i, x in enumerate(list(obj)):
            reachable(x, out, f'{path}[{i}]')
    elif isinstance(obj, dict):
        for k, v in obj.items():
            reachable(v, out, f'{path}[{k!r}]')
    elif isinstance(obj, array.array):
        pass
    else:
        names = []
        for klass in type(obj).__mro__:
            names.extend(getattr(klass, '__slots__', ()) if not isinstance(getattr(klass, '__slots__', ()), str) else [klass.__slots__])
        if hasattr(obj, '__dict__'):
            names.extend(vars(obj))
        for n in names:
            if n in ('__weakref__', '__dict__'):
                continue
            try:
                v = getattr(obj, n)
            except AttributeError:
                continue
            reachable(v, out, f'{path}.{n}')
    return out


def mutate(obj) -> bool:
    """Change one mutable object in place, visibly.  Returns False if this type has no generic mutator."""
    if isinstance(obj, Vec):
        obj.x += 1.25
    elif isinstance(obj, Angle):
        obj.yaw = (obj.yaw + 33.0) % 360
    elif isinstance(obj, Matrix):
        obj @= Matrix.from_yaw(33.0)
    elif isinstance(obj, list):
        if obj and isinstance(obj[0], (Vec, Solid, Side, Output, DispVertex, VisGroup, Keyvalues)):
            obj.pop()
        else:
            obj.append('MUT')
    elif isinstance(obj, set):
        obj.add(987654)
    elif isinstance(obj, dict):
        if obj:
            k = next(iter(obj))
            v = obj[k]
            obj[k] = (v + 'MUT') if isinstance(v, str) else v
        obj['zz_mut'] = FixupValue('zz_mut', 'v', 99) if obj and isinstance(next(iter(obj.values())), FixupValue) else 'MUT'
    elif isinstance(obj, array.array):
        obj[0] = obj[0] ^ 1
    elif isinstance(obj, UVAxis):
        obj.offset += 1.5
    elif isinstance(obj, DispVertex):
        obj.alpha += 1.0
        obj.distance += 1.0
    elif isinstance(obj, FixupValue):
        obj.value += 'MUT'
    elif isinstance(obj, Output):
        obj.target += 'MUT'
    elif isinstance(obj, EntityFixup):
        obj['zz_new'] = 'MUT'
    elif isinstance(obj, Entity):
        obj['zz_key'] = 'MUT'
        obj.comments += 'MUT'
    elif isinstance(obj, Solid):
        obj.hidden = not obj.hidden
    elif isinstance(obj, Side):
        obj.mat += 'MUT'
        obj.lightmap += 1
    elif isinstance(obj, VisGroup):
        obj.name += 'MUT'
    elif isinstance(obj, EntityGroup):
        obj.shown = not obj.shown
    elif isinstance(obj, Cordon):
        obj.name += 'MUT'
    elif isinstance(obj, Keyvalues):
        if isinstance(obj._value, str):
            obj._value += 'MUT'
        obj.real_name = (obj._real_name or '') + 'MUT'
    else:
        return False
    return True


def copies_of(vmf: VMF, other: VMF):
    """(label, original, make_copy) for every copyable object of the map."""
    for i, e in enumerate(vmf.entities):
        yield f'entity[{i}]', e, lambda e=e: e.copy()
        yield f'entity[{i}]->other', e, lambda e=e: e.copy(vmf_file=other)
        if i < 2:
            # the generic protocols (these duplicate the map the object belongs to as well)
            yield f'entity[{i}]:deepcopy', e, lambda e=e: copy.deepcopy(e)
            yield f'entity[{i}]:pickle', e, lambda e=e: pickle.loads(pickle.dumps(e))
        if len(e.fixup):
            fx = e.fixup
            yield f'entity[{i}].fixup:copy.copy', fx, lambda fx=fx: copy.copy(fx)
            yield f'entity[{i}].fixup:deepcopy', fx, lambda fx=fx: copy.deepcopy(fx)
            yield f'entity[{i}].fixup:pickle', fx, lambda fx=fx: pickle.loads(pickle.dumps(fx))
        for j, o in enumerate(e.outputs):
            yield f'entity[{i}].output[{j}]', o, lambda o=o: o.copy()
            yield f'entity[{i}].output[{j}]:copy.copy', o, lambda o=o: copy.copy(o)
            yield f'entity[{i}].output[{j}]:deepcopy', o, lambda o=o: copy.deepcopy(o)
            yield f'entity[{i}].output[{j}]:pickle', o, lambda o=o: pickle.loads(pickle.dumps(o))
        for j, s in enumerate(e.solids):
            yield f'entity[{i}].solid[{j}]', s, lambda s=s: s.copy()
    for i, s in enumerate(vmf.brushes):
        yield f'brush[{i}]', s, lambda s=s: s.copy()
        yield f'brush[{i}]->other', s, lambda s=s: s.copy(vmf_file=other)
        if i < 1:
            yield f'brush[{i}]:deepcopy', s, lambda s=s: copy.deepcopy(s)
            yield f'brush[{i}]:pickle', s, lambda s=s: pickle.loads(pickle.dumps(s))
        for j, f in enumerate(s.sides):
            if j < 2 or f.is_disp or f.strata_points is not None:
                yield f'brush[{i}].side[{j}]', f, lambda f=f: f.copy()
                yield f'brush[{i}].side[{j}]->other', f, lambda f=f: f.copy(vmf_file=other)
    for i, g in enumerate(vmf.vis_tree):
        yield f'visgroup[{i}]', g, lambda g=g: g.copy()
        yield f'visgroup[{i}]->other', g, lambda g=g: g.copy(other)
    for k, g in list(vmf.groups.items()):
        yield f'group[{k}]', g, lambda g=g: g.copy()
        yield f'group[{k}]->other', g, lambda g=g: g.copy(other)
    for i, c in enumerate(list(vmf.cordons)):
        yield f'cordon[{i}]', c, lambda c=c: c.copy()
    for i, c in enumerate(list(vmf.cameras)):
        yield f'camera[{i}]', c, lambda c=c: c.copy()


def kind_of(label: str) -> str:
    return re.sub(r'\[[^\]]*\]', '', label)


def check_copy(acc: core.Acc, case: dict, label: str, orig, make_copy) -> None:
    acc.evaluations += 1
    kind = kind_of(label)
    try:
        before = text_of(orig)
        cp = make_copy()
    except Exception as exc:  # noqa: BLE001
        acc.fail('copy_raises', dict(case, obj=label), f'{case} {label}: copy raised {type(exc).__name__}: {exc}', obj=kind)
        return
    after = text_of(orig)
    if after != before:
        acc.fail('copy_mutates_source', dict(case, obj=label), f'{case} {label}: copying changed the source export', obj=kind)
        return
    ct = text_of(cp)
    if norm_ids(ct) != norm_ids(before):
        a, b = norm_ids(before).split('\n'), norm_ids(ct).split('\n')
        i = next((i for i, (x, y) in enumerate(zip(a, b)) if x != y), min(len(a), len(b)))
        key = (a[i] if i < len(a) else (b[i] if i < len(b) else '')).strip().split('" "')[0].strip('"\t ')
        acc.fail('copy_incomplete', dict(case, obj=label),
                 f'{case} {label}: copy exports differently at line {i}:\n  original: {a[i-1:i+2]}\n  copy    : {b[i-1:i+2]}',
                 obj=kind, line_key=key[:24])
    if cp is orig:
        acc.fail('copy_is_source', dict(case, obj=label), f'{case} {label}: copy() returned the object itself', obj=kind)
        return
    r_orig = reachable(orig)
    r_copy = reachable(cp)
    # which map do the parts of the copy belong to?  A copy made into another map lives there entirely (its IDs are that
    # map's); a copy made within a map never re-uses an ID of its source (IDs are "freshly assigned").
    src_map = getattr(orig, 'map', None) or getattr(orig, 'vmf', None)
    if src_map is not None and not label.endswith((':deepcopy', ':pickle', ':copy.copy')):
        cross = label.endswith('->other')
        for _, (path, o) in r_copy.items():
            owner = getattr(o, 'map', None) if hasattr(o, 'map') else getattr(o, 'vmf', None)
            if isinstance(owner, VMF) and ((owner is src_map) == cross):
                acc.fail('copy_bound_to_wrong_map', dict(case, obj=label),
                         f'{case} {label}: copy{path} ({type(o).__name__}) belongs to the {"source" if cross else "other"} map', obj=kind)
                break
        pres = bool(case.get('preserve_ids'))
        if not cross:
            def ids_of(reach):
                out = set()
                for _, (_p, o) in reach.items():
                    # (in a map parsed with preserve_ids=True a REQUESTED ID is handed back unchanged - exempt by definition,
                    # property C08 - so there only the IDs the library chooses itself are looked at: copy() of an entity,
                    # brush or face asks for "any free ID", and the one it gets is then no ID of its source)
                    if isinstance(o, (Entity, Solid, Side) if pres else (Entity, Solid, Side, VisGroup, EntityGroup)):
                        out.add((type(o).__name__, o.id))
                    if not pres and isinstance(o, Entity) and o['nodeid', '']:
                        out.add(('node', o['nodeid']))
                return out
            reused = ids_of(r_orig) & ids_of(r_copy)
            if reused:
                acc.fail('copy_reuses_ids', dict(case, obj=label), f'{case} {label}: the copy carries IDs of its source within one map: {sorted(reused)[:6]}',
                         obj=kind, what=sorted(reused)[0][0])
    shared = [(r_orig[i][0], type(r_orig[i][1]).__name__) for i in r_orig if i in r_copy]
    if shared:
        acc.fail('copy_shares_object', dict(case, obj=label),
                 f'{case} {label}: original and copy share mutable objects: {shared[:4]}', obj=kind,
                 shared=re.sub(r'\[[^\]]*\]', '[]', shared[0][0])[:40], shared_type=shared[0][1])
    acc.outcome((kind, len(r_copy) // 10))
    if len(r_copy) > MUTATION_LIMIT:
        acc.count('mutation_phase_skipped_large_object')
        return
    # mutate every mutable object of the copy; the original must not notice
    for _, (path, o) in sorted(r_copy.items(), key=lambda kv: kv[1][0]):
        if not mutate(o):
            acc.count('no_mutator_for_' + type(o).__name__)
            continue
        acc.evaluations += 1
        try:
            now = text_of(orig)
        except Exception as exc:  # noqa: BLE001
            now = f'<export raised {type(exc).__name__}>'
        if now != before:
            acc.fail('mutating_copy_changes_source', dict(case, obj=label),
                     f'{case} {label}: mutating copy{path} ({type(o).__name__}) changed the original export', obj=kind,
                     via=re.sub(r'\[[^\]]*\]', '[]', path)[:40], via_type=type(o).__name__)
            break
    # and the other way round on a fresh copy
    try:
        cp2 = make_copy()
        ct2 = text_of(cp2)
    except Exception:  # noqa: BLE001
        return
    for _, (path, o) in sorted(reachable(orig).items(), key=lambda kv: kv[1][0]):
        if not mutate(o):
            continue
        acc.evaluations += 1
        try:
            now = text_of(cp2)
        except Exception as exc:  # noqa: BLE001
            now = f'<export raised {type(exc).__name__}>'
        if now != ct2:
            acc.fail('mutating_source_changes_copy', dict(case, obj=label),
                     f'{case} {label}: mutating original{path} ({type(o).__name__}) changed the copy export', obj=kind,
                     via=re.sub(r'\[[^\]]*\]', '[]', path)[:40], via_type=type(o).__name__)
            break


def check_keep_vis(acc: core.Acc, case: dict, names) -> None:
    """copy(keep_vis=False) == copy() with exactly the documented visibility fields reset (differential oracle)."""
    vmf = vmfgen.build(names)
    objs = [(f'entity[{i}]', e) for i, e in enumerate(vmf.entities)] + [(f'brush[{i}]', s) for i, s in enumerate(vmf.brushes)] \
        + [(f'entity[{i}].solid[{j}]', s) for i, e in enumerate(vmf.entities) for j, s in enumerate(e.solids)]
    for label, obj in objs:
        acc.evaluations += 1
        try:
            ref = obj.copy()
            ref.hidden = False
            ref.vis_shown = True
            ref.vis_auto_shown = True
            ref.visgroup_ids.clear()
            got = obj.copy(keep_vis=False)
        except Exception as exc:  # noqa: BLE001
            acc.fail('copy_raises', dict(case, obj=label, keep_vis=False), f'{case} {label}: copy(keep_vis=False) raised {type(exc).__name__}: {exc}', obj=kind_of(label))
            continue
        a, b = norm_ids(text_of(ref)).split('\n'), norm_ids(text_of(got)).split('\n')
        if a != b:
            i = next((i for i, (x, y) in enumerate(zip(a, b)) if x != y), min(len(a), len(b)))
            acc.fail('copy_incomplete', dict(case, obj=label, keep_vis=False),
                     f'{case} {label}: copy(keep_vis=False) differs from copy() with the visibility fields reset at line {i}:\n'
                     f'  expected: {a[i-1:i+2]}\n  got     : {b[i-1:i+2]}', obj=kind_of(label), line_key='keep_vis')


def check_map(acc: core.Acc, names) -> None:
    case = {'features': list(names)}
    check_keep_vis(acc, case, names)
    # the same copies on a map that was parsed with preserve_ids=True (its ID managers hand back requested IDs unchanged)
    if len(names) <= 1:
        text = vmfgen.build(names).export(inc_version=False)
        pcase = dict(case, preserve_ids=True)
        probe = VMF.parse(Keyvalues.parse(text), preserve_ids=True)
        labels = [lab for lab, _, _ in copies_of(probe, VMF()) if ':' not in lab and '->' not in lab]
        for lab in labels:
            vmf = VMF.parse(Keyvalues.parse(text), preserve_ids=True)
            for l2, orig, mk in copies_of(vmf, VMF()):
                if l2 == lab:
                    check_copy(acc, pcase, lab, orig, mk)
                    break
    # enumerate labels on one build; every copy is then taken from a fresh build so that mutations never leak
    probe = vmfgen.build(names)
    labels = [lab for lab, _, _ in copies_of(probe, VMF())]
    for lab in labels:
        vmf = vmfgen.build(names)
        other = VMF()
        for l2, orig, mk in copies_of(vmf, other):
            if l2 == lab:
                check_copy(acc, case, lab, orig, mk)
                break


# ------------------------------------------------------------------------------------------------
# Keyvalues

def kv_shapes(n: int):
    def label(forest):
        if not forest:
            yield []
            return
        first, rest = forest[0], forest[1:]
        for name in ('a', 'B'):
            heads = ([('L', name, 'x')] + [('B', name, [])]) if first == () else [('B', name, kids) for kids in label(first)]
            for h in heads:
                for tail in label(rest):
                    yield [h] + tail
    for forest in trees(n):
        yield from label(forest)


def kv_build(spec):
    return Keyvalues(spec[1], spec[2]) if spec[0] == 'L' else Keyvalues(spec[1], [kv_build(c) for c in spec[2]])


def check_kv(acc: core.Acc, specs_a: list, specs_b: list) -> None:
    case = {'kv_a': specs_a, 'kv_b': specs_b}

    def mk_root(specs):
        return Keyvalues.root(*[kv_build(s) for s in specs])

    def mk_block(specs):
        return Keyvalues('Blk', [kv_build(s) for s in specs])
    # copy(): complete and independent
    for mk, nm in ((mk_root, 'root'), (mk_block, 'block')):
        acc.evaluations += 1
        a = mk(specs_a)
        before = kv_dump(a)
        c = a.copy()
        if kv_dump(c) != before or c is a:
            acc.fail('kv_copy_incomplete', dict(case, op='copy'), f'Keyvalues.copy() of {before} gave {kv_dump(c)}', op='copy')
        shared = [p for i, (p, o) in reachable(a).items() if i in reachable(c)]
        if shared:
            acc.fail('kv_copy_shares', dict(case, op='copy'), f'copy() of {before} shares {shared[:3]}', op='copy')
        for _, (path, o) in sorted(reachable(c).items(), key=lambda kv: kv[1][0]):
            mutate(o)
            if kv_dump(a) != before:
                acc.fail('kv_mutating_copy_changes_source', dict(case, op='copy'), f'mutating copy{path} changed the source {before}', op='copy')
                break
    # operators producing a new value
    operands = {
        'root': lambda: mk_root(specs_b),
        'block': lambda: Keyvalues('Other', [kv_build(s) for s in specs_b]),
        'leaf': lambda: Keyvalues('leafname', 'leafvalue'),
        'list': lambda: [kv_build(s) for s in specs_b],
        'iter': lambda: iter([kv_build(s) for s in specs_b]),
    }
    for lname, mk in (('root', mk_root), ('block', mk_block)):
        for oname, mko in operands.items():
            acc.evaluations += 1
            acc.nontrivial += 1
            a = mk(specs_a)
            b = mko()
            b_keep = mko() if oname == 'iter' else b
            da = kv_dump(a)
            db = kv_dump(b) if isinstance(b, Keyvalues) else ([kv_dump(x) for x in b] if isinstance(b, list) else None)
            if oname in ('block', 'leaf'):
                want_children = da[2] + [kv_dump(b)]          # documented (deprecated) behaviour: a named keyvalue is appended
            elif oname == 'root':
                want_children = da[2] + kv_dump(b)[2]
            elif oname == 'list':
                want_children = da[2] + [kv_dump(x) for x in b]
            else:
                want_children = da[2] + [kv_dump(x) for x in b_keep]
            try:
                res = a + b
            except Exception as exc:  # noqa: BLE001
                acc.fail('kv_add_raises', dict(case, left=lname, right=oname), f'{lname} + {oname} raised {type(exc).__name__}: {exc}', op='+')
                continue
            sig = dict(op='+', left=lname, right=oname)
            if kv_dump(a) != da:
                acc.fail('kv_add_mutates_left', dict(case, left=lname, right=oname), f'a + b changed a: {da} -> {kv_dump(a)}', **sig)
            if isinstance(b, Keyvalues) and kv_dump(b) != db:
                acc.fail('kv_add_mutates_right', dict(case, left=lname, right=oname), f'a + b changed b: {db} -> {kv_dump(b)}', **sig)
            if isinstance(b, list) and [kv_dump(x) for x in b] != db:
                acc.fail('kv_add_mutates_right', dict(case, left=lname, right=oname), 'a + b changed the list operand', **sig)
            got = kv_dump(res)
            if got[2] != want_children or got[1] != da[1]:
                acc.fail('kv_add_wrong_result', dict(case, left=lname, right=oname),
                         f'{lname}{da} + {oname}: result {got}, expected children {want_children}', **sig)
            if res is a:
                acc.fail('kv_add_returns_operand', dict(case, left=lname, right=oname), 'a + b returned a itself', **sig)
            else:
                shared = [p for i, (p, o) in reachable(res).items() if i in reachable(a) or (isinstance(b, (Keyvalues, list)) and i in reachable(b))]
                if shared:
                    acc.fail('kv_add_shares', dict(case, left=lname, right=oname), f'a + b shares objects with an operand: {shared[:3]}', **sig)
            # += and extend(): result contains the extension, right operand untouched, no sharing with it
            for opname in ('+=', 'extend'):
                if opname == 'extend' and oname in ('block', 'leaf'):
                    continue   # extend() takes the children of a keyvalue / an iterable; a named keyvalue's children
                a2 = mk(specs_a)
                b2 = mko()
                if oname == 'iter':
                    src_items = [kv_build(s) for s in specs_b]     # keep the nodes the iterator hands out
                    b2 = iter(src_items)
                elif oname == 'list':
                    src_items = b2
                else:
                    src_items = None
                db2 = kv_dump(b2) if isinstance(b2, Keyvalues) else None
                acc.evaluations += 1
                try:
                    if opname == '+=':
                        alias = a2
                        a2 += b2
                        if a2 is not alias:
                            acc.count('kv_iadd_rebinds')
                    else:
                        a2.extend(b2)
                except Exception as exc:  # noqa: BLE001
                    acc.fail('kv_extend_raises', dict(case, left=lname, right=oname, op=opname), f'{lname} {opname} {oname} raised {type(exc).__name__}: {exc}', op=opname)
                    continue
                if kv_dump(a2)[2] != want_children:
                    acc.fail('kv_extend_wrong_result', dict(case, left=lname, right=oname, op=opname),
                             f'{lname}{da} {opname} {oname}: {kv_dump(a2)}, expected children {want_children}', op=opname, left=lname, right=oname)
                if isinstance(b2, Keyvalues):
                    if kv_dump(b2) != db2:
                        acc.fail('kv_extend_mutates_right', dict(case, op=opname), f'{opname} changed its right operand', op=opname)
                    shared = [p for i, (p, o) in reachable(a2).items() if i in reachable(b2)]
                    if shared:
                        acc.fail('kv_extend_shares', dict(case, left=lname, right=oname, op=opname), f'{opname} aliases the right operand: {shared[:3]}', op=opname)
                elif src_items is not None:
                    # nodes handed over in a list / by an iterator stay owned by their source: documented as copied
                    before_items = [kv_dump(x) for x in src_items]
                    shared = [p for i, (p, o) in reachable(a2).items() if i in reachable(src_items)]
                    if shared:
                        acc.fail('kv_extend_shares', dict(case, left=lname, right=oname, op=opname),
                                 f'{opname} with a {oname} operand aliases the nodes it was given: {shared[:3]}', op=opname, right=oname)
                    for _, (path, o) in sorted(reachable(a2).items(), key=lambda kv: kv[1][0]):
                        mutate(o)
                    if [kv_dump(x) for x in src_items] != before_items:
                        acc.fail('kv_extend_shares', dict(case, left=lname, right=oname, op=opname),
                                 f'editing the tree extended by {opname} changed the source nodes of the {oname} operand', op=opname, right=oname)


def check_math(acc: core.Acc) -> None:
    """Arithmetic documented as producing new values leaves its operands unchanged."""
    import operator
    vals = {'Vec': lambda: Vec(1.5, -2.0, 3.25), 'FrozenVec': lambda: FrozenVec(1.5, -2.0, 3.25), 'tuple': lambda: (4.0, 5.0, -6.0),
            'float': lambda: 2.5, 'int': lambda: 3}
    ops = {'+': operator.add, '-': operator.sub, '*': operator.mul, '/': operator.truediv, '//': operator.floordiv, '%': operator.mod,
           'divmod': divmod}

    def snap(x):
        return tuple(x) if isinstance(x, (Vec, FrozenVec, tuple)) else x
    for (ln, lm), (rn, rm), (on, op) in itertools.product(vals.items(), vals.items(), ops.items()):
        if ln not in ('Vec', 'FrozenVec') and rn not in ('Vec', 'FrozenVec'):
            continue
        acc.evaluations += 1
        a, b = lm(), rm()
        sa, sb = snap(a), snap(b)
        try:
            res = op(a, b)
        except (TypeError, ZeroDivisionError):
            continue
        if snap(a) != sa or snap(b) != sb:
            acc.fail('math_operand_mutated', {'math': [ln, on, rn]}, f'{ln} {on} {rn} changed an operand', form=f'{ln}{on}{rn}')
        parts = res if isinstance(res, tuple) and on == 'divmod' else (res,)
        for r in parts:
            if r is a or r is b:
                acc.fail('math_returns_operand', {'math': [ln, on, rn]}, f'{ln} {on} {rn} returned an operand', form=f'{ln}{on}{rn}')
    for name, mk in (('Vec', vals['Vec']), ('FrozenVec', vals['FrozenVec'])):
        for un, fn in (('neg', operator.neg), ('pos', operator.pos), ('abs', abs), ('norm', lambda v: v.norm()), ('round', round),
                       ('cross', lambda v: v.cross(Vec(0, 0, 1))), ('copy', lambda v: v.copy())):
            acc.evaluations += 1
            a = mk()
            sa = snap(a)
            r = fn(a)
            if snap(a) != sa:
                acc.fail('math_operand_mutated', {'math': [name, un]}, f'{un}({name}) changed its operand', form=f'{un}{name}')
            if r is a and name == 'Vec':
                acc.fail('math_returns_operand', {'math': [name, un]}, f'{un}({name}) returned its operand', form=f'{un}{name}')
    for name, mk in (('Angle', lambda: Angle(10, 20, 30)), ('FrozenAngle', lambda: FrozenAngle(10, 20, 30))):
        for on, fn in (('*2', lambda x: x * 2), ('2*', lambda x: 2 * x), ('@A', lambda x: x @ Angle(0, 90, 0)), ('@M', lambda x: x @ Matrix.from_roll(45))):
            acc.evaluations += 1
            a = mk()
            sa = tuple(a)
            r = fn(a)
            if tuple(a) != sa or r is a:
                acc.fail('math_operand_mutated', {'math': [name, on]}, f'{name}{on} changed or returned its operand', form=f'{name}{on}')


    from srctools.math import FrozenMatrix
    rots = {'Matrix': lambda: Matrix.from_angle(10.0, 20.0, 30.0), 'FrozenMatrix': lambda: FrozenMatrix.from_angle(10.0, 20.0, 30.0),
            'Angle': lambda: Angle(40.0, 50.0, 60.0), 'FrozenAngle': lambda: FrozenAngle(40.0, 50.0, 60.0)}
    vecs = {'Vec': lambda: Vec(1.5, -2.0, 3.25), 'FrozenVec': lambda: FrozenVec(1.5, -2.0, 3.25), 'tuple': lambda: (4.0, 5.0, -6.0)}

    def rsnap(x):
        if isinstance(x, (Matrix, FrozenMatrix)):
            return tuple(x[i, j] for i in range(3) for j in range(3))
        return tuple(x)
    for (ln, lm), (rn, rm) in itertools.product({**rots, **vecs}.items(), rots.items()):
        acc.evaluations += 1
        a, b = lm(), rm()
        sa, sb = rsnap(a), rsnap(b)
        try:
            res = a @ b
        except TypeError:
            continue
        if rsnap(a) != sa or rsnap(b) != sb:
            acc.fail('math_operand_mutated', {'math': [ln, '@', rn]}, f'{ln} @ {rn} changed an operand: {sa} -> {rsnap(a)} / {sb} -> {rsnap(b)}', form=f'{ln}@{rn}')
        if (res is a and not type(a).__name__.startswith('Frozen')) or res is b:
            acc.fail('math_returns_operand', {'math': [ln, '@', rn]}, f'{ln} @ {rn} returned an operand', form=f'{ln}@{rn}')
        if type(res).__name__.startswith('Frozen') != type(a).__name__.startswith('Frozen') and ln != 'tuple':
            acc.fail('math_result_kind', {'math': [ln, '@', rn]}, f'{ln} @ {rn} produced a {type(res).__name__}', form=f'{ln}@{rn}')
    for name, mk in (('Matrix', rots['Matrix']), ('FrozenMatrix', rots['FrozenMatrix'])):
        for un, fn in (('transpose', lambda m: m.transpose()), ('inverse', lambda m: m.inverse()), ('copy', lambda m: m.copy()),
                       ('to_angle', lambda m: m.to_angle()), ('forward', lambda m: m.forward())):
            acc.evaluations += 1
            a = mk()
            sa = rsnap(a)
            r = fn(a)
            if rsnap(a) != sa:
                acc.fail('math_operand_mutated', {'math': [name, un]}, f'{name}.{un}() changed its operand', form=f'{un}{name}')
            if r is a and name == 'Matrix':
                acc.fail('math_returns_operand', {'math': [name, un]}, f'{name}.{un}() returned its operand', form=f'{un}{name}')


# ------------------------------------------------------------------------------------------------

def shard(spec) -> core.Acc:
    acc = core.Acc()
    if spec[0] == 'maps':
        for names in spec[1]:
            acc.nontrivial += 1
            check_map(acc, names)
        acc.sample({'features': list(spec[1][-1])}, 1)
    elif spec[0] == 'kv':
        for a in spec[1]:
            for b in spec[2]:
                check_kv(acc, a, b)
        acc.sample({'kv_a': spec[1][-1], 'kv_b': spec[2][-1]}, 1)
    else:
        check_math(acc)
    return acc


def run(ctx: core.Ctx) -> None:
    names = [n for n, _ in vmfgen.FEATURES if n not in ('disp4',)]
    k = 2
    subsets = [c for r in range(1, k + 1) for c in itertools.combinations(names, r)]
    if ctx.quick:
        # pairs only where both features can touch the same object (entity, brush, displacement, map settings)
        heavy = {'disp3'}
        subsets = [c for c in subsets if len(c) == 1 or not (set(c) & heavy)]
    shards = [('maps', chunk) for chunk in core.chunked(subsets, 6)]
    shapes = [s for n in range(0, ctx.pick(3, 4)) for s in kv_shapes(n)]
    small = [s for n in range(0, 3) for s in kv_shapes(n)]
    shards += [('kv', chunk, small) for chunk in core.chunked(shapes, 8)]
    shards.append(('math',))
    s = ctx.seed % len(shards)
    core.par_map(shard, shards[s:] + shards[:s], ctx.acc)
    ctx.coverage_extra.update({'maps': len(subsets), 'kv_left_shapes': len(shapes), 'kv_right_shapes': len(small)})
    ctx.rule = (f'{len(subsets)} maps (every subset of 1..{k} generator features) x every copyable object in them (entities, their outputs '
                f'and brushes, world brushes, faces incl. displacements / point data, visgroups, groups, cordons, cameras) x copy within the '
                f'map and into a second map: export of copy == export of original modulo IDs; reachable mutable object sets disjoint; '
                f'each reachable mutable object (up to {MUTATION_LIMIT} per object) mutated in place on either side with the other side '
                f'exported again.  Keyvalues: {len(shapes)} x {len(small)} tree pairs x root/block left operand x root/block/leaf/list/iterator '
                f'right operand for copy(), +, += and extend().  Vec/Angle/Matrix operator table.  Non-trivial = every map / operand pair.')


def replay(case: dict) -> list:
    acc = core.Acc()
    if 'features' in case:
        check_map(acc, case['features'])
    elif 'kv_a' in case:
        def tup(s):
            return (s[0], s[1], [tup(c) for c in s[2]]) if s[0] == 'B' else (s[0], s[1], s[2])
        check_kv(acc, [tup(s) for s in case['kv_a']], [tup(s) for s in case['kv_b']])
    else:
        check_math(acc)
    return acc.all_failures()
