"""C04 — Angles, matrices and vectors obey the rotation algebra.

Exhaustive evaluation over finite lattices of Euler angles (15-degree lattice, pole neighbourhoods around the
0.001 gimbal threshold, an irrational lattice) x vectors x the complete operand-type / operator matrix,
against a reference rotation model written independently in the harness (SDK AngleVectors closed form,
cross-checked against the product of elementary roll / pitch / yaw matrices).
"""
from __future__ import annotations

import itertools
import math

from srctools.math import Vec, FrozenVec, Angle, FrozenAngle, Matrix, FrozenMatrix

from mcv import core

PROPERTY = 'C04'
LEVEL = 'exploration'

VECS = [(1.0, 0.0, 0.0), (0.0, 1.0, 0.0), (0.0, 0.0, 1.0), (-1.0, 0.0, 0.0), (0.0, -1.0, 0.0), (0.0, 0.0, -1.0),
        (1.0, 2.0, 3.0), (-4.5, 0.0, 7.25), (1e6, -1e6, 1e6), (1e-3, 0.0, 0.0), (0.0, 0.0, 0.0)]
POLE_E = [0.0, 1e-12, 1e-9, 1e-6, 1e-4, 1e-3, 0.05, 0.0572, 0.0574, 0.06, 1.0]
PHI = (1 + 5 ** 0.5) / 2


# ---------------------------------------------------------------- reference model (plain tuples of rows)

def ref_matrix(p: float, y: float, r: float):
    rp, ry, rr = math.radians(p), math.radians(y), math.radians(r)
    sp, cp = math.sin(rp), math.cos(rp)
    sy, cy = math.sin(ry), math.cos(ry)
    sr, cr = math.sin(rr), math.cos(rr)
    fwd = (cp * cy, cp * sy, -sp)
    left = (sr * sp * cy - cr * sy, sr * sp * sy + cr * cy, sr * cp)
    up = (cr * sp * cy + sr * sy, cr * sp * sy - sr * cy, cr * cp)
    return (fwd, left, up)


def mat_prod(a, b):
    return tuple(tuple(sum(a[i][k] * b[k][j] for k in range(3)) for j in range(3)) for i in range(3))


def ref_elementary(p: float, y: float, r: float):
    """roll about X, then pitch about Y, then yaw about Z (row-vector convention: v @ M)."""
    rp, ry, rr = math.radians(p), math.radians(y), math.radians(r)
    mr = ((1, 0, 0), (0, math.cos(rr), math.sin(rr)), (0, -math.sin(rr), math.cos(rr)))
    mp = ((math.cos(rp), 0, -math.sin(rp)), (0, 1, 0), (math.sin(rp), 0, math.cos(rp)))
    my = ((math.cos(ry), math.sin(ry), 0), (-math.sin(ry), math.cos(ry), 0), (0, 0, 1))
    return mat_prod(mat_prod(mr, mp), my)


def vec_mat(v, m):
    return tuple(v[0] * m[0][j] + v[1] * m[1][j] + v[2] * m[2][j] for j in range(3))


def rows(m) -> tuple:
    return tuple(tuple(m[i, j] for j in range(3)) for i in range(3))


def mdiff(a, b) -> float:
    return max(abs(a[i][j] - b[i][j]) for i in range(3) for j in range(3))


def vdiff(a, b) -> float:
    return max(abs(x - y) for x, y in zip(a, b))


ANG_TYPES = {'Angle': lambda p, y, r: Angle(p, y, r), 'FrozenAngle': lambda p, y, r: FrozenAngle(p, y, r)}
MAT_TYPES = {'Matrix': lambda p, y, r: Matrix.from_angle(p, y, r), 'FrozenMatrix': lambda p, y, r: FrozenMatrix.from_angle(p, y, r)}
ROT_TYPES = {**ANG_TYPES, **MAT_TYPES}
VEC_TYPES = {'Vec': lambda v: Vec(*v), 'FrozenVec': lambda v: FrozenVec(*v), 'tuple': lambda v: tuple(v)}


def as_rows(obj):
    """Rotation object -> reference rows, via from_angle for angles."""
    if isinstance(obj, (Angle, FrozenAngle)):
        return ref_matrix(obj.pitch, obj.yaw, obj.roll)
    return rows(obj)


def snapshot(obj):
    if isinstance(obj, (Vec, FrozenVec)):
        return ('v', obj.x, obj.y, obj.z)
    if isinstance(obj, (Angle, FrozenAngle)):
        return ('a', obj.pitch, obj.yaw, obj.roll)
    if isinstance(obj, tuple):
        return obj
    return ('m',) + rows(obj)


def check_angle(acc: core.Acc, p: float, y: float, r: float, vec_forms: bool) -> None:
    case = {'angle': [p, y, r]}
    acc.evaluations += 1
    ref = ref_matrix(p, y, r)
    ref2 = ref_elementary(p, y, r)
    if mdiff(ref, ref2) > 1e-14:
        raise AssertionError(f'reference model inconsistent at {p, y, r}')
    # --- construction agrees with the Source convention, for every constructor form
    mats = {
        'Matrix.from_angle(Angle)': Matrix.from_angle(Angle(p, y, r)),
        'Matrix.from_angle(p,y,r)': Matrix.from_angle(p, y, r),
        'FrozenMatrix.from_angle(FrozenAngle)': FrozenMatrix.from_angle(FrozenAngle(p, y, r)),
        'Matrix.from_angle(FrozenAngle)': Matrix.from_angle(FrozenAngle(p, y, r)),
    }
    for name, m in mats.items():
        d = mdiff(rows(m), ref)
        if d > 1e-12:
            acc.fail('from_angle_convention', case, f'{name} at {p, y, r} differs from the Source convention by {d:g}:\n {rows(m)}\n {ref}', form=name)
            return
    m = mats['Matrix.from_angle(Angle)']
    R = rows(m)
    # --- proper rotation
    mmt = mat_prod(R, tuple(zip(*R)))
    ident = ((1, 0, 0), (0, 1, 0), (0, 0, 1))
    if mdiff(mmt, ident) > 1e-12:
        acc.fail('not_orthonormal', case, f'from_angle{p, y, r}: M.M^T differs from I by {mdiff(mmt, ident):g}')
    det = (R[0][0] * (R[1][1] * R[2][2] - R[1][2] * R[2][1]) - R[0][1] * (R[1][0] * R[2][2] - R[1][2] * R[2][0])
           + R[0][2] * (R[1][0] * R[2][1] - R[1][1] * R[2][0]))
    if abs(det - 1.0) > 1e-12:
        acc.fail('bad_determinant', case, f'from_angle{p, y, r}: det = {det!r}')
    # --- matrix -> angle -> matrix
    for cls in (Matrix, FrozenMatrix):
        mm = cls.from_angle(p, y, r)
        ang = mm.to_angle()
        back = rows(Matrix.from_angle(ang))
        h = math.hypot(R[0][0], R[0][1])
        tol = 1e-9 if h > 0.001 else 2 * h + 1e-9
        d = mdiff(back, R)
        acc.outcome(('gimbal' if h <= 0.001 else 'regular', type(ang).__name__))
        if d > tol:
            acc.fail('to_angle_roundtrip', case, f'{cls.__name__}.from_angle{p, y, r}.to_angle() = {ang!r}; rebuilding differs by {d:g} '
                     f'(horizontal length {h:g}, tolerance {tol:g})', gimbal=h <= 0.001)
        # the same matrix asked again, after the caller has edited the first answer in place (what `ang @= rot` does): the
        # second answer must describe the unchanged matrix just as well - nothing handed out may be handed out again
        if isinstance(ang, Angle):
            try:
                ang.pitch, ang.yaw, ang.roll = (ang.pitch + 33.0) % 360, (ang.yaw + 71.0) % 360, (ang.roll + 5.0) % 360
                ang2 = mm.to_angle()
                d2 = mdiff(rows(Matrix.from_angle(ang2)), R)
                if d2 > tol:
                    acc.fail('to_angle_second_call', case, f'{cls.__name__}.from_angle{p, y, r}: to_angle() called again after the first result was '
                             f'edited in place returned {ang2!r}, which rebuilds a matrix differing by {d2:g}', cls=cls.__name__)
            except Exception as exc:  # noqa: BLE001
                acc.fail('to_angle_second_call', case, f'{cls.__name__}.from_angle{p, y, r}: second to_angle() raised {type(exc).__name__}: {exc}', cls=cls.__name__)
            ang = mm.to_angle()
        if not isinstance(ang, Angle):
            acc.fail('result_type', case, f'{cls.__name__}.to_angle() returned {type(ang).__name__}')
        for comp in ang:
            if not (0.0 <= comp < 360.0):
                acc.fail('to_angle_range', case, f'{cls.__name__}.from_angle{p, y, r}.to_angle() = {ang!r} outside [0,360)')
        try:
            inv = rows(mm.inverse())
        except Exception as exc:  # noqa: BLE001
            acc.fail('inverse_raises', case, f'{cls.__name__}.from_angle{p, y, r}.inverse() raised {type(exc).__name__}: {exc} on a proper rotation')
            continue
        tr = rows(mm.transpose())
        if mdiff(inv, tr) > 1e-9:
            acc.fail('inverse_not_transpose', case, f'{cls.__name__}.from_angle{p, y, r}: inverse() and transpose() differ by {mdiff(inv, tr):g}')
        if type(mm.inverse()) is not cls or type(mm.transpose()) is not cls:
            acc.fail('result_type', case, f'{cls.__name__}.inverse()/transpose() changed type')
    if not vec_forms:
        return
    acc.nontrivial += 1
    # --- every vector x every operand-type form
    for v in VECS:
        want = vec_mat(v, ref)
        tol = 1e-9 * (1 + max(abs(c) for c in v))
        for vname, mkv in VEC_TYPES.items():
            for rname, mkr in ROT_TYPES.items():
                acc.evaluations += 1
                left = mkv(v)
                right = mkr(p, y, r)
                ls, rs = snapshot(left), snapshot(right)
                try:
                    res = left @ right
                except Exception as exc:  # noqa: BLE001
                    acc.fail('operator_raises', dict(case, vec=list(v)), f'{vname} @ {rname} raised {type(exc).__name__}: {exc}', form=f'{vname}@{rname}')
                    continue
                want_type = FrozenVec if vname == 'FrozenVec' else Vec
                if type(res) is not want_type:
                    acc.fail('result_type', dict(case, vec=list(v)), f'{vname} @ {rname} returned {type(res).__name__}', form=f'{vname}@{rname}')
                    continue
                if vdiff(tuple(res), want) > tol:
                    acc.fail('vec_rotation_wrong', dict(case, vec=list(v)), f'{v} ({vname}) @ {rname}{p, y, r} = {tuple(res)}, reference {want}', form=f'{vname}@{rname}')
                if snapshot(left) != ls or snapshot(right) != rs or res is left:
                    acc.fail('operand_mutated', dict(case, vec=list(v)), f'{vname} @ {rname} changed an operand', form=f'{vname}@{rname}')
                if vname == 'Vec':
                    # in-place form mutates the left operand and only it
                    acc.evaluations += 1
                    left2 = mkv(v)
                    alias = left2
                    left2 @= right
                    if left2 is not alias:
                        acc.count('inplace_form_rebinds_instead_of_mutating')   # value law still checked on the new binding
                    if vdiff(tuple(left2), want) > tol:
                        acc.fail('vec_rotation_wrong', dict(case, vec=list(v)), f'{v} @= {rname}{p, y, r} gave {tuple(left2)}, reference {want}', form=f'Vec@={rname}')
                    if snapshot(right) != rs:
                        acc.fail('operand_mutated', dict(case, vec=list(v)), f'Vec @= {rname} changed the right operand', form=f'Vec@={rname}')
                elif vname == 'FrozenVec':
                    acc.evaluations += 1
                    left2 = mkv(v)
                    alias = left2
                    left2 @= right
                    if snapshot(alias) != ls or type(left2) is not FrozenVec or vdiff(tuple(left2), want) > tol:
                        acc.fail('frozen_inplace', dict(case, vec=list(v)), f'FrozenVec @= {rname}: source changed or wrong result', form=f'FrozenVec@={rname}')


def check_pair(acc: core.Acc, a: tuple, b: tuple) -> None:
    """Composition over the full rotation-type matrix: (v @ A) @ B == v @ (A @ B) == v . ref(A) . ref(B)."""
    case = {'a': list(a), 'b': list(b)}
    ra, rb = ref_matrix(*a), ref_matrix(*b)
    prod = mat_prod(ra, rb)
    for (an, mka), (bn, mkb) in itertools.product(ROT_TYPES.items(), repeat=2):
        acc.evaluations += 1
        A, B = mka(*a), mkb(*b)
        sa, sb = snapshot(A), snapshot(B)
        form = f'{an}@{bn}'
        try:
            AB = A @ B
        except Exception as exc:  # noqa: BLE001
            acc.fail('operator_raises', case, f'{form} raised {type(exc).__name__}: {exc}', form=form)
            continue
        if type(AB) is not type(A):
            acc.fail('result_type', case, f'{form} returned {type(AB).__name__}, expected the left operand type', form=form)
            continue
        if snapshot(A) != sa or snapshot(B) != sb or AB is A:
            acc.fail('operand_mutated', case, f'{form} changed an operand (or returned it)', form=form)
        # angles lose information only through Euler extraction: compare as matrices, with the gimbal allowance
        got = as_rows(AB)
        h = math.hypot(prod[0][0], prod[0][1])
        tol = 1e-9 if (h > 0.001 or not isinstance(AB, (Angle, FrozenAngle))) else 2 * h + 1e-9
        if mdiff(got, prod) > tol:
            acc.fail('composition_wrong', case, f'{an}{a} @ {bn}{b} differs from the reference product by {mdiff(got, prod):g}', form=form)
            continue
        for v in VECS[6:9]:
            lhs = (Vec(*v) @ A) @ B
            rhs = Vec(*v) @ AB
            t = 1e-9 * (1 + max(abs(c) for c in v))
            if isinstance(AB, (Angle, FrozenAngle)) and h <= 0.001:
                t += (2 * h + 1e-9) * max(abs(c) for c in v) * 3
            if vdiff(tuple(lhs), tuple(rhs)) > t:
                acc.fail('not_associative', dict(case, vec=list(v)), f'(v@{an})@{bn} = {tuple(lhs)} but v@({form}) = {tuple(rhs)} for v={v}', form=form)
                break
        # in-place forms exist for the mutable left operands
        if an in ('Angle', 'Matrix'):
            acc.evaluations += 1
            A2 = mka(*a)
            alias = A2
            A2 @= B
            if A2 is not alias:
                # e.g. Angle @= FrozenMatrix falls back to A = A @ B: the property speaks about values, so only counted
                acc.count('inplace_form_rebinds_instead_of_mutating')
            if type(A2) is not type(alias) or mdiff(as_rows(A2), prod) > tol:
                acc.fail('composition_wrong', case, f'{an}{a} @= {bn}{b} differs from the reference product by {mdiff(as_rows(A2), prod):g}', form=form + '=')
            if snapshot(B) != sb:
                acc.fail('operand_mutated', case, f'{an} @= {bn} changed the right operand', form=form + '=')
        else:
            acc.evaluations += 1
            A2 = mka(*a)
            alias = A2
            A2 @= B
            if snapshot(alias) != sa or type(A2) is not type(alias) or mdiff(as_rows(A2), prod) > tol:
                acc.fail('frozen_inplace', case, f'{an} @= {bn}: frozen source changed or wrong result', form=form + '=')
    acc.nontrivial += 1


def check_self_alias(acc: core.Acc, a: tuple) -> None:
    """The same object on both sides of a product: M @ M, M @= M, A @ A, A @= A must equal the product of two equal rotations."""
    case = {'self_alias': list(a)}
    ra = ref_matrix(*a)
    prod = mat_prod(ra, ra)
    for name, mk in ROT_TYPES.items():
        acc.evaluations += 1
        A = mk(*a)
        snap = snapshot(A)
        try:
            res = A @ A
        except Exception as exc:  # noqa: BLE001
            acc.fail('operator_raises', case, f'{name} @ itself raised {type(exc).__name__}: {exc}', form=f'{name}@self')
            continue
        h = math.hypot(prod[0][0], prod[0][1])
        tol = 1e-9 if (h > 0.001 or not isinstance(res, (Angle, FrozenAngle))) else 2 * h + 1e-9
        if mdiff(as_rows(res), prod) > tol:
            acc.fail('composition_wrong', case, f'{name}{a} @ (the same object) differs from the reference square by {mdiff(as_rows(res), prod):g}', form=f'{name}@self')
        if snapshot(A) != snap:
            acc.fail('operand_mutated', case, f'{name} @ itself changed the operand', form=f'{name}@self')
        B = mk(*a)
        alias = B
        B @= B
        if mdiff(as_rows(B), prod) > tol:
            acc.fail('composition_wrong', case, f'{name}{a} @= (the same object) gives a matrix differing from the reference square by {mdiff(as_rows(B), prod):g}',
                     form=f'{name}@=self')
        if name.startswith('Frozen') and snapshot(alias) != snap:
            acc.fail('frozen_inplace', case, f'{name} @= itself changed the frozen source', form=f'{name}@=self')
    acc.nontrivial += 1


def check_mutated_reuse(acc: core.Acc, a: tuple, b: tuple) -> None:
    """History: rotate by an object, edit that same object in place, rotate again - the second result must follow the edit."""
    case = {'reuse_a': list(a), 'reuse_b': list(b)}
    rb = ref_matrix(*b)
    v = (1.0, 2.0, 3.0)
    want = vec_mat(v, rb)
    edits = {
        'setters': lambda ang: (setattr(ang, 'pitch', b[0]), setattr(ang, 'yaw', b[1]), setattr(ang, 'roll', b[2])),
        'items': lambda ang: (ang.__setitem__(0, b[0]), ang.__setitem__('y', b[1]), ang.__setitem__('roll', b[2])),
    }
    for ename, edit in edits.items():
        for vname, mkv in VEC_TYPES.items():
            acc.evaluations += 1
            ang = Angle(*a)
            first = mkv(v) @ ang
            if vdiff(tuple(first), vec_mat(v, ref_matrix(*a))) > 1e-9:
                return   # reported by check_angle already
            edit(ang)
            second = mkv(v) @ ang
            if vdiff(tuple(second), want) > 1e-9:
                acc.fail('stale_after_inplace_edit', case, f'{vname} @ Angle{a}, then the same Angle edited in place ({ename}) to {b}: second rotation gives '
                         f'{tuple(second)}, expected {want}', form=f'{vname}@Angle', edit=ename)
    # the same with a Matrix edited by @= and an Angle edited by @= / transform()
    acc.evaluations += 1
    m = Matrix.from_angle(*a)
    _ = Vec(*v) @ m
    m @= Matrix.from_angle(*b)
    got = Vec(*v) @ m
    want2 = vec_mat(v, mat_prod(ref_matrix(*a), rb))
    if vdiff(tuple(got), want2) > 1e-9:
        acc.fail('stale_after_inplace_edit', case, f'Vec @ Matrix{a}, Matrix @= Matrix{b}, Vec @ Matrix again gives {tuple(got)}, expected {want2}', form='Vec@Matrix', edit='@=')
    acc.evaluations += 1
    ang = Angle(*a)
    _ = Vec(*v) @ ang
    ang @= Angle(*b)
    got = Vec(*v) @ ang
    h = math.hypot(mat_prod(ref_matrix(*a), rb)[0][0], mat_prod(ref_matrix(*a), rb)[0][1])
    if h > 0.001 and vdiff(tuple(got), want2) > 1e-9:
        acc.fail('stale_after_inplace_edit', case, f'Vec @ Angle{a}, Angle @= Angle{b}, Vec @ Angle again gives {tuple(got)}, expected {want2}', form='Vec@Angle', edit='@=')
    acc.nontrivial += 1


NEAR_DELTAS = (1e-7, 3e-9, -1e-8)


def check_near_sequence(acc: core.Acc, a: tuple) -> None:
    """History: conversions of neighbouring angles (closer than the 1e-6 comparison tolerance) one after the other, through
    every rotation type; each result is judged against the reference for ITS OWN angle at 1e-12 (no state between calls)."""
    seq = [a] + [tuple(c + (d if i == k else 0.0) for i, c in enumerate(a)) for k in range(3) for d in NEAR_DELTAS]
    for tname in ('FrozenAngle', 'Angle'):
        for form in ('from_angle', 'to_matrix', 'vec_matmul'):
            for (p, y, r) in seq:
                acc.evaluations += 1
                ang = ANG_TYPES[tname](p, y, r)
                want = ref_matrix(p, y, r)
                if form == 'from_angle':
                    got = rows(Matrix.from_angle(ang))
                    err = mdiff(got, want)
                    got2 = rows(FrozenMatrix.from_angle(ang))
                    err = max(err, mdiff(got2, want))
                elif form == 'to_matrix':
                    got = rows(Matrix.from_angle(ang.pitch, ang.yaw, ang.roll))
                    err = mdiff(got, want)
                else:
                    v = (1e6, -2e6, 3e6)
                    got = tuple(Vec(*v) @ ang)
                    err = vdiff(got, vec_mat(v, want)) / 1e6
                if err > 1e-12:
                    acc.fail('near_angle_sequence', {'near': list(a)},
                             f'{tname}({p!r}, {y!r}, {r!r}) via {form}, evaluated after its neighbours {seq[:3]}...: differs from the '
                             f'closed form by {err:.3e}', form=form, type=tname)
                    return


def ref_axis_angle(axis: tuple, angle: float):
    """Rodrigues' formula in the row-vector convention, with the sign fixed by the three principal cases the library
    documents (a rotation about +Z by t is a yaw of t, about +Y a pitch of t, about +X a roll of t)."""
    ln = math.sqrt(sum(c * c for c in axis))
    x, y, z = (c / ln for c in axis)
    t = math.radians(angle)
    c, s_ = math.cos(t), math.sin(t)
    ic = 1.0 - c
    # column-vector rotation by +t about n, transposed for row vectors
    col = ((c + x * x * ic, x * y * ic - z * s_, x * z * ic + y * s_),
           (y * x * ic + z * s_, c + y * y * ic, y * z * ic - x * s_),
           (z * x * ic - y * s_, z * y * ic + x * s_, c + z * z * ic))
    return tuple(tuple(col[j][i] for j in range(3)) for i in range(3))


# harness self-check of the convention against the closed-form Euler matrices
for _t in (30.0, 135.0):
    assert mdiff(ref_axis_angle((0, 0, 1), _t), ref_matrix(0.0, _t, 0.0)) < 1e-15
    assert mdiff(ref_axis_angle((0, 1, 0), _t), ref_matrix(_t, 0.0, 0.0)) < 1e-15
    assert mdiff(ref_axis_angle((1, 0, 0), _t), ref_matrix(0.0, 0.0, _t)) < 1e-15

AXIS_COMPONENTS = (-2.0, -1.0, 0.0, 1.0, 2.0, 3.0)
AXIS_ANGLES = tuple(15.0 * i for i in range(24)) + (0.1, 359.9, -45.0, 720.5)


def check_axis_angle(acc: core.Acc, axis: tuple) -> None:
    """Matrix.axis_angle / FrozenMatrix.axis_angle for one axis x every lattice angle."""
    ln = math.sqrt(sum(c * c for c in axis))
    unit = tuple(c / ln for c in axis)
    for tname, cls in (('Matrix', Matrix), ('FrozenMatrix', FrozenMatrix)):
        prev = None
        for t in AXIS_ANGLES:
            acc.evaluations += 1
            case = {'axis': list(axis)}
            forms = {'tuple': cls.axis_angle(axis, t), 'Vec': cls.axis_angle(Vec(*axis), t), 'FrozenVec': cls.axis_angle(FrozenVec(*axis), t)}
            want = ref_axis_angle(axis, t)
            for fname, m in forms.items():
                r = rows(m)
                if type(m) is not cls:
                    acc.fail('axis_angle_type', case, f'{tname}.axis_angle({axis}, {t}) via {fname} returned a {type(m).__name__}', type=tname)
                    return
                if mdiff(r, want) > 1e-12:
                    acc.fail('axis_angle_convention', case, f'{tname}.axis_angle({axis} as {fname}, {t}) = {r}; Rodrigues reference {want} (diff {mdiff(r, want):.3e})', type=tname)
                    return
            m = forms['tuple']
            r = rows(m)
            # proper rotation, inverse == transpose, the axis is left fixed
            rrT = mat_prod(r, tuple(zip(*r)))
            if mdiff(rrT, ((1, 0, 0), (0, 1, 0), (0, 0, 1))) > 1e-12:
                acc.fail('axis_angle_not_orthonormal', case, f'{tname}.axis_angle({axis}, {t}) rows are not orthonormal: {r}', type=tname)
                return
            if mdiff(rows(m.inverse()), rows(m.transpose())) > 1e-12:
                acc.fail('inverse_not_transpose', case, f'{tname}.axis_angle({axis}, {t}): inverse() != transpose()', type=tname)
                return
            if vdiff(tuple(Vec(*unit) @ m), unit) > 1e-12:
                acc.fail('axis_not_fixed', case, f'{tname}.axis_angle({axis}, {t}) moves its own axis to {tuple(Vec(*unit) @ m)}', type=tname)
                return
            # angles about one axis add
            if prev is not None:
                pt, pm = prev
                if mdiff(rows(pm @ m), ref_axis_angle(axis, pt + t)) > 1e-12:
                    acc.fail('axis_angle_not_additive', case, f'{tname}: axis_angle({axis}, {pt}) @ axis_angle({axis}, {t}) != axis_angle({axis}, {pt + t})', type=tname)
                    return
            prev = (t, m)
            # through Euler angles and back
            back = rows(Matrix.from_angle(m.to_angle()))
            if mdiff(back, r) > 2e-3:
                acc.fail('to_angle_roundtrip', case, f'{tname}.axis_angle({axis}, {t}).to_angle() = {m.to_angle()} rebuilds {back} (diff {mdiff(back, r):.3e})', type=tname)
                return


BASIS_SCALES = (1.0, 1e-5, 3e-4, 5e-4, 0.03, 1000.0)


def check_from_basis(acc: core.Acc, a: tuple) -> None:
    """Matrix/Angle.from_basis with one, two or three basis vectors taken from the reference rotation of `a`, each scaled by
    magnitudes from 1e-5 to 1000: always a proper rotation whose given axes point where asked."""
    ra = ref_matrix(*a)
    for scale in BASIS_SCALES:
        axes = {'x': tuple(c * scale for c in ra[0]), 'y': tuple(c * scale for c in ra[1]), 'z': tuple(c * scale for c in ra[2])}
        for given in (('x',), ('y',), ('z',), ('x', 'y'), ('y', 'z'), ('x', 'z'), ('x', 'y', 'z')):
            for tname, cls in (('Matrix', Matrix), ('FrozenMatrix', FrozenMatrix)):
                acc.evaluations += 1
                case = {'basis_of': list(a)}
                kw = {k: Vec(*axes[k]) for k in given}
                m = cls.from_basis(**kw)
                r = rows(m)
                # a single, nearly vertical axis is completed with a fixed horizontal helper (the library's gimbal-lock rule,
                # horizontal length under 0.001): like to_angle() in that zone, only ~2x that length is demanded there
                u = ra['xyz'.index(given[0])]
                tol = 2.5e-3 if (len(given) == 1 and u[0] ** 2 + u[1] ** 2 < 1.1e-6) else 1e-9
                rrT = mat_prod(r, tuple(zip(*r)))
                det = (r[0][0] * (r[1][1] * r[2][2] - r[1][2] * r[2][1]) - r[0][1] * (r[1][0] * r[2][2] - r[1][2] * r[2][0])
                       + r[0][2] * (r[1][0] * r[2][1] - r[1][1] * r[2][0]))
                if mdiff(rrT, ((1, 0, 0), (0, 1, 0), (0, 0, 1))) > tol or abs(det - 1.0) > tol:
                    acc.fail('from_basis_not_rotation', case, f'{tname}.from_basis({kw}) = {r} is not a proper rotation (det {det})', given='+'.join(given))
                    return
                for k in given:
                    i = 'xyz'.index(k)
                    if vdiff(r[i], ra[i]) > tol:
                        acc.fail('from_basis_axis_wrong', case, f'{tname}.from_basis({kw}): local {k} axis is {r[i]}, asked for direction {ra[i]}', given='+'.join(given))
                        return
                if len(given) >= 2 and mdiff(r, ra) > 1e-9:
                    acc.fail('from_basis_axis_wrong', case, f'{tname}.from_basis({kw}) = {r}, the only rotation with those axes is {ra}', given='+'.join(given))
                    return
            if len(given) >= 1:
                for aname, acls in (('Angle', Angle), ('FrozenAngle', FrozenAngle)):
                    ang = acls.from_basis(**{k: Vec(*axes[k]) for k in given})
                    want = rows(Matrix.from_basis(**{k: Vec(*ra['xyz'.index(k)]) for k in given}))
                    if mdiff(rows(Matrix.from_angle(ang)), want) > 2e-3:
                        acc.fail('from_basis_axis_wrong', {'basis_of': list(a)}, f'{aname}.from_basis of {given} scaled by {scale} gives {ang}, unit vectors give {want}', given='+'.join(given))
                        return


ANGSTR_BAD = ('', 'abc', '1 2', '1 2 3 4', None, '(1 2', 'nan nan')


def check_from_angstr(acc: core.Acc, a: tuple, b: tuple) -> None:
    """Matrix.from_angstr(text, fallback pitch/yaw/roll) is from_angle(Angle.from_str(text, fallback...)): for the text forms of
    `a` and for unparsable values, where the fallback `b` is used."""
    acc.evaluations += 1
    p, y, r = a
    texts = [f'{p} {y} {r}', f'({p} {y} {r})', f'[{p} {y} {r}]', f'<{p} {y} {r}>', f'{{{p} {y} {r}}}', Angle(p, y, r), FrozenAngle(p, y, r)] + list(ANGSTR_BAD)
    for val in texts:
        for tname, cls in (('Matrix', Matrix), ('FrozenMatrix', FrozenMatrix)):
            try:
                got = rows(cls.from_angstr(val, *b))
                want = rows(Matrix.from_angle(Angle.from_str(val, *b)))
            except Exception as exc:  # noqa: BLE001
                acc.fail('from_angstr_differs', {'angstr_a': list(a), 'angstr_b': list(b)}, f'{tname}.from_angstr({val!r}, {b}) / Angle.from_str raised {type(exc).__name__}: {exc}')
                return
            if mdiff(got, want) > 1e-12:
                acc.fail('from_angstr_differs', {'angstr_a': list(a), 'angstr_b': list(b)},
                         f'{tname}.from_angstr({val!r}, {b}) = {got}; from_angle(Angle.from_str(...)) = {want}')
                return


def check_single_axis(acc: core.Acc, t: float) -> None:
    """from_pitch / from_yaw / from_roll given the raw angle (any real, never normalised by an Angle first)."""
    for tname, cls in (('Matrix', Matrix), ('FrozenMatrix', FrozenMatrix)):
        for fn, want in (('from_pitch', ref_matrix(t, 0.0, 0.0)), ('from_yaw', ref_matrix(0.0, t, 0.0)), ('from_roll', ref_matrix(0.0, 0.0, t))):
            acc.evaluations += 1
            got = rows(getattr(cls, fn)(t))
            if mdiff(got, want) > 1e-12:
                acc.fail('single_axis_convention', {'single_axis': t}, f'{tname}.{fn}({t!r}) = {got}; closed form {want}', fn=fn)
                return


def check_to_matrix(acc: core.Acc, a: tuple, b: tuple) -> None:
    """The module function to_matrix() and Vec.localise(): the same Euler triple in every accepted spelling (None, matrices,
    angles, 3-tuple, Vec, FrozenVec) is the same rotation."""
    from srctools.math import to_matrix
    acc.evaluations += 1
    want = ref_matrix(*a)
    forms = {'Angle': Angle(*a), 'FrozenAngle': FrozenAngle(*a), 'Matrix': Matrix.from_angle(*a), 'FrozenMatrix': FrozenMatrix.from_angle(*a),
             'tuple': tuple(a), 'Vec': Vec(*a), 'FrozenVec': FrozenVec(*a)}
    case = {'tm_a': list(a), 'tm_b': list(b)}
    for fname, val in forms.items():
        got = rows(to_matrix(val))
        if mdiff(got, want) > 1e-12:
            acc.fail('to_matrix_differs', case, f'to_matrix({fname}{a}) = {got}; the rotation of pitch/yaw/roll {a} is {want}', form=fname)
            return
        v = Vec(*b)
        v.localise(Vec(1.0, -2.0, 3.0), val)
        wantv = tuple(x + o for x, o in zip(vec_mat(b, want), (1.0, -2.0, 3.0)))
        if vdiff(tuple(v), wantv) > 1e-9 * (1.0 + max(abs(c) for c in b)):
            acc.fail('to_matrix_differs', case, f'Vec{b}.localise(origin, {fname}{a}) = {tuple(v)}; expected {wantv}', form=fname)
            return
    if mdiff(rows(to_matrix(None)), ((1, 0, 0), (0, 1, 0), (0, 0, 1))) > 0:
        acc.fail('to_matrix_differs', case, 'to_matrix(None) is not the identity', form='None')


def check_transform(acc: core.Acc, a: tuple, b: tuple) -> None:
    """The context-manager forms: Angle.transform() yields the angle's own matrix and stores the edited matrix back;
    Vec.transform() yields the identity and applies the edited matrix to the vector."""
    acc.evaluations += 1
    ang = Angle(*a)
    ra, rb = ref_matrix(*a), ref_matrix(*b)
    with ang.transform() as m:
        seen = rows(m)
        probe = tuple(Vec(1.0, 2.0, 3.0) @ m)
        m @= Angle(*b)
    if mdiff(seen, ra) > 1e-12 or vdiff(probe, vec_mat((1.0, 2.0, 3.0), ra)) > 1e-12:
        acc.fail('transform_yields_wrong_matrix', {'ta': list(a), 'tb': list(b)}, f'Angle{a}.transform() yielded {seen}, the angle\'s matrix is {ra}')
        return
    want = mat_prod(ra, rb)
    got = rows(Matrix.from_angle(ang))
    if mdiff(got, want) > 2e-3:
        acc.fail('transform_result', {'ta': list(a), 'tb': list(b)}, f'with Angle{a}.transform() as m: m @= Angle{b} left {ang} = {got}; expected {want}')
        return
    for k in range(3):
        if not 0.0 <= tuple(ang)[k] < 360.0:
            acc.fail('transform_result', {'ta': list(a), 'tb': list(b)}, f'Angle.transform() left a component outside [0, 360): {ang!r}')
            return
    v = Vec(1.5, -2.0, 3.25)
    with v.transform() as m:
        ident = rows(m)
        m @= Angle(*a)
        m @= Matrix.from_angle(*b)
    if mdiff(ident, ((1, 0, 0), (0, 1, 0), (0, 0, 1))) > 0:
        acc.fail('transform_yields_wrong_matrix', {'ta': list(a), 'tb': list(b)}, f'Vec.transform() yielded {ident}, not the identity')
        return
    wantv = vec_mat(vec_mat((1.5, -2.0, 3.25), ra), rb)
    if vdiff(tuple(v), wantv) > 1e-9:
        acc.fail('transform_result', {'ta': list(a), 'tb': list(b)}, f'with Vec.transform() as m: m @= Angle{a}; m @= Matrix{b} gave {tuple(v)}, expected {wantv}')
        return
    # two transforms open at once (nested with-blocks, outer edited before and after the inner one), and a yielded matrix kept
    # past its block: each block has its own matrix
    v1, v2, a2 = Vec(1.5, -2.0, 3.25), Vec(-4.0, 0.5, 2.0), Angle(*b)
    with v1.transform() as m1:
        m1 @= Angle(*a)
        with v2.transform() as m2:
            m2 @= Angle(*b)
            with a2.transform() as m3:
                m3 @= Angle(*a)
        m1 @= Angle(*b)
    kept = rows(m1)
    with Vec(9.0, 9.0, 9.0).transform() as m4:
        m4 @= Angle(*b)
    want1 = vec_mat(vec_mat((1.5, -2.0, 3.25), ra), rb)
    want2 = vec_mat((-4.0, 0.5, 2.0), rb)
    want3 = mat_prod(rb, ra)
    if vdiff(tuple(v1), want1) > 1e-9 or vdiff(tuple(v2), want2) > 1e-9 or mdiff(rows(Matrix.from_angle(a2)), want3) > 2e-3:
        acc.fail('transform_contexts_interfere', {'ta': list(a), 'tb': list(b)}, f'nested transform() blocks (outer Vec by Angle{a} then Angle{b}, inner Vec by Angle{b}, '
                 f'innermost Angle{b} by Angle{a}): outer {tuple(v1)} (expected {want1}), inner {tuple(v2)} (expected {want2}), angle {a2!r} (expected matrix {want3})')
        return
    if mdiff(rows(m1), kept) > 0 or mdiff(kept, mat_prod(ra, rb)) > 1e-9:
        acc.fail('transform_contexts_interfere', {'ta': list(a), 'tb': list(b)}, f'the matrix yielded by a finished Vec.transform() block changed when a later block ran: {kept} -> {rows(m1)}')


def lattice_g1():
    steps = [15.0 * i for i in range(24)]
    return itertools.product(steps, steps, steps)


def lattice_g2():
    ps = sorted({base + sgn * e for base in (90.0, -90.0, 270.0) for sgn in (1, -1) for e in POLE_E})
    ys = [0.0, 45.0, 90.0, 135.0, 180.0, 225.0, 270.0, 315.0, 0.1]
    rs = [0.0, 30.0, 90.0, 180.5]
    return itertools.product(ps, ys, rs)


def lattice_g3():
    vals = [(k * 360.0 / PHI) % 360.0 for k in range(1, 13)]
    return itertools.product(vals, vals, vals)


def guarded(acc: core.Acc, fn, case: dict, *args) -> None:
    try:
        fn(acc, *args)
    except AssertionError:
        raise
    except Exception as exc:  # noqa: BLE001 - the library raised where the algebra is total
        acc.fail('library_raised', case, f'{fn.__name__}{args}: {type(exc).__name__}: {exc}', exc=type(exc).__name__)


def shard(spec) -> core.Acc:
    acc = core.Acc()
    kind = spec[0]
    if kind == 'angles':
        for (p, y, r) in spec[1]:
            guarded(acc, check_angle, {'angle': [p, y, r]}, p, y, r, True)
        acc.sample({'angle': list(spec[1][0])}, 1)
    elif kind == 'single':
        for t in spec[1]:
            guarded(acc, check_single_axis, {'single_axis': t}, t)
        acc.sample({'single_axis_angles': [spec[1][0], spec[1][-1]]}, 1)
    elif kind == 'axes':
        for axis in spec[1]:
            guarded(acc, check_axis_angle, {'axis': list(axis)}, axis)
            acc.nontrivial += 1
        acc.sample({'axis': list(spec[1][0]), 'angles': list(AXIS_ANGLES)}, 1)
    elif kind == 'pairs':
        a_list, b_list = spec[1], spec[2]
        for a in a_list:
            guarded(acc, check_self_alias, {'self_alias': list(a)}, a)
            guarded(acc, check_near_sequence, {'near': list(a)}, a)
            guarded(acc, check_from_basis, {'basis_of': list(a)}, a)
            for b in b_list:
                guarded(acc, check_pair, {'a': list(a), 'b': list(b)}, a, b)
                guarded(acc, check_mutated_reuse, {'reuse_a': list(a), 'reuse_b': list(b)}, a, b)
                guarded(acc, check_transform, {'ta': list(a), 'tb': list(b)}, a, b)
                guarded(acc, check_from_angstr, {'angstr_a': list(a), 'angstr_b': list(b)}, a, b)
                guarded(acc, check_to_matrix, {'tm_a': list(a), 'tm_b': list(b)}, a, b)
        acc.sample({'a': list(a_list[0]), 'b': list(b_list[0])}, 1)
    return acc


def run(ctx: core.Ctx) -> None:
    angles = list(lattice_g1()) + list(lattice_g2()) + list(lattice_g3())
    shards = [('angles', chunk) for chunk in core.chunked(angles, 120)]
    step = ctx.pick(90.0, 45.0)
    sub = [float(x) for x in range(0, 360, int(step))]
    coarse = list(itertools.product(sub, sub, sub))
    special = [(89.95, 10.0, 20.0), (-90.0, 45.0, 30.0), (90.0, 0.1, 180.5), (1e-12, 359.99999999999994, -1e-14),
               (33.3, 222.492, 137.5), (270.05, 90.0, 0.0)]
    pairs_a = coarse + special
    for chunk in core.chunked(pairs_a, 4 if ctx.quick else 8):
        shards.append(('pairs', chunk, pairs_a))
    axes = [ax for ax in itertools.product(AXIS_COMPONENTS, repeat=3) if any(ax)]
    for chunk in core.chunked(axes, 12):
        shards.append(('axes', chunk))
    singles = [15.0 * k for k in range(-60, 61)] + [-1e-12, 1e-12, -89.99999999999999, 0.1, -0.1, 1e6 + 0.5, -1e6 - 0.5]
    shards.append(('single', singles))
    k = ctx.seed % len(shards)
    core.par_map(shard, shards[k:] + shards[:k], ctx.acc)
    ctx.coverage_extra['axes'] = len(axes)
    ctx.coverage_extra['angles'] = len(angles)
    ctx.coverage_extra['composition_pairs'] = len(pairs_a) ** 2
    ctx.rule = (f'{len(angles)} angle triples: all multiples of 15 degrees (13824), pole neighbourhoods p = +-90 +- e for e in {POLE_E} '
                f'x 9 yaws x 4 rolls, and a 12^3 irrational lattice; each through every constructor form, orthonormality, '
                f'determinant, to_angle round trip (2h allowance under the 0.001 threshold), inverse vs transpose, and '
                f'{len(VECS)} vectors x (Vec, FrozenVec, tuple) x (Angle, FrozenAngle, Matrix, FrozenMatrix) x (@, @=). Composition: '
                f'all {len(pairs_a)}^2 ordered pairs of the {int(step)}-degree sub-lattice + {len(special)} special angles x the 4x4 '
                f'rotation type matrix x (@, @=) with associativity on 3 vectors; for each first angle also the sequence of its 9 neighbours at 1e-7 / 3e-9 / -1e-8 degrees per component, converted one after another (results must not depend on earlier calls). Every pair also through the context managers Angle.transform() (yielded matrix = that of the angle, result stored back) and Vec.transform(). from_pitch/from_yaw/from_roll for raw angles -900..900 in steps of 15 (+ tiny / huge); to_matrix() and Vec.localise() for every operand spelling of every pair; from_basis with 1/2/3 axes of every first angle scaled by 1e-5..1000; from_angstr (5 bracket styles, angle objects, 7 unparsable values with the second angle as fallback) against from_angle(Angle.from_str()). Matrix/FrozenMatrix.axis_angle for every non-zero axis with components in -2..3 (215) x 28 angles x (tuple, Vec, FrozenVec) against the Rodrigues formula: orthonormal, inverse = transpose, axis fixed, additive, Euler round trip. Reference: closed-form AngleVectors and the '
                f'roll-pitch-yaw product, both written in the harness. Non-trivial = every angle / pair (each enumerated once).')


def replay(case: dict) -> list:
    acc = core.Acc()
    if 'reuse_a' in case:
        guarded(acc, check_mutated_reuse, case, tuple(case['reuse_a']), tuple(case['reuse_b']))
    elif 'single_axis' in case:
        guarded(acc, check_single_axis, case, case['single_axis'])
    elif 'tm_a' in case:
        guarded(acc, check_to_matrix, case, tuple(case['tm_a']), tuple(case['tm_b']))
    elif 'basis_of' in case:
        guarded(acc, check_from_basis, case, tuple(case['basis_of']))
    elif 'angstr_a' in case:
        guarded(acc, check_from_angstr, case, tuple(case['angstr_a']), tuple(case['angstr_b']))
    elif 'axis' in case:
        guarded(acc, check_axis_angle, case, tuple(case['axis']))
    elif 'ta' in case:
        guarded(acc, check_transform, case, tuple(case['ta']), tuple(case['tb']))
    elif 'near' in case:
        guarded(acc, check_near_sequence, case, tuple(case['near']))
    elif 'self_alias' in case:
        guarded(acc, check_self_alias, case, tuple(case['self_alias']))
    elif 'angle' in case:
        guarded(acc, check_angle, case, *case['angle'], True)
    else:
        guarded(acc, check_pair, case, tuple(case['a']), tuple(case['b']))
    return acc.all_failures()
