"""C20 / cmdseq — Hammer command sequences: cmdseq.write -> cmdseq.parse.

Also hosts the small deviation-bounded driver (`Explorer`) shared by the four c20_* parts built together
(cmdseq, sndscript, vmt, smd).  It should move to mcv/ once the framework owner agrees; the part modules only
use `Explorer`, `Result` and `excs()` from here.
"""
from __future__ import annotations

import hashlib
import io
import itertools
import struct
from typing import Any, Callable, Iterator, Optional

from srctools import cmdseq

from mcv import core

PART = 'cmdseq'


# ---------------------------------------------------------------------------------------------
# generic deviation-bounded driver

class Result:
    """What one executed case did.  fails = [(kind, detail)], out = writer output (bytes/str) or None."""
    __slots__ = ('fails', 'out', 'compared')

    def __init__(self) -> None:
        self.fails: list[tuple[str, str]] = []
        self.out: Any = None
        self.compared = False       # reader returned a value that was compared with the input

    def fail(self, kind: str, detail: str) -> None:
        self.fails.append((kind, detail))


def excs(exc: BaseException) -> str:
    return f'{type(exc).__name__}: {exc}'[:300]


def _digest(out: Any) -> str:
    if out is None:
        return '-'
    if isinstance(out, str):
        out = out.encode('utf8', 'surrogatepass')
    return hashlib.sha1(out).hexdigest()[:10]


def _show(out: Any, limit: int = 400) -> str:
    """Writer output for a quoted sample: text as text, binary as hex."""
    if out is None:
        return ''
    if isinstance(out, bytes):
        try:
            text = out.decode('ascii')
        except UnicodeDecodeError:
            return out[:limit // 2].hex()
        return text[:limit] if text.isprintable() or all(c.isprintable() or c in '\n\t' for c in text) else out[:limit // 2].hex()
    return out[:limit]


class Explorer:
    """Base value + every choice of <= d features set to each of their non-base values.

    features: {feature name: [(tag, descriptor), ...]}; entry 0 is the base value.  Descriptors are plain JSON
    values (they are what a replay file stores); tags are coarse class names used in failure signatures.
    evaluate(setting) executes ONE case on the real code: setting = {feature: descriptor} for every feature.

    Attribution: a failing case is charged to its minimal failing sub-selection(s) of deviations (each
    sub-selection is itself an enumerated case; they are re-evaluated on demand and memoised), so the
    signature `cause` names the fewest non-base features (as coarse '<group>=<class>' terms) that reproduce the
    failure kind, e.g. 'interval=range' or 'bones=forest+links=multi'.  Every failing case is still recorded and counted.
    """

    def __init__(self, part: str, features: dict, evaluate: Callable[[dict], Result],
                 inert: Optional[Callable[[dict], bool]] = None, groups: Optional[dict] = None):
        self.part = part
        # feature -> coarse group name used in failure signatures (default: the feature's own name), so that
        # e.g. the three operator stacks or name/value positions of the same writer path share one cause
        self.groups = groups or {}
        self.features = features
        self.names = list(features)
        self.evaluate = evaluate
        # inert({feature: index}) -> True when a deviated feature cannot influence the built value given the
        # others (e.g. a command field while the sequence has no command): such selections duplicate a smaller
        # one and are skipped, so every enumerated value is distinct.
        self.inert = inert
        self._memo: dict = {}

    # -- enumeration
    def dev_sets(self, d: int) -> Iterator[tuple]:
        for r in range(d + 1):
            for combo in itertools.combinations(self.names, r):
                for idxs in itertools.product(*[range(1, len(self.features[n])) for n in combo]):
                    dev = tuple(zip(combo, idxs))
                    if self.inert is not None and dev and self.inert(dict(dev)):
                        continue
                    yield dev

    def setting(self, dev: tuple) -> dict:
        chosen = dict(dev)
        return {n: self.features[n][chosen.get(n, 0)][1] for n in self.names}

    def case_of(self, dev: tuple) -> dict:
        return {'part': self.part, 'dev': {n: self.features[n][i][1] for n, i in dev}}

    def dev_of_case(self, case: dict) -> tuple:
        """Map a stored case back to feature indices (by descriptor equality); unknown descriptors get index -1."""
        out = []
        for n in self.names:
            if n in case.get('dev', {}):
                want = case['dev'][n]
                for i, (_, desc) in enumerate(self.features[n]):
                    if desc == want:
                        out.append((n, i))
                        break
                else:
                    out.append((n, -1))
        return tuple(out)

    def cause(self, dev: tuple) -> str:
        """Coarse, stable signature of a selection: sorted distinct '<group>=<class>' terms."""
        if not dev:
            return 'base'
        return '+'.join(sorted({f'{self.groups.get(n, n)}={self.features[n][i][0] if i >= 0 else "?"}' for n, i in dev}))

    def describe(self, dev: tuple) -> str:
        if not dev:
            return 'none (base value)'
        return ', '.join(f'{n}={self.features[n][i][0]}:{core.jdump(self.features[n][i][1])[:60]}' if i >= 0 else f'{n}=?'
                         for n, i in dev)

    # -- execution
    def run_dev(self, dev: tuple, keep: bool = True) -> Result:
        """Execute one selection.  Results are memoised when `keep` (sub-selections used for attribution and the
        small selections every worker needs again); the bulk of the enumeration is not retained."""
        res = self._memo.get(dev)
        if res is None:
            res = self.evaluate(self.setting(dev))
            if keep:
                self._memo[dev] = res
        return res

    def culprits(self, dev: tuple, kind: str) -> list:
        failing = []
        for r in range(len(dev)):
            for sub in itertools.combinations(dev, r):
                if any(set(f) <= set(sub) for f in failing):
                    continue        # already explained by a smaller failing selection
                if any(k == kind for k, _ in self.run_dev(sub).fails):
                    failing.append(sub)
        return failing or [dev]

    def record(self, acc: core.Acc, dev: tuple, case: Optional[dict] = None) -> Result:
        res = self.run_dev(dev, keep=len(dev) <= 1)
        acc.evaluations += 1
        if res.compared:
            acc.nontrivial += 1
        acc.outcome((self.part, tuple(sorted({k for k, _ in res.fails})) or 'ok', _digest(res.out)))
        case = case or self.case_of(dev)
        seen = set()
        for kind, detail in res.fails:
            if kind in seen:
                continue
            seen.add(kind)
            for c in self.culprits(dev, kind):
                acc.fail(kind, case, f'[{self.part}] deviations from the base value: {self.describe(dev)}\n'
                                      f'minimal failing selection: {self.describe(c)}\n{detail}',
                         part=self.part, cause=self.cause(c))
        return res

    def shard(self, devs: list) -> core.Acc:
        acc = core.Acc()
        for dev in devs:
            self.record(acc, tuple(tuple(x) for x in dev))
        return acc

    def explore(self, ctx: core.Ctx, d: int, chunk: int = 200) -> int:
        devs = list(self.dev_sets(d))
        shards = list(core.chunked(devs, chunk))
        if shards:
            k = ctx.seed % len(shards)
            shards = shards[k:] + shards[:k]
        core.par_map(self.shard, shards, ctx.acc)
        # one quoted sample per part (the seed only picks which)
        pick = devs[(ctx.seed * 7919 + len(devs) // 2) % len(devs)]
        res = self.run_dev(pick)
        ctx.acc.sample(dict(self.case_of(pick), written=_show(res.out)), limit=len(ctx.acc.samples) + 1)
        return len(devs)

    def replay(self, case: dict) -> list:
        acc = core.Acc()
        dev = self.dev_of_case(case)
        if any(i < 0 for _, i in dev):
            # descriptor no longer in the feature table: run it as given, attribute to the whole selection
            setting = self.setting(tuple((n, i) for n, i in dev if i >= 0))
            setting.update(case['dev'])
            res = self.evaluate(setting)
            for kind, detail in res.fails:
                acc.fail(kind, case, detail, part=self.part, cause=self.cause(dev))
        else:
            self.record(acc, dev, case)
        return acc.all_failures()


# ---------------------------------------------------------------------------------------------
# cmdseq

NAME_W = 128
STR_W = 260
# every ASCII character except NUL (a C string cannot carry NUL): 127 characters, fits both field widths
ASCII_ALL = ''.join(chr(c) for c in range(1, 128))

SPECIALS = [m.name for m in cmdseq.SpecialCommand]


def _widths(ch: str, width: int) -> list:
    return [('empty', ''), ('len1', ch), ('max-1', ch * (width - 1)), ('max', ch * width)]


FEATURES: dict = {
    'seq_name': [('plain', 'Default')] + _widths('n', NAME_W) + [('ascii_all', ASCII_ALL)],
    'n_seqs': [('one', 1), ('none', 0), ('two', 2), ('three', 3)],
    'n_cmds': [('one', 1), ('none', 0), ('two', 2), ('three', 3)],
    'exe': [('plain', '$bsp_exe')] + _widths('e', STR_W) + [('ascii_all', ASCII_ALL)]
           + [('special', 'special:' + n) for n in SPECIALS],
    'args': [('plain', '-game $gamedir $path\\$file')] + _widths('a', STR_W) + [('ascii_all', ASCII_ALL)],
    'enabled': [('true', True), ('false', False)],
    'ensure_file': [('none', None)] + _widths('f', STR_W) + [('text', '$path\\$file.bsp'), ('ascii_all', ASCII_ALL)],
    'use_proc_win': [('true', True), ('false', False)],
    'no_wait': [('false', False), ('true', True)],
}


CMD_FIELDS = ('exe', 'args', 'enabled', 'ensure_file', 'use_proc_win', 'no_wait')


def _exe(desc: str):
    if desc.startswith('special:'):
        return cmdseq.SpecialCommand[desc[8:]]
    return desc


FILLERS = [
    {'exe': 'special:COPY_FILE', 'args': 'src dest', 'enabled': False, 'ensure_file': 'dest', 'use_proc_win': False,
     'no_wait': True},
    {'exe': '$vis_exe', 'args': '-fast', 'enabled': True, 'ensure_file': None, 'use_proc_win': True, 'no_wait': False},
]


def model(setting: dict) -> list:
    """Plain-data description [[sequence name, [command dict, ...]], ...] of the value a setting denotes.  The varied
    command is the first of the first sequence; further commands / sequences are fixed, distinct fillers (so ordering
    and record boundaries are observable)."""
    first = {k: setting[k] for k in CMD_FIELDS}
    seqs = []
    n = setting['n_seqs']
    if n >= 1:
        seqs.append([setting['seq_name'], ([first] + FILLERS)[:setting['n_cmds']]])
    if n >= 2:
        seqs.append(['Second sequence', [FILLERS[1], FILLERS[0]]])
    if n >= 3:
        seqs.append(['Third (empty)', []])
    return seqs


def construct(mdl: list) -> dict:
    return {
        name: [cmdseq.Command(_exe(c['exe']), c['args'], enabled=c['enabled'], ensure_file=c['ensure_file'],
                              use_proc_win=c['use_proc_win'], no_wait=c['no_wait']) for c in cmds]
        for name, cmds in mdl
    }


def expected(mdl: list) -> list:
    """What observe() must yield for the value: computed from the plain data, not from library objects."""
    def t(x: Any) -> tuple:
        return (type(x).__name__, x)
    return [
        (t(name), [(('special', c['exe'][8:]) if c['exe'].startswith('special:') else t(c['exe']),
                    t(c['args']), t(c['enabled']), t(c['ensure_file']), t(c['use_proc_win']), t(c['no_wait']))
                   for c in cmds])
        for name, cmds in mdl
    ]


def observe(seqs: Any) -> Any:
    """Field-by-field observer, types included (does not use attrs' generated __eq__)."""
    if not isinstance(seqs, dict):
        return ('NOT-A-DICT', repr(seqs))
    out = []
    for name, cmds in seqs.items():
        row = []
        for c in cmds:
            exe = ('special', c.exe.name) if isinstance(c.exe, cmdseq.SpecialCommand) else (type(c.exe).__name__, c.exe)
            row.append((
                exe, (type(c.args).__name__, c.args),
                (type(c.enabled).__name__, c.enabled),
                (type(c.ensure_file).__name__, c.ensure_file),
                (type(c.use_proc_win).__name__, c.use_proc_win),
                (type(c.no_wait).__name__, c.no_wait),
            ))
        out.append(((type(name).__name__, name), row))
    return out


def roundtrip(value: dict, res: Result, what: str, want: Any = None) -> None:
    if want is None:
        want = observe(value)
    elif observe(value) != want:
        res.fail('cmdseq_value_mismatch', f'{what}: the constructed object does not hold the given value:\n'
                                          f' given {_short(want)}\n holds {_short(observe(value))}')
        return
    buf = io.BytesIO()
    try:
        cmdseq.write(value, buf)
    except Exception as exc:  # noqa: BLE001
        res.fail('cmdseq_write_error', f'{what}: write raised {excs(exc)}')
        return
    data = res.out = buf.getvalue()
    try:
        rd = io.BytesIO(data)
        back = cmdseq.parse(rd)
        rest = rd.read()
    except Exception as exc:  # noqa: BLE001
        res.fail('cmdseq_read_error', f'{what}: parse(write(x)) raised {excs(exc)} ({len(data)} bytes written)')
        return
    res.compared = True
    got = observe(back)
    if got != want:
        res.fail('cmdseq_value_mismatch', f'{what}:\n wrote {_short(want)}\n read  {_short(got)}')
        return
    if rest:
        res.fail('cmdseq_value_mismatch', f'{what}: reader left {len(rest)} unread bytes of the writer\'s output')
    buf2 = io.BytesIO()
    try:
        cmdseq.write(back, buf2)
    except Exception as exc:  # noqa: BLE001
        res.fail('cmdseq_rewrite_differs', f'{what}: second write raised {excs(exc)}')
        return
    if buf2.getvalue() != data:
        res.fail('cmdseq_rewrite_differs', f'{what}: write(parse(write(x))) differs from write(x) '
                                           f'(first difference at byte {_first_diff(data, buf2.getvalue())})')


def _short(obj: Any) -> str:
    s = repr(obj)
    return s if len(s) < 700 else s[:340] + ' ... ' + s[-340:]


def _first_diff(a: bytes, b: bytes) -> int:
    for i, (x, y) in enumerate(zip(a, b)):
        if x != y:
            return i
    return min(len(a), len(b))


def evaluate(setting: dict) -> Result:
    res = Result()
    mdl = model(setting)
    roundtrip(construct(mdl), res, 'generated value', expected(mdl))
    return res


def inert(dev: dict) -> bool:
    n_seqs = FEATURES['n_seqs'][dev.get('n_seqs', 0)][1]
    n_cmds = FEATURES['n_cmds'][dev.get('n_cmds', 0)][1]
    if n_seqs == 0 and len(dev) > 1:
        return True
    return n_cmds == 0 and any(f in dev for f in CMD_FIELDS)


EXPLORER = Explorer(PART, FEATURES, evaluate, inert)


# -- reader-derived values: files laid out by the harness's own encoder (what Hammer itself writes:
#    junk after the terminating NUL, the pre-0.2 record without no_wait).  x = parse(file) must itself
#    be a fixed point of write/parse.  There is no cmdseq sample file under tests/.

def _field(text: str, width: int, junk: bytes) -> bytes:
    raw = text.encode('ascii') + b'\0'
    return (raw + junk * width)[:width] if len(raw) <= width else raw[:width]


def handmade(which: str) -> bytes:
    old = which == 'pre_v2'
    junk = b'\xcd' if which == 'junk_after_nul' else b'\0'
    out = [b'Worldcraft Command Sequences\r\n\x1a', struct.pack('<f', 0.1 if old else 0.2), struct.pack('<I', 2)]
    rows = [
        ('Fast', [(1, 0, '$bsp_exe', '$path\\$file', 1, 0, '', 1, 0),
                  (0, 257, 'Copy File', 'a b', 1, 1, '$path\\$file.bsp', 0, 1)]),
        ('Empty', []),
    ]
    for name, cmds in rows:
        out.append(_field(name, 128, junk))
        out.append(struct.pack('<I', len(cmds)))
        for en, special, exe, args, longfn, chk, ens, upw, nowait in cmds:
            rec = struct.pack('<B', en) + b'\0\0\0' + struct.pack('<i', special) + _field(exe, 260, junk) \
                  + _field(args, 260, junk) + struct.pack('<ii', longfn, chk) + _field(ens, 260, junk) \
                  + struct.pack('<i', upw)
            if not old:
                rec += struct.pack('<i', nowait)
            out.append(rec)
    return b''.join(out)


HANDMADE = ['v0.2_clean', 'junk_after_nul', 'pre_v2']


def check_handmade(acc: core.Acc, which: str) -> None:
    res = Result()
    case = {'part': PART, 'handmade': which}
    data = handmade(which)
    try:
        value = cmdseq.parse(io.BytesIO(data))
    except Exception as exc:  # noqa: BLE001
        res.fail('cmdseq_read_error', f'harness-encoded file {which}: parse raised {excs(exc)}')
    else:
        names = list(value)
        if names != ['Fast', 'Empty'] or [len(v) for v in value.values()] != [2, 0]:
            res.fail('cmdseq_value_mismatch', f'harness-encoded file {which} read as {_short(observe(value))}')
        roundtrip(value, res, f'value read from harness-encoded file {which}')
    acc.evaluations += 1
    if res.compared:
        acc.nontrivial += 1
    acc.outcome((PART, tuple(k for k, _ in res.fails) or 'ok', _digest(res.out)))
    for kind, detail in res.fails:
        acc.fail(kind, case, f'[cmdseq] {detail}', part=PART, cause='handmade:' + which)


# ---------------------------------------------------------------------------------------------

def _full_shard(spec) -> core.Acc:
    # spec = (indices of the first three features); the rest is the full product.  Attribution still
    # goes through Explorer.record (sub-selections memoised per worker).
    acc = core.Acc()
    names = EXPLORER.names
    head = list(zip(names[:3], spec))
    for idxs in itertools.product(*[range(len(FEATURES[n])) for n in names[3:]]):
        dev = tuple((n, i) for n, i in head + list(zip(names[3:], idxs)) if i)
        if dev and inert(dict(dev)):
            continue
        EXPLORER.record(acc, dev)
    return acc


RULE = ''


def run(ctx: core.Ctx) -> None:
    global RULE
    for which in HANDMADE:
        check_handmade(ctx.acc, which)
    if ctx.quick:
        d = 3
        n = EXPLORER.explore(ctx, d, chunk=400)
        how = f'base value + every choice of <= {d} of the {len(FEATURES)} features set to each non-base value ({n} values)'
    else:
        heads = list(itertools.product(*[range(len(FEATURES[x])) for x in EXPLORER.names[:3]]))
        k = ctx.seed % len(heads)
        core.par_map(_full_shard, heads[k:] + heads[:k], ctx.acc)
        n = ctx.acc.evaluations - len(HANDMADE)
        dev = EXPLORER.dev_sets(1)
        pick = list(dev)[(ctx.seed + 5) % 20]
        ctx.acc.sample(dict(EXPLORER.case_of(pick), written=_show(EXPLORER.run_dev(pick).out)),
                       limit=len(ctx.acc.samples) + 1)
        how = f'the full product of all feature values ({n} values; every deviation count 0..{len(FEATURES)})'
    RULE = (
        f'cmdseq.write -> cmdseq.parse on {how}. Features: sequence name and exe/args/ensure_file strings of length '
        f'0, 1, width-1, width of their fixed field (128 / 260 bytes) and one string holding every ASCII character '
        f'1..127; every SpecialCommand member as exe; enabled/use_proc_win/no_wait both ways; ensure_file None / "" '
        f'/ text; 0-3 sequences of 0-3 commands (fillers fixed and distinct). Representable = str fields are ASCII '
        f'without NUL and no longer than the field width (the writer raises ValueError/UnicodeEncodeError beyond '
        f'that; not demanded), sequence names distinct (dict keys). Plus {len(HANDMADE)} files laid out by the '
        f'harness\'s own encoder (clean 0.2, junk after the NUL, pre-0.2 records): the value read from each must be a '
        f'fixed point. Oracle: harness observer compares every field and its Python type, order of sequences and '
        f'commands; reader must consume the whole output; write(parse(write(x))) byte-identical. Non-trivial = the '
        f'reader returned a value that was compared. No cmdseq sample file exists under tests/.')
    ctx.rule = RULE


def replay(case: dict) -> list:
    if 'handmade' in case:
        acc = core.Acc()
        check_handmade(acc, case['handmade'])
        return acc.all_failures()
    return EXPLORER.replay(case)
