"""C10 - saving an unmodified BSP is lossless whichever lumps were looked at.

Explicit-state BFS on the real `srctools.bsp.BSP`: a state is reached by replaying a list of view reads
(real `ParsedLump.__get__`) on a freshly read file; states are deduplicated by
(set of parsed view keys, digest of every raw lump / game-lump payload still held, digest of the observer's
dump of the parsed views).  In every distinct state the file is saved to tmpfs, re-read and compared with
the original through an own container parser (raw lumps) and the independent observer (structured views).
"""
from __future__ import annotations

import hashlib
import os
import re
import time

from srctools import bsp as B
from srctools.math import Vec

from mcv import core
from checks import bspgen as G

PROPERTY = 'C10'
LEVEL = 'model_checking'

L = B.BSP_LUMPS
VIEW_KEY = {name: lumps[0] for name, lumps in G.VIEW_LUMPS.items()}   # view name -> key in BSP._parsed_lumps
KEY_VIEW = {v: k for k, v in VIEW_KEY.items()}


# ---------------------------------------------------------------------------------------------------------
# inputs

def input_name(spec) -> str:
    return '-'.join(str(x) for x in spec)


_BYTES: dict = {}


def input_bytes(spec) -> bytes:
    spec = tuple(spec)
    if spec not in _BYTES:
        if spec[0] == 'sample':
            _BYTES[spec] = G.trimmed_sample(int(spec[1]))
        else:
            _, layout, comp, gcomp = spec
            _BYTES[spec] = G.synth_file(layout, comp, bool(gcomp))[0]
    return _BYTES[spec]


def input_l4d2(spec) -> bool:
    return spec[0] == 'synth' and spec[1] == 'l4d2'


_PATHS: dict = {}
_BASE = None        # set by run() to ctx.scratch before the workers are forked


def scratch_dir() -> str:
    base = _BASE or f'/dev/shm/verif-C10-replay-{os.getpid()}'
    d = os.path.join(base, f'w{os.getpid()}')
    if not os.path.isdir(d):
        os.makedirs(d, exist_ok=True)
    return d


def input_path(spec) -> str:
    """Each process keeps its own copy of the input so nothing is shared between workers."""
    key = (tuple(spec), os.getpid())
    if key not in _PATHS or not os.path.exists(_PATHS[key]):
        p = os.path.join(scratch_dir(), input_name(spec) + '.bsp')
        with open(p, 'wb') as f:
            f.write(input_bytes(spec))
        _PATHS[key] = p
    return _PATHS[key]


_REF: dict = {}


def reference(spec) -> dict:
    """Own parse + observation of the untouched input (once per process)."""
    spec = tuple(spec)
    if spec not in _REF:
        raw = input_bytes(spec)
        parsed = G.parse_file(raw, input_l4d2(spec))
        obs = G.observe(B.BSP(input_path(spec)))
        _REF[spec] = {'parsed': parsed, 'obs': obs}
    return _REF[spec]


# ---------------------------------------------------------------------------------------------------------
# state

def state_key(bsp) -> tuple[str, list]:
    parsed = sorted(KEY_VIEW.get(k, repr(k)) for k in bsp._parsed_lumps)
    h = hashlib.sha1()
    for lump in bsp.lumps.values():
        h.update(b'%d:%d:%d:%d|' % (lump.type.value, lump.version, lump.is_compressed, len(lump.data)))
        h.update(lump.data)
    for gl in bsp.game_lumps.values():
        h.update(b'%s:%d:%d:%d|' % (gl.id, gl.flags, gl.version, len(gl.data)))
        h.update(gl.data)
    obs = G.digest(G.observe_parsed(bsp))
    return G.digest([parsed, h.hexdigest(), obs, bsp.static_prop_version.name, bsp.out_comma_sep]), parsed


def _acc_packfile(bsp):
    with bsp.packfile() as z:
        return z.namelist()


def _acc_vis_helpers(bsp):
    out = [bsp.is_cordoned_heuristic()]
    leafs = list(bsp.visleafs)
    for a in leafs[:3]:
        for b_ in leafs[:3]:
            out.append(bsp.is_potentially_visible(a, b_))
    if list(bsp.nodes):
        root = bsp.vis_tree()
        out.append(len(list(root.iter_leafs())))
        out.append(root.test_point(Vec(1.0, 2.0, 3.0)) is not None)
    return out


def _quiet_deprecated(fn):
    def run(bsp):
        import warnings
        with warnings.catch_warnings():
            warnings.simplefilter('ignore', DeprecationWarning)
            return fn(bsp)
    return run


# read-only accessors that are not lazily parsed views (looking at a lump through them must change nothing either)
ACCESSORS = {
    'acc_get_lumps': lambda bsp: [len(bsp.get_lump(lmp)) for lmp in B.BSP_LUMPS],
    'acc_game_lumps': lambda bsp: [len(bsp.get_game_lump(gid)) for gid in list(bsp.game_lumps)],
    'acc_texture_names': lambda bsp: list(bsp.read_texture_names()),
    'acc_read_ent_data': _quiet_deprecated(lambda bsp: len(bsp.read_ent_data().entities)),
    'acc_static_prop_models': lambda bsp: list(bsp.static_prop_models()),
    'acc_static_props': _quiet_deprecated(lambda bsp: len(list(bsp.static_props()))),
    'acc_packfile': _acc_packfile,
    'acc_vis_helpers': _acc_vis_helpers,
    'acc_noop_deprecated': _quiet_deprecated(lambda bsp: (bsp.read_header(), bsp.read_game_lumps())),
}


def replay_history(spec, history) -> B.BSP:
    bsp = B.BSP(input_path(spec))
    for view in history:
        if view in ACCESSORS:
            ACCESSORS[view](bsp)
        else:
            getattr(bsp, view)
    return bsp


def strip_idx(path: str) -> str:
    return re.sub(r'\[\d+\]', '', path).lstrip('.')


# ---------------------------------------------------------------------------------------------------------
# the per-state oracle

def lump_name(i: int) -> str:
    return L(i).name


def check_state(acc: core.Acc, spec, history: list) -> None:
    spec = tuple(spec)
    ref = reference(spec)
    case = {'input': list(spec), 'history': list(history)}
    lay = 'sample' if spec[0] != 'synth' else spec[1] if spec[1] in ('chaos', 'vitamin') else 'std'

    def fail(kind, detail, **sig):
        acc.fail(kind, case, f'input={input_name(spec)} history={history}: {detail}', layout_class=lay, **sig)

    acc.evaluations += 1
    if history:
        acc.nontrivial += 1
    try:
        bsp = replay_history(spec, history)
    except Exception as exc:  # noqa: BLE001
        fail('access_raises', f'{type(exc).__name__}: {exc}', view=history[-1] if history else '')
        return
    key0, parsed = state_key(bsp)
    # self loops: reading an already parsed view must not change the state
    for view in parsed:
        if view in G.VIEW_LUMPS:
            getattr(bsp, view)
            acc.count('transitions_selfloop')
    if state_key(bsp)[0] != key0:
        fail('reaccess_changes_state', 'reading already parsed views changed the state', view='*')
    d = scratch_dir()
    p1 = os.path.join(d, 'save1.bsp')
    p2 = os.path.join(d, 'save2.bsp')
    p3 = os.path.join(d, 'save3.bsp')
    try:
        with G.quiet():
            bsp.save(p1)
    except Exception as exc:  # noqa: BLE001
        fail('save_raises', f'{type(exc).__name__}: {exc}', exc=type(exc).__name__)
        acc.outcome(('save_raises', type(exc).__name__))
        return
    with open(p1, 'rb') as f:
        saved = f.read()
    orig = ref['parsed']
    try:
        new = G.parse_file(saved, input_l4d2(spec))
    except Exception as exc:  # noqa: BLE001
        fail('saved_file_unparseable', f'own container parser: {type(exc).__name__}: {exc}')
        return
    nfail = sum(acc.fail_counts.values())
    # header
    for fld in ('magic', 'version', 'revision'):
        if orig[fld] != new[fld]:
            fail('header_changed', f'{fld}: {orig[fld]!r} -> {new[fld]!r}', field=fld)
    # lump directory
    for i in range(G.NLUMPS):
        a, b_ = orig['lumps'][i], new['lumps'][i]
        if a['ver'] != b_['ver']:
            fail('lump_header_changed', f'{lump_name(i)} version {a["ver"]} -> {b_["ver"]}', lump=lump_name(i), field='version')
        if i != L.GAME_LUMP.value and a['comp'] != b_['comp']:
            fail('lump_header_changed', f'{lump_name(i)} compressed {a["comp"]} -> {b_["comp"]}', lump=lump_name(i), field='compressed')
    ga = [(g['id'], g['flags'], g['ver']) for g in orig['game']]
    gb = [(g['id'], g['flags'], g['ver']) for g in new['game']]
    if ga != gb:
        fail('gamelump_header_changed', f'{ga} -> {gb}')
    # lumps without a structured view: byte-identical (after decompression)
    for i in G.RAW_LUMP_IDS:
        if orig['lumps'][i]['data'] != new['lumps'][i]['data']:
            fail('raw_lump_changed', f'{lump_name(i)}: {len(orig["lumps"][i]["data"])} bytes -> {len(new["lumps"][i]["data"])} bytes',
                 lump=lump_name(i))
    for g1 in orig['game']:
        if g1['id'] in (b'sprp', b'dprp'):
            continue
        g2 = next((g for g in new['game'] if g['id'] == g1['id']), None)
        if g2 is None or g2['data'] != g1['data']:
            fail('raw_lump_changed', f'game lump {g1["id"]!r} changed', lump=g1['id'].decode('latin1'))
    # no access at all: everything byte-identical
    if not history:
        for i in range(G.NLUMPS):
            if i != L.GAME_LUMP.value and orig['lumps'][i]['data'] != new['lumps'][i]['data']:
                fail('noaccess_lump_changed', f'{lump_name(i)} differs although no view was read', lump=lump_name(i))
        for g1, g2 in zip(orig['game'], new['game']):
            if g1['data'] != g2['data']:
                fail('noaccess_lump_changed', f'game lump {g1["id"]!r} differs although no view was read', lump=g1['id'].decode('latin1'))
    # structured views: observer-equal
    try:
        reread = B.BSP(p1)
        obs = G.observe(reread)
    except Exception as exc:  # noqa: BLE001
        fail('reread_raises', f'{type(exc).__name__}: {exc}', exc=type(exc).__name__)
        return
    obs0 = ref['obs']
    for name in G.OBSERVE_ORDER + ['texdata', 'extras', 'bmodels_stray']:
        diff = G.first_diff(obs0.get(name), obs.get(name), name)
        if diff:
            fail('view_changed', f'parsed content differs after save+re-read at {diff}', view=name,
                 field=strip_idx(diff.split(':')[0]))
    # saving the re-read file again (untouched) changes nothing.  On the fully compressed inputs this clause and the
    # next are evaluated in the initial state only: one save of such a file costs ~45 LZMA encoder set-ups (17 ms
    # of page zeroing each), and neither clause depends on which views were read once the re-read file is observer-equal.
    all_comp = spec[0] == 'synth' and spec[2] == 'all'
    if all_comp and history:
        acc.outcome((len(parsed), 'ok' if sum(acc.fail_counts.values()) == nfail else 'fail'))
        return
    try:
        again = B.BSP(p1)
        with G.quiet():
            again.save(p2)
        with open(p2, 'rb') as f:
            saved2 = f.read()
        if saved2 != saved:
            fail('resave_differs', f'second save of the re-read file differs ({len(saved)} -> {len(saved2)} bytes)')
    except Exception as exc:  # noqa: BLE001
        fail('resave_raises', f'{type(exc).__name__}: {exc}', exc=type(exc).__name__)
    # ... and neither does saving the same object a second time
    try:
        with G.quiet():
            bsp.save(p3)
        with open(p3, 'rb') as f:
            saved3 = f.read()
        if saved3 != saved:
            new3 = G.parse_file(saved3, input_l4d2(spec))
            which = [lump_name(i) for i in range(G.NLUMPS) if i != L.GAME_LUMP.value and new3['lumps'][i]['data'] != new['lumps'][i]['data']]
            fail('resave_same_object_differs', f'saving the same BSP object twice gives different files; lumps {which}',
                 lump=(which[0] if which else 'container'))
    except Exception as exc:  # noqa: BLE001
        fail('resave_same_object_raises', f'{type(exc).__name__}: {exc}', exc=type(exc).__name__)
    acc.outcome((len(parsed), 'ok' if sum(acc.fail_counts.values()) == nfail else 'fail'))


def check_unreadable_view(acc: core.Acc, layout: str, which: str) -> None:
    """A view whose lump cannot be parsed: the attempt raises (the caller catches it); looking at it - before or after
    other views - must still not empty or corrupt the lump on save."""
    raw, _world = G.synth_file(layout, 'none', False, broken=which)
    view = {'ents': 'ents', 'sprp': 'props'}[which]
    others = ['planes', 'textures', 'pakfile', 'detail_props' if which == 'sprp' else 'props']
    orig = G.parse_file(raw, layout == 'l4d2')
    d = scratch_dir()
    src = os.path.join(d, f'broken-{layout}-{which}.bsp')
    with open(src, 'wb') as f:
        f.write(raw)
    histories = [[view]] + [[view, o] for o in others] + [[o, view] for o in others] + [[view, view]]
    for history in histories:
        acc.evaluations += 1
        acc.nontrivial += 1
        case = {'unreadable': [layout, which], 'history': history}
        bsp = B.BSP(src)
        raised = []
        for v in history:
            try:
                getattr(bsp, v)
            except Exception as exc:  # noqa: BLE001 - expected for the unreadable view
                raised.append((v, type(exc).__name__))
        if view not in [v for v, _ in raised]:
            acc.count('unreadable_view_was_readable')     # then re-serialisation is legitimate; nothing to demand here
            continue
        out = os.path.join(d, 'broken-out.bsp')
        try:
            with G.quiet():
                bsp.save(out)
            with open(out, 'rb') as f:
                new = G.parse_file(f.read(), layout == 'l4d2')
        except Exception as exc:  # noqa: BLE001
            acc.fail('save_raises', case, f'unreadable {which} on {layout}, history {history}: save failed: {type(exc).__name__}: {exc}',
                     exc=type(exc).__name__, layout_class='std', view=view)
            continue
        acc.outcome(('unreadable', which, len(history), tuple(raised) != ()))
        if which == 'ents':
            a, b_ = orig['lumps'][L.ENTITIES.value]['data'], new['lumps'][L.ENTITIES.value]['data']
        else:
            a = next(g['data'] for g in orig['game'] if g['id'] == b'sprp')
            b_ = next((g['data'] for g in new['game'] if g['id'] == b'sprp'), None)
        if a != b_:
            acc.fail('unreadable_view_lump_changed', case,
                     f'{layout}: the {which} lump cannot be parsed (view access raised {raised}); after history {history} and save() it '
                     f'changed from {len(a)} to {len(b_) if b_ is not None else "no"} bytes', view=view, layout_class='std')


def check_reader_vs_encoder(acc: core.Acc, spec) -> None:
    """Precondition of the whole search: the library's readers, fed the independently encoded file, yield
    exactly the world that was encoded."""
    spec = tuple(spec)
    if spec[0] != 'synth':
        return
    world = G.make_world(spec[1])
    obs = reference(spec)['obs']
    case = {'input': list(spec), 'precheck': True}
    for name in G.OBSERVE_ORDER + ['texdata', 'extras']:
        diff = G.first_diff(world.get(name), obs.get(name), name)
        if diff:
            acc.fail('reader_vs_encoder', case, f'input={input_name(spec)}: library reader disagrees with the independent encoder at {diff}',
                     view=name, field=strip_idx(diff.split(':')[0]),
                     layout_class=spec[1] if spec[1] in ('chaos', 'vitamin') else 'std')
    acc.evaluations += 1


def check_explicit_version(acc: core.Acc, spec) -> None:
    """The constructor's second argument (the version the caller expects, here the file's own): same views, lossless save."""
    spec = tuple(spec)
    case = {'input': list(spec), 'history': [], 'explicit_version': True}
    lay = 'sample' if spec[0] != 'synth' else spec[1] if spec[1] in ('chaos', 'vitamin') else 'std'
    obs0 = reference(spec)['obs']
    acc.evaluations += 1
    try:
        ver = B.BSP(input_path(spec)).version
        if not isinstance(ver, B.VERSIONS):
            acc.count('explicit_version_skipped_unknown_version')
            return
        bsp = B.BSP(input_path(spec), ver)
        obs = G.observe(bsp)
        out = os.path.join(scratch_dir(), 'explicit_version.bsp')
        with G.quiet():
            bsp.save(out)
        obs2 = G.observe(B.BSP(out, ver))
    except Exception as exc:  # noqa: BLE001
        acc.fail('explicit_version_raises', case, f'input={input_name(spec)}: BSP(path, {ver if "ver" in dir() else "?"}) / views / save raised {type(exc).__name__}: {exc}',
                 layout_class=lay, exc=type(exc).__name__)
        return
    for stage, o in (('opened with the expected version given', obs), ('saved and re-read with the expected version given', obs2)):
        for name in G.OBSERVE_ORDER + ['texdata', 'extras']:
            diff = G.first_diff(obs0.get(name), o.get(name), name)
            if diff:
                acc.fail('view_changed', case, f'input={input_name(spec)} {stage} ({ver}): differs from the plain open at {diff}',
                         layout_class=lay, view=name, field=strip_idx(diff.split(':')[0]))
                return


# ---------------------------------------------------------------------------------------------------------
# footprint monitor (evidence + search order)

def footprints(spec) -> dict:
    """Which views does each reader / writer touch?  Wraps ParsedLump.__get__/__set__ and the save functions;
    a nested read is attributed to the innermost reader or writer that triggered it."""
    stack: list = []                      # ('r' | 'w', view name)
    table: dict = {'r': {}, 'w': {}}
    orig_get, orig_set = B.ParsedLump.__get__, B.ParsedLump.__set__
    saved_funcs = dict(B.BSP._save_funcs)

    def mon_get(self, instance, owner=None):
        if instance is None:
            return orig_get(self, instance, owner)
        if stack:
            kind, name = stack[-1]
            table[kind].setdefault(name, set()).add(self.__name__)
        stack.append(('r', self.__name__))
        try:
            return orig_get(self, instance, owner)
        finally:
            stack.pop()

    def mon_set(self, instance, value):
        if stack:
            kind, name = stack[-1]
            table[kind].setdefault(name, set()).add(self.__name__ + ' (assigned)')
        return orig_set(self, instance, value)

    def wrap(key, fn):
        def inner(self_, data):
            stack.append(('w', KEY_VIEW.get(key, repr(key))))
            try:
                res = fn(self_, data)
                if hasattr(res, '__next__'):
                    res = b''.join(res)
                return res
            finally:
                stack.pop()
        return inner

    B.ParsedLump.__get__ = mon_get
    B.ParsedLump.__set__ = mon_set
    for key, fn in saved_funcs.items():
        B.BSP._save_funcs[key] = wrap(key, fn)
    try:
        for view in G.VIEWS:
            bsp = B.BSP(input_path(spec))
            table['r'].setdefault(view, set())
            table['w'].setdefault(view, set())
            try:
                getattr(bsp, view)
                with G.quiet():
                    bsp.save(os.path.join(scratch_dir(), 'fp.bsp'))
            except Exception:  # noqa: BLE001
                pass
    finally:
        B.ParsedLump.__get__ = orig_get
        B.ParsedLump.__set__ = orig_set
        B.BSP._save_funcs.update(saved_funcs)
    return {'read': {k: sorted(v - {k}) for k, v in sorted(table['r'].items())},
            'write': {k: sorted(v) for k, v in sorted(table['w'].items())}}


# ---------------------------------------------------------------------------------------------------------
# BFS driver

class BAcc(core.Acc):
    def __init__(self) -> None:
        super().__init__()
        self.results: list = []

    def merge(self, other) -> None:  # type: ignore[override]
        super().merge(other)
        self.results.extend(getattr(other, 'results', []))


def shard(spec) -> core.Acc:
    acc = BAcc()
    kind = spec[0]
    if kind == 'probe':
        _, inp, histories = spec
        for h in histories:
            try:
                bsp = replay_history(inp, h)
                key, parsed = state_key(bsp)
            except Exception as exc:  # noqa: BLE001
                key, parsed = 'EXC:' + type(exc).__name__ + ':' + h[-1], None
            acc.results.append((tuple(inp), tuple(h), key, parsed))
            acc.count('traces_probe')
    elif kind == 'check':
        _, inp, histories = spec
        for h in histories:
            check_state(acc, inp, list(h))
            acc.count('traces_check')
        acc.sample({'input': list(inp), 'history': list(histories[0])}, 1)
    elif kind == 'pre':
        check_reader_vs_encoder(acc, spec[1])
        check_explicit_version(acc, spec[1])
        if tuple(spec[1])[2] != 'all':       # (each save of a fully compressed input costs ~45 LZMA set-ups)
            for name in ACCESSORS:
                check_state(acc, spec[1], [name])
                acc.count('traces_accessor')
            check_state(acc, spec[1], list(ACCESSORS))
            check_state(acc, spec[1], ['acc_static_props', 'props', 'acc_read_ent_data', 'ents', 'acc_packfile', 'pakfile'])
            for a_name, view in (('acc_packfile', 'pakfile'), ('acc_static_props', 'props'), ('acc_static_prop_models', 'props'),
                                 ('acc_read_ent_data', 'ents'), ('acc_texture_names', 'textures'), ('acc_vis_helpers', 'visibility'),
                                 ('acc_vis_helpers', 'nodes'), ('acc_get_lumps', 'planes'), ('acc_game_lumps', 'detail_props')):
                check_state(acc, spec[1], [view, a_name])          # the parsed view first, then the accessor
                check_state(acc, spec[1], [a_name, view, a_name])
    elif kind == 'unreadable':
        check_unreadable_view(acc, spec[1], spec[2])
    return acc


def order_views(fp: dict) -> list:
    size = {v: len(fp['read'].get(v, [])) + len(fp['write'].get(v, [])) for v in G.VIEWS}
    return sorted(G.VIEWS, key=lambda v: (-size[v], v))


def explore(ctx: core.Ctx, inputs: list, depth_of, deadline: float, view_order: list, stage: str) -> dict:
    """Level-synchronous BFS over all given inputs at once.  depth_of(spec) = maximal history length for that
    input (None = unbounded).  Returns the statistics of this stage."""
    acc = ctx.acc
    usable = []
    for s in inputs:     # built once in the parent, inherited by the forked workers
        try:
            reference(s)
            usable.append(s)
        except Exception as exc:  # noqa: BLE001 - a well-formed input (the harness's own decoder reads it) that the library cannot open
            acc.evaluations += 1
            acc.fail('valid_input_unreadable', {'input': list(s), 'history': [], 'open_only': True},
                     f'input={input_name(tuple(s))}: opening + observing the untouched file raised {type(exc).__name__}: {exc}',
                     exc=type(exc).__name__)
    inputs = usable

    pre = BAcc()
    core.par_map(shard, [('pre', s) for s in inputs if s[0] == 'synth'], pre)
    acc.merge(pre)

    seen: dict = {tuple(s): {} for s in inputs}          # input -> state key -> canonical history
    frontier: dict = {tuple(s): [()] for s in inputs}    # candidate histories for this level
    done_depth: dict = {tuple(s): -1 for s in inputs}
    transitions = 0
    traces = 0
    depth = 0
    capped = False
    while any(frontier.values()):
        # phase A: execute every candidate history, learn its state
        shards = []
        for s, hs in frontier.items():
            for chunk in core.chunked(hs, 64):
                shards.append(('probe', s, chunk))
        a = BAcc()
        if not core.par_map(shard, shards, a, deadline=deadline):
            capped = True
            acc.caps.append(f'{stage}: time cap hit while probing histories of length {depth}; every state reached by <= {depth - 1} reads was checked for all inputs of this stage')
            acc.merge(a)
            break
        acc.merge(a)
        traces += len(a.results)
        transitions += len(a.results) - (len(inputs) if depth == 0 else 0)
        new_states: dict = {s: [] for s in frontier}
        for inp, h, key, parsed in sorted(a.results, key=lambda r: (r[0], len(r[1]), [view_order.index(v) for v in r[1]])):
            if key not in seen[inp]:
                seen[inp][key] = h
                new_states[inp].append((h, parsed))
        # phase B: the oracle in every new state
        shards = []
        for s, lst in new_states.items():
            for chunk in core.chunked([h for h, _ in lst], 16):
                shards.append(('check', s, chunk))
        b_ = BAcc()
        ok = core.par_map(shard, shards, b_, deadline=deadline)
        acc.merge(b_)
        traces += b_.counters.get('traces_check', 0)
        if not ok:
            capped = True
            acc.caps.append(f'{stage}: time cap hit while checking the states first reached by {depth} reads; every state reached by <= {depth - 1} reads was checked for all inputs of this stage')
            break
        for s in frontier:
            done_depth[s] = depth
        # successors
        nxt: dict = {}
        for s, lst in new_states.items():
            lim = depth_of(s)
            if lim is not None and depth >= lim:
                nxt[s] = []
                continue
            cand = []
            for h, parsed in lst:
                if parsed is None:
                    continue
                for v in view_order:
                    if v not in parsed:
                        cand.append(h + (v,))
            nxt[s] = cand
        frontier = nxt
        depth += 1
    return {'states': sum(len(v) for v in seen.values()), 'transitions': transitions, 'traces': traces,
            'states_per_input': {input_name(s): len(v) for s, v in seen.items()},
            'depth_completed_per_input': {input_name(s): d for s, d in done_depth.items()},
            'exhausted': {input_name(s): (not capped and depth_of(s) is None) for s in seen}, 'capped': capped}


def all_inputs() -> list:
    out = [('sample', 40)]
    for lay in G.LAYOUT_NAMES:
        for comp in ('none', 'one', 'all'):
            for gc in (0, 1):
                out.append(('synth', lay, comp, gc))
    return out


def run(ctx: core.Ctx) -> None:
    inputs = all_inputs()
    def variant(s):
        if s[0] == 'sample':
            return ('none', 0) if s[1] > 0 else ('full-sample', 0)
        return (s[2], s[3])
    if ctx.quick:
        table = {('none', 0): 3, ('none', 1): 1, ('one', 0): 1, ('one', 1): 1, ('all', 1): 1, ('all', 0): 0}
        # the LZMA code path does not depend on the lump layout except for the L4D2 header order
        inputs = [s for s in inputs if variant(s)[0] != 'all' or s[1] in ('v20', 'l4d2')]
        deadline = ctx.t0 + 600
    else:
        table = {('none', 0): None, ('none', 1): 3, ('one', 0): 3, ('one', 1): 3, ('all', 1): 2, ('all', 0): 1,
                 ('full-sample', 0): 1}
        inputs.append(('sample', 0))     # the untrimmed 824 KB sample (0.7 s per entity-lump parse)
        deadline = ctx.t0 + 14 * 60

    def depth_of(s):
        return table[variant(s)]
    ctx.coverage_extra['history_length_bound_per_variant'] = {f'{k[0]}-lzma_lumps/{"lzma" if k[1] else "raw"}_gamelumps': ('unbounded (full graph)' if v is None else v)
                                                              for k, v in table.items()}
    global _BASE
    _BASE = ctx.scratch
    try:
        fp = footprints(('synth', 'v20', 'none', 0))
        view_order = order_views(fp)
        ctx.coverage_extra['footprints'] = fp
        ctx.coverage_extra['view_order'] = view_order
        k = ctx.seed % len(view_order)
        view_order = view_order[k:] + view_order[:k]
        # stage 1: the cheap inputs (no LZMA on save) - these carry the deep / full-graph search;
        # stage 2: everything that has to run the LZMA encoder on every save, with what is left of the budget.
        cheap = [s for s in inputs if variant(s) in (('none', 0), ('full-sample', 0))]
        costly = [s for s in inputs if s not in cheap]
        core.par_map(shard, [('unreadable', lay, which) for lay in ('v20', 'l4d2', 'vitamin') for which in ('ents', 'sprp')], ctx.acc)
        stats = [explore(ctx, cheap, depth_of, deadline, view_order, 'stage 1 (uncompressed inputs)'),
                 explore(ctx, costly, depth_of, deadline, view_order, 'stage 2 (LZMA inputs)')]
    finally:
        _BASE = None        # replays after the run use (and remove) their own directory
    ce = ctx.coverage_extra
    ce['states'] = sum(st['states'] for st in stats)
    ce['transitions'] = sum(st['transitions'] for st in stats) + ctx.acc.counters.get('transitions_selfloop', 0)
    ce['traces_validated_against_impl'] = sum(st['traces'] for st in stats)
    for key in ('states_per_input', 'depth_completed_per_input', 'exhausted'):
        ce[key if key != 'exhausted' else 'full_graph_exhausted_per_input'] = {k: v for st in stats for k, v in st[key].items()}
    ce['full_graphs_exhausted'] = sum(1 for st in stats for v in st['exhausted'].values() if v)
    ctx.rule = (
        'inputs: tests/test_vec/rot_main.bsp with the entity lump cut to 40 entities + independently encoded, fully '
        'populated BSPs for 7 layouts (v19, v20, v21, L4D2 header order, INFRA v22, Chaos v25, VitaminSource v43) x '
        '{no, one (LEAFS), all} lumps LZMA-compressed x {raw, LZMA} game lumps. Besides the views, every input is opened with its own '
        'version given as the constructor argument, and (not the fully compressed ones) each read-only accessor that is not a lazily '
        'parsed view - get_lump, get_game_lump, read_texture_names, read_ent_data, static_prop_models, static_props, packfile() without '
        'edits, is_potentially_visible / vis_tree / is_cordoned_heuristic - is used alone, all together and mixed with the matching view, '
        'followed by the full save / re-read oracle. States: BFS over histories of '
        'reads of the 21 ParsedLump views, deduplicated by (parsed key set, digest of raw payloads, digest of parsed '
        'content); ' + ('quick: histories of <= 3 reads for the sample and the 7 uncompressed files; <= 1 read for the 21 '
                        'files with LZMA game lumps and/or one LZMA lump; fully compressed files for the layouts v20 and l4d2 '
                        'only (the LZMA path is layout independent but for the L4D2 header order): <= 1 read with LZMA game '
                        'lumps, the empty history with raw game lumps (one save of a fully compressed file costs ~45 LZMA '
                        'encoder set-ups of 17 ms). '
                        if ctx.quick else
                        'thorough: the full reachable graph for the sample and the 7 uncompressed files, histories of <= 3 reads '
                        'for the 21 partly compressed files, <= 2 reads (LZMA game lumps) / <= 1 read (raw game lumps) for the 14 '
                        'fully compressed ones, <= 1 read for the untrimmed sample. ') +
        'In every state: save -> own container parse + re-read -> header/lump versions/flags equal, view-less lumps '
        'byte-identical, views observer-equal (index form), second save of the re-read file byte-identical, second save of '
        'the same object byte-identical (these two clauses only in the initial state on fully compressed files), re-reading '
        'parsed views is a self loop. Plus 6 inputs with an UNPARSEABLE view (unterminated entity / unsupported static-prop version): the '
        'failing access before/after other reads must leave that lump byte-identical on save. Non-trivial = history non-empty.')
    ctx.assumptions += [
        'synthesised files: lump payloads are packed by checks/bspgen.py with struct; only the per-version struct tables '
        'LUMP_LAYOUT_* of srctools.bsp are reused as trusted data. The library readers are cross-checked against the encoded '
        'world before the search (failure kind reader_vs_encoder).',
        'the pakfile lump and the game-lump container are never LZMA-compressed in the inputs (the format does not do that); '
        'empty lumps are never marked compressed; game lumps are laid out contiguously with a trailing id-0 entry as bspzip does.',
        'VitaminSource input: PRIMITIVES/ORIGINALFACES/FACES_HDR lumps are empty (the format no longer uses them); leaf bounds are non-negative.',
        'entity key order inside one entity is not part of the parsed content (an Entity is a mapping); output order is.',
        'TEXDATA record order is not observable through the parsed view and is not compared; unreferenced brush models are not observable.',
    ]


def replay(case: dict) -> list:
    acc = core.Acc()
    if 'unreadable' in case:
        try:
            check_unreadable_view(acc, *case['unreadable'])
        finally:
            import shutil
            if _BASE is None:
                shutil.rmtree(f'/dev/shm/verif-C10-replay-{os.getpid()}', ignore_errors=True)
        return [f for f in acc.all_failures() if f.case.get('history') == case.get('history')]
    spec = tuple(case['input'])
    try:
        if case.get('explicit_version'):
            check_explicit_version(acc, spec)
        elif case.get('open_only'):
            try:
                _REF.pop(spec, None)
                reference(spec)
            except Exception as exc:  # noqa: BLE001
                acc.fail('valid_input_unreadable', case, f'{type(exc).__name__}: {exc}', exc=type(exc).__name__)
        elif case.get('precheck'):
            check_reader_vs_encoder(acc, spec)
        else:
            check_state(acc, spec, list(case['history']))
    finally:
        import shutil
        if _BASE is None:
            shutil.rmtree(f'/dev/shm/verif-C10-replay-{os.getpid()}', ignore_errors=True)
            _PATHS.clear()
    return acc.all_failures()
