"""C20 — secondary format writers emit files their own readers reproduce.

Aggregator: each format lives in checks/c20_<part>.py exposing

    def run(ctx) -> None          # records into ctx.acc; every case dict carries 'part': '<part>'
    def replay(case) -> list[core.Failure]
"""
from __future__ import annotations

import importlib
import os

from mcv import core

PROPERTY = 'C20'
LEVEL = 'exploration'
PARTS = ['cmdseq', 'sndscript', 'vmt', 'smd', 'choreo', 'pcf']


def _load(part: str):
    if not os.path.exists(os.path.join(os.path.dirname(__file__), f'c20_{part}.py')):
        return None
    return importlib.import_module(f'checks.c20_{part}')


def run(ctx: core.Ctx) -> None:
    rules = []
    for part in PARTS:
        mod = _load(part)
        if mod is None:
            ctx.acc.caps.append(f'part {part} not built')
            continue
        before = ctx.acc.evaluations
        mod.run(ctx)
        ctx.acc.count(f'evaluations_{part}', ctx.acc.evaluations - before)
        rules.append(f'[{part}] {getattr(mod, "RULE", ctx.rule)}')
    ctx.rule = ' '.join(rules)


def replay(case: dict) -> list:
    mod = _load(case['part'])
    return mod.replay(case)
