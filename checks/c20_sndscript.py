"""C20 / sndscript — soundscripts: Sound.export -> Keyvalues.parse(allow_escapes=False) -> Sound.parse.

The text -> Keyvalues step is the one srctools itself uses for soundscript files
(packlist._load_soundscript: `Keyvalues.parse(f, path, allow_escapes=False)`; the game's soundscript
reader knows no escapes either).
"""
from __future__ import annotations

import io
from typing import Any

from srctools import sndscript
from srctools.keyvalues import Keyvalues
from srctools.sndscript import Channel, Level, Pitch, Sound, VOL_NORM

from mcv import core
from checks.c20_cmdseq import Explorer, Result, excs

PART = 'sndscript'

# ---------------------------------------------------------------------------------------------
# descriptors (plain JSON) -> real values
#   interval element: a float, or the name of an enum constant ('SNDLVL_80dB', 'VOL_NORM', 'PITCH_LOW')
#   channel: int, or a Channel member name
#   stack: None, or a list of nodes; node = [name, str] (leaf) or [name, [nodes]] (block)


def _elem(x: Any, enum: Any) -> Any:
    if isinstance(x, str):
        return VOL_NORM if x == 'VOL_NORM' else enum[x]
    return float(x)


def _interval(desc: list, enum: Any) -> tuple:
    return (_elem(desc[0], enum), _elem(desc[1], enum))


def _kv(node: list) -> Keyvalues:
    name, val = node
    if isinstance(val, list):
        return Keyvalues(name, [_kv(c) for c in val])
    return Keyvalues(name, val)


def _stack(desc: Any) -> Any:
    if desc is None:
        return None
    return Keyvalues('', [_kv(n) for n in desc])


def build_one(s: dict) -> Sound:
    ch = s['channel']
    return Sound(
        s['name'], list(s['sounds']),
        volume=_interval(s['volume'], None),
        channel=Channel[ch] if isinstance(ch, str) else ch,
        level=_interval(s['level'], Level),
        pitch=_interval(s['pitch'], Pitch),
        stack_start=_stack(s['stack_start']), stack_update=_stack(s['stack_update']),
        stack_stop=_stack(s['stack_stop']),
        force_v2=s['force_v2'],
    )


FILLER = {
    'name': 'Second.Sound', 'sounds': ['*music/second.mp3', 'music/third.mp3'], 'volume': [0.25, 0.25],
    'channel': 'STREAMING', 'level': ['SNDLVL_NONE', 'SNDLVL_NONE'], 'pitch': ['PITCH_HIGH', 'PITCH_HIGH'],
    'stack_start': None, 'stack_update': [['op', [['k', 'v']]]], 'stack_stop': None, 'force_v2': False,
}


def build(setting: dict) -> list:
    sounds = [build_one(setting)]
    if setting['file'] == 'two_sounds':
        sounds.append(build_one(FILLER))
    elif setting['file'] == 'second_first':
        sounds.insert(0, build_one(FILLER))
    return sounds


# ---------------------------------------------------------------------------------------------
# observer

def _num(x: Any) -> Any:
    """One interval element.  Pitch is a float-valued enum whose constants *are* their numbers
    (PITCH_NORM == 100.0, and the default pitch is written by omission), so pitch is observed by value;
    VOL_NORM and the SNDLVL_* constants are distinct symbols and are observed as such."""
    if isinstance(x, Pitch):
        return ('num', float(x.value))
    if isinstance(x, (Level, sndscript.VOLUME)):
        return ('const', x.name)
    if isinstance(x, bool) or not isinstance(x, (int, float)):
        return ('BAD', repr(x))
    return ('num', float(x))


def _obs_interval(v: Any) -> Any:
    if not isinstance(v, tuple) or len(v) != 2:
        return ('BAD', repr(v))
    return (_num(v[0]), _num(v[1]))


def _obs_kv(kv: Keyvalues) -> Any:
    if kv.has_children():
        return (kv.real_name, [_obs_kv(c) for c in kv])
    return (kv.real_name, kv.value)


def _obs_stack(kv: Any) -> Any:
    # None and an empty stack are the same value (the stack_* properties create an empty tree on access).
    if kv is None:
        return []
    return [_obs_kv(c) for c in kv]


def observe(snd: Sound) -> Any:
    ch = snd.channel
    return {
        'name': snd.name,
        'sounds': [(type(w).__name__, w) for w in snd.sounds],
        'volume': _obs_interval(snd.volume),
        'channel': ('const', ch.name) if isinstance(ch, Channel) else (type(ch).__name__, ch),
        'level': _obs_interval(snd.level),
        'pitch': _obs_interval(snd.pitch),
        'stack_start': _obs_stack(snd._stack_start),
        'stack_update': _obs_stack(snd._stack_update),
        'stack_stop': _obs_stack(snd._stack_stop),
        'v2': bool(snd.force_v2 or snd._stack_start or snd._stack_update or snd._stack_stop),
    }


# numeric values of the PITCH_* constants (SDK soundflags.h), held by the harness independently of the library
PITCH_VALUES = {'PITCH_NORM': 100.0, 'PITCH_LOW': 95.0, 'PITCH_HIGH': 120.0}


def _exp_elem(x: Any) -> tuple:
    if isinstance(x, str):
        return ('num', PITCH_VALUES[x]) if x in PITCH_VALUES else ('const', x)
    return ('num', float(x))


def _exp_tree(nodes: Any) -> list:
    return [(name, _exp_tree(val) if isinstance(val, list) else val) for name, val in (nodes or [])]


def expected_one(s: dict) -> dict:
    """What observe() must yield, computed from the plain descriptors."""
    ch = s['channel']
    stacks = {k: _exp_tree(s[k]) for k in ('stack_start', 'stack_update', 'stack_stop')}
    return {
        'name': s['name'],
        'sounds': [('str', w) for w in s['sounds']],
        'volume': (_exp_elem(s['volume'][0]), _exp_elem(s['volume'][1])),
        'channel': ('const', ch) if isinstance(ch, str) else ('int', ch),
        'level': (_exp_elem(s['level'][0]), _exp_elem(s['level'][1])),
        'pitch': (_exp_elem(s['pitch'][0]), _exp_elem(s['pitch'][1])),
        **stacks,
        'v2': bool(s['force_v2'] or any(stacks.values())),
    }


def expected(setting: dict) -> list:
    out = [expected_one(setting)]
    if setting['file'] == 'two_sounds':
        out.append(expected_one(FILLER))
    elif setting['file'] == 'second_first':
        out.insert(0, expected_one(FILLER))
    return out


def write(sounds: list) -> str:
    buf = io.StringIO()
    for s in sounds:
        s.export(buf)
    return buf.getvalue()


def read(text: str) -> dict:
    return Sound.parse(Keyvalues.parse(text, 'c20.txt', allow_escapes=False))


def roundtrip(sounds: list, res: Result, what: str, want: Any = None) -> None:
    held = [observe(s) for s in sounds]
    if want is None:
        want = held
    elif held != want:
        res.fail('sndscript_value_mismatch', f'{what}: the constructed Sound does not hold the given value:\n'
                                             f' given {want!r}\n holds {held!r}'[:1500])
        return
    try:
        text = write(sounds)
    except Exception as exc:  # noqa: BLE001
        res.fail('sndscript_write_error', f'{what}: export raised {excs(exc)}')
        return
    res.out = text
    try:
        back = read(text)
    except Exception as exc:  # noqa: BLE001
        res.fail('sndscript_read_error', f'{what}: Sound.parse(Keyvalues.parse(export(x), allow_escapes=False)) raised '
                                         f'{excs(exc)}\n--- written ---\n{text[:900]}')
        return
    res.compared = True
    keys = list(back)
    got = [observe(s) for s in back.values()]
    wkeys = [s.name.casefold() for s in sounds]
    if keys != wkeys:
        res.fail('sndscript_value_mismatch', f'{what}: dict keys {keys!r}, expected the casefolded names {wkeys!r}\n'
                                             f'--- written ---\n{text[:900]}')
        return
    if got != want:
        diffs = []
        for w, g in zip(want, got):
            diffs += [f'{w["name"]}.{k}: wrote {w[k]!r} read {g[k]!r}' for k in w if w[k] != g[k]]
        res.fail('sndscript_value_mismatch', f'{what}: ' + '; '.join(diffs)[:900] + f'\n--- written ---\n{text[:900]}')
        return
    try:
        text2 = write(list(back.values()))
    except Exception as exc:  # noqa: BLE001
        res.fail('sndscript_rewrite_differs', f'{what}: second export raised {excs(exc)}')
        return
    if text2 != text:
        res.fail('sndscript_rewrite_differs', f'{what}: export(parse(export(x))) differs\n--- first ---\n{text[:600]}\n'
                                              f'--- second ---\n{text2[:600]}')


# ---------------------------------------------------------------------------------------------
# feature table

def _single(x: Any) -> list:
    return [x, x]


LEVELS = [m.name for m in Level]
CHANNELS = [m.name for m in Channel]

OP_SIMPLE = [['import_stack', 'CS_update_music_stereo'],
             ['mixer', [['mixgroup', 'Music'], ['volume', '0.5']]]]
OP_NESTED = [['update_track', [['input_execute', '1.0'],
                               ['sub', [['entry_name', 'Default.Null'], ['deep', [['x', 'y z']]]]],
                               ['empty_block', []]]]]
OP_CASE = [['Mixed_Case.Name', [['UPPER', 'Value With Space'], ['dup', '1'], ['dup', '2']]]]
OP_BACKSLASH = [['op', [['file', 'sound\\music\\track.wav']]]]
OP_SPECIAL = [['op', [['v', "it's"], ['tab', 'a\tb'], ['empty', '']]]]


def _stack_values() -> list:
    return [('none', None), ('empty', []), ('simple', OP_SIMPLE), ('nested', OP_NESTED), ('case', OP_CASE),
            ('escapable', OP_BACKSLASH), ('escapable', OP_SPECIAL)]


FEATURES: dict = {
    'name': [('plain', 'Weapon_AR2.Single'), ('len1', 'a'), ('space', 'With Space.Name'), ('case', 'UPPER.lower'),
             ('apostrophe', "it's.sound"), ('slash', 'sla/sh'), ('backslash', 'back\\slash'),
             ('braces', 'br{ace}[x](y)'), ('long', 'x' * 200), ('non_ascii', 'café.Sound')],
    'sounds': [('one', ['weapons/ar2/fire1.wav']), ('none', []), ('two', ['a.wav', 'b.wav']),
               ('chars_backslash', [')*weapons\\fire.wav']), ('space', ['with space.wav']),
               ('three_dup', ['#x.wav', 'dup.wav', 'dup.wav']), ('empty_name', ['']),
               ('comment_like', ['a//b.wav', 'c/*d*/.wav'])],
    'channel': [('enum', 'DEFAULT')] + [('enum', n) for n in CHANNELS if n != 'DEFAULT']
               + [('int', 0), ('int', 8), ('int', 136), ('int', -1)],
    'level': [('enum', _single('SNDLVL_NORM'))] + [('enum', _single(n)) for n in LEVELS if n != 'SNDLVL_NORM']
             + [('float', _single(75.0)), ('float', _single(0.0)), ('float', _single(0.35)),
                ('range', ['SNDLVL_70dB', 'SNDLVL_90dB']), ('range', [60.0, 80.5]),
                ('range', ['SNDLVL_NORM', 90.0]), ('range', [65.0, 'SNDLVL_GUNFIRE'])],
    'volume': [('const', _single('VOL_NORM')), ('float', _single(1.0)), ('float', _single(0.5)),
               ('float', _single(0.0)), ('float', _single(1e-05)), ('float', _single(1.5e-10)), ('float', _single(2.5e+20)),
               ('range', [1.5e-10, 0.5]), ('range', [0.3, 0.7]),
               ('range', ['VOL_NORM', 0.5]), ('range', [0.5, 'VOL_NORM']), ('range', [1.0, 0.25])],
    'pitch': [('const', _single('PITCH_NORM')), ('float', _single(100.0)), ('const', _single('PITCH_LOW')),
              ('const', _single('PITCH_HIGH')), ('float', _single(95.0)), ('float', _single(255.0)),
              ('float', _single(1.5)), ('float', _single(1.25e-10)), ('range', [90.0, 110.0]), ('range', ['PITCH_LOW', 'PITCH_HIGH']),
              ('range', ['PITCH_NORM', 120.5]), ('range', [80.0, 'PITCH_NORM']), ('range', [100.0, 101.0])],
    'force_v2': [('false', False), ('true', True)],
    'stack_start': _stack_values(),
    'stack_update': _stack_values(),
    'stack_stop': _stack_values(),
    'file': [('one_sound', 'one_sound'), ('two_sounds', 'two_sounds'), ('second_first', 'second_first')],
}


def evaluate(setting: dict) -> Result:
    res = Result()
    try:
        sounds = build(setting)
    except Exception as exc:  # noqa: BLE001 - constructing a value from documented types must not fail
        res.fail('sndscript_write_error', f'constructing Sound raised {excs(exc)}')
        return res
    roundtrip(sounds, res, 'generated value', expected(setting))
    return res


GROUPS = {'volume': 'interval', 'level': 'interval', 'pitch': 'interval',
          'stack_start': 'stack', 'stack_update': 'stack', 'stack_stop': 'stack'}
EXPLORER = Explorer(PART, FEATURES, evaluate, None, GROUPS)

# The one soundscript the repository's tests carry (tests/test_sndscript.py::test_parse builds this tree;
# there is no soundscript sample *file* under tests/).
TEST_TREE = [['some.Sound', [['channel', 'CHAN_VoICE'], ['soundlevel', 'sndLVL_85db, 0.4'],
                             ['volume', '0.85, 0.95'], ['wave', ')util/some_sound.wav']]]]


def check_sample(acc: core.Acc) -> None:
    res = Result()
    case = {'part': PART, 'sample': 'test_parse'}
    try:
        value = Sound.parse(Keyvalues.root(*[_kv(n) for n in TEST_TREE]))
    except Exception as exc:  # noqa: BLE001
        res.fail('sndscript_read_error', f'tests/test_sndscript.py tree: Sound.parse raised {excs(exc)}')
    else:
        roundtrip(list(value.values()), res, 'value parsed from the tree in tests/test_sndscript.py::test_parse')
    acc.evaluations += 1
    if res.compared:
        acc.nontrivial += 1
    acc.outcome((PART, tuple(k for k, _ in res.fails) or 'ok', 'sample'))
    for kind, detail in res.fails:
        acc.fail(kind, case, f'[sndscript] {detail}', part=PART, cause='sample:test_parse')


RULE = ''


def run(ctx: core.Ctx) -> None:
    global RULE
    d = ctx.pick(2, 3)
    check_sample(ctx.acc)
    n = EXPLORER.explore(ctx, d, chunk=ctx.pick(120, 600))
    RULE = (
        f'Sound.export -> Keyvalues.parse(allow_escapes=False) (the reader srctools\' own packlist uses for soundscripts) '
        f'-> Sound.parse on the base sound + every choice of <= {d} of {len(FEATURES)} features set to each non-base '
        f'value ({n} values). Features: name (space, case, apostrophe, slash, backslash, brackets, 200 chars, non-ASCII); '
        f'wave lists of 0/1/2/3 incl. sound characters, backslash paths, duplicates, empty string, //-like text; every '
        f'Channel member and ints; every Level member, float levels, level ranges (const/const, float/float, mixed); '
        f'volume VOL_NORM / floats / ranges incl. mixed with VOL_NORM; pitch constants / floats / ranges; force_v2; each '
        f'of the three operator stacks None / empty / flat / nested 3 deep / mixed-case and duplicate keys / backslash '
        f'value / apostrophe-tab-empty values; one or two sounds per file. Representable = text without the double-quote '
        f'character and without CR/LF (the format has no escapes), floats finite, operator-stack block names plain. '
        f'Oracle: harness observer field by field (pitch by numeric value since PITCH_* are float constants and the '
        f'default is written by omission; VOL_NORM / SNDLVL_* as symbols; stacks as trees, None == empty), dict key == '
        f'casefolded name, order of sounds; export(parse(export(x))) text-identical. Plus the soundscript tree of '
        f'tests/test_sndscript.py::test_parse (no soundscript file exists under tests/). Non-trivial = reader returned a '
        f'value that was compared.')
    ctx.rule = RULE
    ctx.assumptions.append('C20/sndscript: the text -> Keyvalues step is Keyvalues.parse(allow_escapes=False), the call '
                           'srctools.packlist uses for soundscript files (the format has no escape sequences)')


def replay(case: dict) -> list:
    if 'sample' in case:
        acc = core.Acc()
        check_sample(acc)
        return acc.all_failures()
    return EXPLORER.replay(case)
