"""C01 — KeyValues1 serialise/parse round trip preserves the whole tree.

(a) every ordered forest with <= N nodes (leaf / empty block / block), names from {a, A, b}, values from
    {'', 'x'} x all 16 serialise option sets (+ the deprecated export() writer);
(b) every string of length <= L over the syntax alphabet in each role (leaf name, leaf value, block name,
    empty-block name) inside a fixed context tree, and all (name, value) pairs of strings of length <= 2;
(c) every Unicode scalar value once in each role;
each re-parsed from a str, a file object, lines, single characters, and every two-chunk split.
Oracle: an independent structural dump (real_name, value / ordered children).
"""
from __future__ import annotations

import io
import itertools

from srctools.keyvalues import Keyvalues, KeyValError

from mcv import core
from mcv.enum import trees

PROPERTY = 'C01'
LEVEL = 'exploration'

SIGMA = ['"', '\\', 'n', 't', '{', '}', '[', ']', '(', ')', '/', '*', '#', "'", ';', ',', '=', ':', '+', ' ',
         '\t', 'a', '﻿', '\n', '\r']
NAME_SIGMA = [c for c in SIGMA if c not in '\r\n']
NAMES = ['a', 'A', 'b']
VALUES = ['', 'x']
INDENTS = ['', ' ', '\t', '  ']
ALL_CONFIGS = [{'indent': i, 'indent_braces': b, 'start_indent': s}
               for i in INDENTS for b in (False, True) for s in ('', '\t')]
CORNER_CONFIGS = [ALL_CONFIGS[0], {'indent': '\t', 'indent_braces': False, 'start_indent': ''},
                  {'indent': '  ', 'indent_braces': True, 'start_indent': '\t'},
                  {'indent': ' ', 'indent_braces': True, 'start_indent': ''}]


# ------------------------------------------------------------------------------------------
# tree specs: ('L', name, value) | ('B', name, [children]);  a document is a list of specs under a root

def build(spec) -> Keyvalues:
    if spec[0] == 'L':
        return Keyvalues(spec[1], spec[2])
    return Keyvalues(spec[1], [build(c) for c in spec[2]])


def build_root(specs) -> Keyvalues:
    return Keyvalues.root(*[build(s) for s in specs])


def dump(kv: Keyvalues):
    """Independent structural observer (never uses Keyvalues.__eq__)."""
    v = kv._value
    if isinstance(v, list):
        return ['B', kv._real_name, [dump(c) for c in v]]
    return ['L', kv._real_name, v]


def spec_dump(spec):
    if spec[0] == 'L':
        return ['L', spec[1], spec[2]]
    return ['B', spec[1], [spec_dump(c) for c in spec[2]]]


def identities(kv: Keyvalues, out: list) -> list:
    out.append(id(kv))
    out.append(id(kv._value))
    if isinstance(kv._value, list):
        for c in kv._value:
            identities(c, out)
    return out


def strip_ws(text: str) -> str:
    return '\n'.join(line.lstrip(' \t') for line in text.split('\n'))


def parse_forms(text: str, all_splits: bool):
    yield 'str', text
    yield 'file', io.StringIO(text)
    buf = io.StringIO('"consumed" "header line"\n' + text)
    buf.readline()
    yield 'file_after_header', buf
    if len(text) > 5000:
        return
    yield 'lines', text.splitlines(keepends=True)
    yield 'chars', iter(list(text))
    if all_splits:
        for i in range(1, len(text)):
            yield f'split@{i}', [text[:i], text[i:]]
        # chunk sources may hold any number of empty chunks (a count, not a shape): long runs before, inside and after the text
        for run_len in ((3, 2500) if all_splits == 'runs' else ()):
            mid = len(text) // 2
            yield f'empty_run_{run_len}', [''] * run_len + [text[:mid]] + [''] * run_len + [text[mid:]] + [''] * run_len
            yield f'empty_run_iter_{run_len}', iter([''] * run_len + [text[:mid]] + [''] * run_len + [text[mid:]] + [''] * run_len)
        # a real OS-level text file whose .name is a file descriptor number, not a path (tempfile.TemporaryFile, os.fdopen);
        # for the smallest documents only (one OS file per text)
        import tempfile
        tf = tempfile.TemporaryFile('w+', encoding='utf8', newline='', dir='/dev/shm', errors='surrogatepass')
        try:
            tf.write(text)
            tf.seek(0)
            yield 'unnamed_os_file', tf
        except UnicodeEncodeError:
            pass
        finally:
            tf.close()


def check_doc(acc: core.Acc, specs: list, configs: list, all_splits: bool, sig: dict, single_block_root: bool = False) -> None:
    """specs: children of the root.  single_block_root: serialise a single named block instead of a root."""
    case = {'specs': specs, 'configs': 'all' if configs is ALL_CONFIGS else 'corner', 'all_splits': all_splits,
            'single': single_block_root}
    if single_block_root:
        tree = build(specs[0])
        want = ['B', None, [spec_dump(specs[0])]]
    else:
        tree = build_root(specs)
        want = ['B', None, [spec_dump(s) for s in specs]]
    before = dump(tree)
    ids_before = identities(tree, [])
    texts = []
    for cfg in list(configs) + ['export()', 'str()', 'serialise(file)', 'serialise(list-like sink)', 'serialize()']:
        acc.evaluations += 1
        try:
            if cfg == 'export()':
                text = ''.join(tree.export())
            elif cfg == 'str()':
                text = str(tree)
            elif cfg == 'serialise(file)':
                out = io.StringIO()
                out.write('"earlier" "content"\n')       # the writer appends to whatever the file already holds
                res = tree.serialise(out)
                text = out.getvalue()
                if res is not None or not text.startswith('"earlier" "content"\n'):
                    acc.fail('serialise_file_form', case, f'serialise(file) returned {res!r} / file now {text[:60]!r}', **sig)
                    return
                text = text[len('"earlier" "content"\n'):]
            elif cfg == 'serialise(list-like sink)':
                class Pieces(list):          # a write()-only sink that is falsy while empty
                    write = list.append
                sink = Pieces()
                res = tree.serialise(sink)
                text = ''.join(sink)
                if res is not None:
                    acc.fail('serialise_file_form', case, f'serialise(sink) returned {str(res)[:60]!r} instead of writing to the sink', **sig)
                    return
            elif cfg == 'serialize()':
                text = tree.serialize()
            else:
                text = tree.serialise(**cfg)
        except Exception as exc:  # noqa: BLE001
            acc.fail('serialise_raises', case, f'serialise({cfg}) of {want} raised {type(exc).__name__}: {exc}', **sig)
            return
        texts.append((cfg, text))
        if dump(tree) != before or identities(tree, []) != ids_before:
            acc.fail('serialise_mutates', case, f'serialise({cfg}) changed the tree {before} -> {dump(tree)}', **sig)
            return
    acc.outcome((sig.get('role', sig.get('gen', '')), texts[0][1].count('\\'), texts[0][1].count('{')))
    base = strip_ws(texts[0][1])
    for cfg, text in texts[1:]:
        if strip_ws(text) != base:
            acc.fail('indent_dependent', case,
                     f'text differs beyond whitespace between {texts[0][0]} and {cfg}:\n{texts[0][1]!r}\n{text!r}', **sig)
            return
    seen_text = set()
    for cfg, text in texts:
        if text in seen_text:
            continue
        seen_text.add(text)
        for form, data in parse_forms(text, all_splits):
            acc.evaluations += 1
            try:
                # file objects are parsed without a file name (the name is then taken from the object, if it has one)
                got = dump(Keyvalues.parse(data) if form in ('file', 'file_after_header', 'unnamed_os_file') else Keyvalues.parse(data, 'f'))
            except KeyValError as exc:
                acc.fail('reparse_error', case, f'tree {want}\n serialised ({cfg}) as {text!r}\n parse[{form}] raised: {exc.mess}', **sig)
                return
            except Exception as exc:  # noqa: BLE001
                acc.fail('reparse_crash', case, f'tree {want}\n text {text!r}\n parse[{form}] raised {type(exc).__name__}: {exc}', **sig)
                return
            if got != want:
                acc.fail('roundtrip_differs', case, f'tree {want}\n serialised ({cfg}) as {text!r}\n parse[{form}] gave {got}', **sig)
                return


# ------------------------------------------------------------------------------------------
# (a) shapes

def shapes(n_nodes: int, forest_index_filter=None):
    """All documents with exactly n_nodes nodes: ordered forests; childless nodes are leaf or empty block."""
    def label(forest):
        # yields lists of specs
        if not forest:
            yield []
            return
        first, rest = forest[0], forest[1:]
        for name in NAMES:
            if first == ():
                heads = [('L', name, v) for v in VALUES] + [('B', name, [])]
            else:
                heads = [('B', name, kids) for kids in label(first)]
            for h in heads:
                for tail in label(rest):
                    yield [h] + tail
    for forest in trees(n_nodes):
        yield from label(forest)


def context(target):
    return [('L', 'pre', '1'),
            ('B', 'outer', [('L', 'x', 'y'), target, ('L', 'after', 'z')]),
            ('L', 'post', '2')]


ROLES = {
    'leaf_name': lambda s: ('L', s, 'v'),
    'leaf_value': lambda s: ('L', 'k', s),
    'block_name': lambda s: ('B', s, [('L', 'in', '1')]),
    'empty_block_name': lambda s: ('B', s, []),
}


def check_deep(acc: core.Acc, depth: int) -> None:
    """A chain of `depth` nested blocks with one leaf at the bottom ("any depth"); built, serialised, parsed and compared without
    recursion in the harness, under the interpreter's default recursion limit."""
    acc.evaluations += 1
    acc.nontrivial += 1
    case = {'deep': depth}
    node = Keyvalues('leaf', 'v')
    for i in range(depth):
        node = Keyvalues(f'b{i % 7}', [node])
    root = Keyvalues.root(node)
    try:
        text = root.serialise()
        back = Keyvalues.parse(text)
    except RecursionError as exc:
        acc.fail('depth_limit', case, f'a chain of {depth} nested blocks: {type(exc).__name__} ({str(exc)[:80]})', gen='deep')
        return
    except Exception as exc:  # noqa: BLE001
        acc.fail('reparse_crash', case, f'a chain of {depth} nested blocks: {type(exc).__name__}: {str(exc)[:200]}', gen='deep')
        return
    a_, b_ = root, back
    level = 0
    while True:
        ka, kb = list(a_._value) if isinstance(a_._value, list) else None, list(b_._value) if isinstance(b_._value, list) else None
        if (a_._real_name, ka is None, None if ka is not None else a_._value) != (b_._real_name, kb is None, None if kb is not None else b_._value):
            acc.fail('roundtrip_differs', case, f'chain of {depth} blocks differs at level {level}: {a_._real_name!r} vs {b_._real_name!r}', gen='deep')
            return
        if ka is None:
            return
        if len(ka) != 1 or len(kb) != 1:
            acc.fail('roundtrip_differs', case, f'chain of {depth} blocks: level {level} has {len(kb)} children after the round trip', gen='deep')
            return
        a_, b_ = ka[0], kb[0]
        level += 1


def check_shared_blocks(acc: core.Acc) -> None:
    """The same block OBJECT placed at several positions (siblings, different depths): serialise writes it at each place."""
    def mk(name):
        return Keyvalues(name, [Keyvalues('k', 'v'), Keyvalues('inner', [Keyvalues('x', '1')])])
    shapes = {
        'siblings': lambda b: [b, b],
        'list_times_3': lambda b: [b] * 3,
        'nested_and_sibling': lambda b: [Keyvalues('outer', [b, Keyvalues('y', '2')]), b],
        'two_parents': lambda b: [Keyvalues('p1', [b]), Keyvalues('p2', [b])],
        'shared_leaf': lambda b: [Keyvalues('p1', [b._value[0]]), Keyvalues('p2', [b._value[0]])],
        'empty_shared': lambda b: [Keyvalues('e', []), Keyvalues('f', [])] + [Keyvalues('g', [])] * 2,
    }
    for sname, build_children in shapes.items():
        for cfg in CORNER_CONFIGS:
            acc.evaluations += 1
            acc.nontrivial += 1
            blk = mk('shared')
            root = Keyvalues.root(*build_children(blk))
            want = dump(root)
            case = {'shared': sname, 'cfg': cfg}
            try:
                text = root.serialise(**cfg)
                got = dump(Keyvalues.parse(text))
            except Exception as exc:  # noqa: BLE001
                acc.fail('shared_block_fails', case, f'tree with a shared block object ({sname}): {type(exc).__name__}: {exc}', gen='shared')
                continue
            if got != want:
                acc.fail('roundtrip_differs', case, f'shared block ({sname}): {want} -> {got}', gen='shared')


def _too_deep() -> Keyvalues:
    import sys
    deep = cur = Keyvalues('level', [])
    for _ in range(sys.getrecursionlimit() + 50):
        nxt = Keyvalues('level', [])
        cur.append(nxt)
        cur = nxt
    return deep


POLLUTERS = {
    'single_block_leaf': lambda: Keyvalues.parse('"a" "b" }', single_block=True),
    'single_block_block': lambda: Keyvalues.parse('"a" { "x" "y" } "z" "w"', single_block=True),
    'parse_error_midway': lambda: Keyvalues.parse('"a" "b"\n"c" {\n"d"\n'),
    'tokenizer_peek_abandoned': lambda: __import__('srctools.tokenizer', fromlist=['Tokenizer']).Tokenizer('"x" "y" {').peek(),
    'tokenizer_pushback_abandoned': lambda: (lambda t: (t(), t.push_back(*t())))(__import__('srctools.tokenizer', fromlist=['Tokenizer']).Tokenizer('} "q" "r"')),
    'serialise_fails_nonstring_leaf': lambda: Keyvalues('Outer', [Keyvalues('fine', '1'), Keyvalues('bad', 12)]).serialise(),
    'str_fails_nonstring_leaf': lambda: str(Keyvalues('Outer', [Keyvalues('fine "q"', '1'), Keyvalues('bad', None)])),
    'serialise_fails_too_deep': lambda: _too_deep().serialise(),
    'export_abandoned': lambda: next(iter(Keyvalues('Outer', [Keyvalues('fine', '1'), Keyvalues('blk', [])]).export())),
    'serialise_other': lambda: Keyvalues('zz', [Keyvalues('a"b', 'c\\d')]).serialise(indent_braces=True, start_indent='\t\t'),
}


def check_after_polluter(acc: core.Acc) -> None:
    """Histories: an unrelated earlier call (early-returning single_block parse, a parse error, an abandoned tokenizer,
    another serialise) must not influence a later round trip (no state carried between calls)."""
    docs = [[('L', 'a', 'b')], [('B', 'blk', [('L', 'k', 'v"q'), ('B', 'e', [])]), ('L', 'post', '2')], context(('L', 'n\\t', 'x y'))]
    for pname, pol in POLLUTERS.items():
        for specs in docs:
            acc.evaluations += 1
            acc.nontrivial += 1
            try:
                pol()
            except Exception:  # noqa: BLE001 - the polluter may legitimately fail
                pass
            sub = core.Acc()
            check_doc(sub, specs, CORNER_CONFIGS[:2], True, {'gen': 'history', 'role': pname})
            if sub.fail_counts:
                f = sub.all_failures()[0]
                acc.fail('state_carried_between_calls', {'polluter': pname, 'specs': specs},
                         f'after the unrelated call {pname!r}, the round trip of {specs} failed: {f.kind}: {f.detail[:400]}', gen='history', polluter=pname)


EDIT_TEMPLATES = ['Block "%04d"', 'key\\%04d', "Sub'%04d", 'leaf\t%04d', 'plain%04d']


def check_edit_history(acc: core.Acc, count: int) -> None:
    """A history of `count` short-lived trees whose names and values are set with edit() (strings computed at run time), each
    serialised, re-parsed and dropped before the next is built: no tree's round trip may depend on the ones before it.  The case is
    the whole history."""
    case = {'edit_history': count}
    for i in range(count):
        acc.evaluations += 1
        acc.nontrivial += 1
        tree = Keyvalues.root(Keyvalues('block', [Keyvalues('key', 'v'), Keyvalues('sub', [Keyvalues('x', '')])]), Keyvalues('leaf', 'w'))
        tree[0].edit(name=EDIT_TEMPLATES[0] % i)
        tree[0][0].edit(name=EDIT_TEMPLATES[1] % i, value='value "%d"' % i)
        tree[0][1].edit(name=EDIT_TEMPLATES[2] % i)
        tree[0][1][0].edit(name=EDIT_TEMPLATES[4] % i, value=[])
        tree[1].edit(name=EDIT_TEMPLATES[3] % i, value='%d\\' % i)
        want = dump(tree)
        try:
            text = tree.serialise()
            got = dump(Keyvalues.parse(text))
            text2 = str(tree)
        except Exception as exc:  # noqa: BLE001
            acc.fail('reparse_crash', case, f'edit()-built tree #{i} {want}: {type(exc).__name__}: {str(exc)[:200]}', gen='edit_history')
            return
        if got != want or text2 != text:
            acc.fail('state_carried_between_calls', case, f'tree #{i} of a history of edit()-built trees: {want}\n serialised as {text!r}\n '
                     f'(str(): {text2!r})\n re-read as {got}', gen='edit_history')
            return
        del tree


def shard(spec) -> core.Acc:
    acc = core.Acc()
    kind = spec[0]
    if kind == 'shape':
        _, n, part, nparts, configs_name = spec
        configs = ALL_CONFIGS if configs_name == 'all' else CORNER_CONFIGS
        for i, specs in enumerate(shapes(n)):
            if i % nparts != part:
                continue
            acc.nontrivial += 1
            check_doc(acc, specs, configs, 'runs' if n <= 2 else False, {'gen': 'shape'})
            if len(specs) == 1 and specs[0][0] == 'B':
                check_doc(acc, specs, CORNER_CONFIGS, False, {'gen': 'shape'}, single_block_root=True)
            if i == part:
                acc.sample({'specs': specs, 'configs': configs_name}, 2)
    elif kind == 'role':
        _, role, prefix, length = spec
        sigma = SIGMA if role == 'leaf_value' else NAME_SIGMA
        rest = length - len(prefix)
        for tail in itertools.product(sigma, repeat=rest):
            s = prefix + ''.join(tail)
            acc.nontrivial += 1
            check_doc(acc, context(ROLES[role](s)), CORNER_CONFIGS[:2] if length >= 3 else CORNER_CONFIGS, 'runs' if length <= 1 else False,
                      {'gen': 'role', 'role': role})
            if length <= 2:
                # the target alone, as the first thing on line 1, delivered in every two-chunk split
                check_doc(acc, [ROLES[role](s)], CORNER_CONFIGS[:1], True, {'gen': 'role', 'role': role})
                # the same context as a named block serialised on its own: start_indent / indent_braces take effect
                check_doc(acc, [('B', 'wrap', context(ROLES[role](s)))], CORNER_CONFIGS[2:], False, {'gen': 'role', 'role': role},
                          single_block_root=True)
        acc.sample({'role': role, 'string': prefix + sigma[0] * rest}, 1)
    elif kind == 'pair':
        _, a, vmax = spec
        for b in itertools.chain.from_iterable(itertools.product(SIGMA, repeat=k) for k in range(0, vmax + 1)):
            acc.nontrivial += 1
            check_doc(acc, context(('L', a, ''.join(b))), CORNER_CONFIGS[:1], False, {'gen': 'pair', 'role': 'leaf_pair'})
    elif kind == 'extra':
        check_shared_blocks(acc)
        check_after_polluter(acc)
        for depth in (50, 200, 400, 600, 800):
            check_deep(acc, depth)
        check_edit_history(acc, 400)
    elif kind == 'long':
        # long names / values (several KiB) holding one escapable character at the start, middle or end
        for n in (spec[1],):
            for c in ('"', '\\', '\t', '\n', '{', ' '):
                for pos in (0, n // 2, n - 1):
                    body = ['x'] * n
                    body[pos] = c
                    long_s = ''.join(body)
                    for role, mk in ROLES.items():
                        if c == '\n' and role != 'leaf_value':
                            continue          # names are single-line by the format
                        check_doc(acc, [mk(long_s)], CORNER_CONFIGS[:1], False, {'gen': 'long', 'role': role})
                        acc.nontrivial += 1
    elif kind == 'uni':
        _, role, lo, hi = spec
        targets = []
        for cp in range(lo, hi):
            if 0xD800 <= cp <= 0xDFFF:
                continue
            c = chr(cp)
            if role != 'leaf_value' and c in '\r\n':
                continue
            targets.append(ROLES[role]('u' + c + 'v'))
            targets.append(ROLES[role](c))
        acc.nontrivial += 1
        acc.count('unicode_role_cases', len(targets))
        specs = [('L', 'pre', '1')] + targets + [('L', 'post', '2')]
        sub = core.Acc()
        check_doc(sub, specs, CORNER_CONFIGS[:2], False, {'gen': 'unicode', 'role': role})
        # the same targets inside a named block serialised on its own, so that start_indent / indent_braces take effect
        check_doc(sub, [('B', 'wrap', specs)], CORNER_CONFIGS[2:], False, {'gen': 'unicode', 'role': role}, single_block_root=True)
        if sub.fail_counts:
            # localise: re-run one target at a time so the replay case is small
            for t in targets:
                check_doc(acc, [('B', 'wrap', [('L', 'pre', '1'), t, ('L', 'post', '2')])], CORNER_CONFIGS, False,
                          {'gen': 'unicode', 'role': role}, single_block_root=True)
        sub.fail_counts.clear()
        sub.fails.clear()
        acc.merge(sub)
    return acc


def run(ctx: core.Ctx) -> None:
    N = ctx.pick(4, 5)
    L = ctx.pick(3, 4)
    shards = []
    for n in range(0, N + 1):
        nparts = 1 if n <= 2 else 16 if n == 3 else 64 if n == 4 else 512
        for p in range(nparts):
            shards.append(('shape', n, p, nparts, 'all' if n <= 3 else 'corner'))
    for role in ROLES:
        sigma = SIGMA if role == 'leaf_value' else NAME_SIGMA
        for n in range(0, L + 1):
            if n <= 1:
                shards.append(('role', role, '', n))
            elif n <= 3:
                for c in sigma:
                    shards.append(('role', role, c, n))
            else:
                for c in itertools.product(sigma, repeat=2):
                    shards.append(('role', role, ''.join(c), n))
    for a in itertools.chain.from_iterable(itertools.product(NAME_SIGMA, repeat=k) for k in range(0, 3)):
        shards.append(('pair', ''.join(a), 2 if (len(a) <= 1 or not ctx.quick) else 1))
    shards.append(('extra',))
    for n in (1000, 1001, 4095, 4096, 4097, 9000):
        shards.append(('long', n))
    step = 0x1000
    for role in ROLES:
        for lo in range(0, 0x110000, step):
            if ctx.quick and lo >= 0x10000 and role != 'leaf_value':
                continue
            shards.append(('uni', role, lo, lo + step))
    k = ctx.seed % len(shards)
    core.par_map(shard, shards[k:] + shards[:k], ctx.acc)
    ctx.rule = (f'(a) every ordered forest with <= {N} nodes, childless nodes leaf or empty block, names from {NAMES}, values '
                f'from {VALUES}, x 16 serialise option sets (4 corner sets above 3 nodes) + export(); (b) every string of '
                f'length <= {L} over a {len(SIGMA)}-character syntax alphabet (no CR/LF in names) in each of 4 roles inside a '
                f'3-level context tree, and all (name, value) pairs of strings of length <= 2; (c) every Unicode scalar value '
                f'alone and between two letters in each role ({"BMP in all roles, astral planes as leaf value" if ctx.quick else "all planes in all roles"}); each text re-parsed from str, file object, lines, characters '
                f'(and every two-chunk split for the smallest documents); trees sharing one block object at several places; chains of 50..800 nested blocks; names and values of 1000..9000 characters with an escapable character at either end or in the middle; round trips '
                f'preceded by an unrelated call (early-returning single_block parse, parse error, abandoned tokenizer, a serialise()/str() that failed part-way, an abandoned export()); chunk lists with runs of 3 and 2500 empty chunks (smallest documents); a history of 400 short-lived trees renamed with edit(). Non-trivial = every generated document (each is '
                f'enumerated once).')


def replay(case: dict) -> list:
    acc = core.Acc()
    if 'deep' in case:
        check_deep(acc, case['deep'])
        return acc.all_failures()
    if 'edit_history' in case:
        check_edit_history(acc, case['edit_history'])
        return acc.all_failures()
    if 'shared' in case:
        check_shared_blocks(acc)
        return [f for f in acc.all_failures() if f.case.get('shared') == case['shared']]
    if 'polluter' in case:
        check_after_polluter(acc)
        return [f for f in acc.all_failures() if f.case.get('polluter') == case['polluter']]

    def tup(s):
        return (s[0], s[1], [tup(c) for c in s[2]]) if s[0] == 'B' else (s[0], s[1], s[2])
    specs = [tup(s) for s in case['specs']]
    check_doc(acc, specs, ALL_CONFIGS if case.get('configs') == 'all' else CORNER_CONFIGS, case.get('all_splits') or False,
              {}, single_block_root=bool(case.get('single')))
    return acc.all_failures()
