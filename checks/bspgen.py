"""Shared BSP machinery for C10 / C11: one plain-data schema ("world"), three independent components on it.

    observe(bsp)            library objects -> world   (the independent observer; never calls a library writer)
    encode_world(world, ..) world -> BSP file bytes    (the independent synthesiser: struct.pack with the on-disk
                                                        layouts; only the library's per-version struct *tables*
                                                        LUMP_LAYOUT_* are reused, as trusted data)
    build_views(world)      world -> library objects   (through the public constructors; used by C11)

plus an own container parser `parse_file` (header, lump directory, game-lump directory, Source-LZMA) so raw
lump comparisons never go through BSP.read.

World schema (index form; every cross reference is an index into the named list, or ['x', n] = n-th entry of
world['extras'][<list>] for an object that is not (yet) in its list).  bytes are hex strings, vectors are lists.

    textures   [str]
    texdata    [{mat, refl[3], w, h}]                      distinct TexData objects in order of first reference
    texinfo    [{s[4], t[4], ls[4], lt[4], flags, td}]
    planes     [{n[3], d, t}]
    vertexes   [[x,y,z]]
    surfedges  [{a, b, e, rev}]                              a/b -> vertexes; e = number of the underlying Edge object
    primitives [{type, inds[], verts[[3]]}]
    faces / orig_faces / hdr_faces
               [{plane, side, on_node, edges[], texinfo|None, disp, fog, styles, lmoff, area, lm_mins[2], lm_size[2],
                 orig|None, prims[], dyn, smooth, hid|None, vflags}]
    brushes    [{contents, sides[{plane, texinfo, disp, bevel, bits}]}]
    visleafs   [{contents, cluster, area, flags, mins[3], maxes[3], faces[], brushes[], water_id, ambient, dist}]
    nodes      [{plane, mins[3], maxes[3], faces[], area, neg, pos}]      neg/pos = ['n', ref] | ['l', ref]
    water_leaf_info [{surf_z, min_z, texinfo}]
    visibility None | {pvs[hex], pas[hex]}
    ents       [{kv[[k,v]..] (sorted), outs[[output, inst_out, target, input, inst_in, params, delay, times, comma]]}]
    bmodels    [None | {cls, mins, maxes, origin, node, faces[], phys_kv|None, solids[hex]}]   one slot per entity
    cubemaps   [{origin[3], size}]
    overlays   [{id, origin, normal, texinfo, faces[int], order, u[2], v[2], uv1..uv4[3], fade[2], levels[4]}]
    props      {version, props[{model, origin, angles, scaling[3], leafs[], solidity, flags, skin, fade[2], lighting,
                 fade_scale, dx[2], cpu[2], gpu[2], tint[3], renderfx, xbox, lightmap[2]}]}
    detail_props [{kind, origin, angles, orient, leaf, lighting[4], styles[2], sway, (model | scale, dims[4], tex[4]
                 (, cross, shape_angle, shape_size))}]
    pakfile    [[name, hex data]]
"""
from __future__ import annotations

import contextlib
import hashlib
import io
import json
import lzma
import struct
import zipfile
from typing import Any, Optional
from weakref import WeakKeyDictionary

from srctools import bsp as B
from srctools.keyvalues import Keyvalues
from srctools.math import Angle, Vec
from srctools.vmf import VMF, Entity, Output

L = B.BSP_LUMPS
NLUMPS = 64
HEADER_SIZE = 8 + 16 * NLUMPS + 4


def f32(x: float) -> float:
    return struct.unpack('<f', struct.pack('<f', x))[0]


F32_MAX = f32(3.4e38)


def hx(b: bytes) -> str:
    return bytes(b).hex()


def jd(obj: Any) -> str:
    return json.dumps(obj, sort_keys=True, default=repr)


def digest(obj: Any) -> str:
    return hashlib.sha1(jd(obj).encode()).hexdigest()[:16]


@contextlib.contextmanager
def quiet():
    """BSP.save() prints 'Compress: ...' lines; keep the harness output clean."""
    with contextlib.redirect_stdout(io.StringIO()):
        yield


# ---------------------------------------------------------------------------------------------------------
# layouts the code distinguishes (bsp.py: BSP.read picks lump_layout by version; L4D2 by header probing)

LAYOUTS: dict[str, dict] = {
    'v19': dict(version=19, magic=b'VBSP', l4d2=False, tbl=B.LUMP_LAYOUT_V19, sprp='V5', esc=False, bounds='h'),
    'v20': dict(version=20, magic=b'VBSP', l4d2=False, tbl=B.LUMP_LAYOUT_STANDARD, sprp='V_LIGHTMAP_v10', esc=False, bounds='h'),
    'v21': dict(version=21, magic=b'VBSP', l4d2=False, tbl=B.LUMP_LAYOUT_STANDARD, sprp='V11', esc=True, bounds='h'),
    'l4d2': dict(version=21, magic=b'VBSP', l4d2=True, tbl=B.LUMP_LAYOUT_STANDARD, sprp='V9', esc=True, bounds='h'),
    'infra': dict(version=22, magic=b'VBSP', l4d2=False, tbl=B.LUMP_LAYOUT_INFRA, sprp='V10', esc=True, bounds='h'),
    'chaos': dict(version=25, magic=b'VBSP', l4d2=False, tbl=B.LUMP_LAYOUT_CHAOS, sprp='V_CHAOS_V13', esc=True, bounds='f'),
    'vitamin': dict(version=43, magic=b'FART', l4d2=False, tbl=B.LUMP_LAYOUT_VITAMIN, sprp='V10', esc=True, bounds='I'),
}
LAYOUT_NAMES = list(LAYOUTS)

# which raw lumps sit under which structured view (own table, deliberately not derived from ParsedLump.to_clear)
VIEW_LUMPS: dict[str, list] = {
    'pakfile': [L.PAKFILE], 'ents': [L.ENTITIES],
    'textures': [L.TEXDATA_STRING_DATA, L.TEXDATA_STRING_TABLE], 'texinfo': [L.TEXINFO, L.TEXDATA],
    'cubemaps': [L.CUBEMAPS], 'overlays': [L.OVERLAYS, L.OVERLAY_FADES, L.OVERLAY_SYSTEM_LEVELS],
    'bmodels': [L.MODELS, L.PHYSCOLLIDE], 'brushes': [L.BRUSHES, L.BRUSHSIDES],
    'visleafs': [L.LEAFS, L.LEAFFACES, L.LEAFBRUSHES, L.LEAFMINDISTTOWATER],
    'water_leaf_info': [L.LEAFWATERDATA], 'nodes': [L.NODES], 'visibility': [L.VISIBILITY],
    'vertexes': [L.VERTEXES], 'surfedges': [L.SURFEDGES, L.EDGES], 'planes': [L.PLANES],
    'faces': [L.FACES, L.FACEIDS], 'orig_faces': [L.ORIGINALFACES], 'hdr_faces': [L.FACES_HDR],
    'primitives': [L.PRIMITIVES, L.PRIMINDICES, L.PRIMVERTS],
    'props': [b'sprp'], 'detail_props': [b'dprp'],
}
VIEWS = list(VIEW_LUMPS)
VIEWED_LUMP_IDS = {x.value for v in VIEW_LUMPS.values() for x in v if not isinstance(x, bytes)}
RAW_LUMP_IDS = [i for i in range(NLUMPS) if i not in VIEWED_LUMP_IDS and i != L.GAME_LUMP.value]

# ---------------------------------------------------------------------------------------------------------
# Source LZMA wrapper (own implementation on the lzma module)

_LZ_FILT = {'id': lzma.FILTER_LZMA1, 'dict_size': 1 << 24, 'lc': 3, 'lp': 0, 'pb': 2}


def lzma_pack(data: bytes) -> bytes:
    comp = lzma.compress(data, lzma.FORMAT_RAW, filters=[_LZ_FILT])
    return b'LZMA' + struct.pack('<II', len(data), len(comp)) + bytes([(2 * 5 + 0) * 9 + 3]) + struct.pack('<I', 1 << 24) + comp


def lzma_unpack(blob: bytes) -> bytes:
    assert blob[:4] == b'LZMA', blob[:8]
    usize, csize = struct.unpack_from('<II', blob, 4)
    props = blob[12]
    dict_size = struct.unpack_from('<I', blob, 13)[0]
    lc = props % 9
    rest = props // 9
    filt = {'id': lzma.FILTER_LZMA1, 'dict_size': max(dict_size, 4096), 'lc': lc, 'lp': rest % 5, 'pb': rest // 5}
    out = lzma.LZMADecompressor(lzma.FORMAT_RAW, filters=[filt]).decompress(blob[17:17 + csize], usize)
    return out[:usize]


# ---------------------------------------------------------------------------------------------------------
# container: parse / build (own code)

def parse_file(data: bytes, l4d2: bool) -> dict:
    """Decode header, lump directory and game-lump directory.  Returns plain data; `data` of every lump is
    the decompressed payload, `comp` says whether it was stored LZMA-compressed."""
    magic, version = struct.unpack_from('<4si', data, 0)
    lumps = []
    for i in range(NLUMPS):
        a, b, c, d = struct.unpack_from('<4i', data, 8 + 16 * i)
        if l4d2:
            ver, off, ln, fourcc = a, b, c, d
        else:
            off, ln, ver, fourcc = a, b, c, d
        raw = data[off:off + ln]
        comp = fourcc > 0
        lumps.append({'off': off, 'len': ln, 'ver': ver, 'fourcc': fourcc, 'comp': comp,
                      'data': (lzma_unpack(raw) if comp else raw) if i != L.GAME_LUMP.value else raw})
    [revision] = struct.unpack_from('<i', data, 8 + 16 * NLUMPS)
    game = []
    gl = lumps[L.GAME_LUMP.value]
    if gl['len'] >= 4:
        base = gl['off']
        [n] = struct.unpack_from('<i', data, base)
        for k in range(n):
            gid, flags, ver, off, ln = struct.unpack_from('<4sHHii', data, base + 4 + 16 * k)
            if gid == b'\0\0\0\0':
                continue
            if flags & 1:
                csize = struct.unpack_from('<I', data, off + 8)[0]
                payload = lzma_unpack(data[off:off + 17 + csize])
            else:
                payload = data[off:off + ln]
            game.append({'id': gid[::-1], 'flags': flags, 'ver': ver, 'len': ln, 'data': payload})
    return {'magic': magic, 'version': version, 'revision': revision, 'lumps': lumps, 'game': game}


def build_file(magic: bytes, version: int, revision: int, l4d2: bool,
               lumps: dict[int, tuple[bytes, int, bool]],
               game: list[tuple[bytes, int, int, bytes]]) -> bytes:
    """lumps: index -> (payload, lump version, compress?); game: (id, flags, version, payload); flag bit 0 of
    a game lump = stored LZMA-compressed.  Game lumps are laid out the way Valve's bspzip does (contiguous, a
    trailing id-0 entry when any is compressed so that sizes can be derived from the next offset)."""
    out = bytearray(HEADER_SIZE)
    struct.pack_into('<4si', out, 0, magic, version)
    struct.pack_into('<i', out, 8 + 16 * NLUMPS, revision)
    order = [i for i in range(NLUMPS) if i != L.PAKFILE.value] + [L.PAKFILE.value]
    for i in order:
        if i == L.GAME_LUMP.value:
            start = len(out)
            any_comp = any(fl & 1 for _, fl, _, _ in game)
            n = len(game) + (1 if any_comp else 0)
            blobs = [(lzma_pack(d) if fl & 1 else d) for _, fl, _, d in game]
            pos = start + 4 + 16 * n
            dirb = struct.pack('<i', n)
            for (gid, fl, ver, d), blob in zip(game, blobs):
                dirb += struct.pack('<4sHHii', gid[::-1], fl, ver, pos, len(d))
                pos += len(blob)
            if any_comp:
                dirb += struct.pack('<4sHHii', b'\0\0\0\0', 0, 0, pos, 0)
            out += dirb + b''.join(blobs)
            entry = (start, len(out) - start, 0, 0)
        else:
            payload, ver, comp = lumps.get(i, (b'', 0, False))
            comp = comp and len(payload) > 0 and i != L.PAKFILE.value
            stored = lzma_pack(payload) if comp else payload
            while len(out) % 4:
                out += b'\0'
            entry = (len(out), len(stored), ver, len(payload) if comp else 0)
            out += stored
        off, ln, ver, fourcc = entry
        if l4d2:
            struct.pack_into('<4i', out, 8 + 16 * i, ver, off, ln, fourcc)
        else:
            struct.pack_into('<4i', out, 8 + 16 * i, off, ln, ver, fourcc)
    return bytes(out)


# ---------------------------------------------------------------------------------------------------------
# the observer

def _v(vec) -> list:
    return [vec.x, vec.y, vec.z]


class _Index:
    """identity -> index for one list, with an 'extras' overflow for objects that are not in the list."""

    def __init__(self, items, dumper=None):
        self.items = list(items) if items is not None else []
        self.by_id = {}
        for i, it in enumerate(self.items):
            self.by_id.setdefault(id(it), i)
        self.extra_objs: list = []
        self.extra_by_id: dict = {}
        self.dumper = dumper

    def ref(self, obj):
        if obj is None:
            return None
        i = self.by_id.get(id(obj))
        if i is not None:
            return i
        k = self.extra_by_id.get(id(obj))
        if k is None:
            k = self.extra_by_id[id(obj)] = len(self.extra_objs)
            self.extra_objs.append(obj)
        return ['x', k]


def kv_tree(kv) -> Any:
    """Keyvalues -> [[name, value | children], ...] through the public API only."""
    out = []
    for child in kv:
        if child.has_children():
            out.append([child.real_name, kv_tree(child)])
        else:
            out.append([child.real_name, child.value])
    return out


class Observer:
    """Turns a dict {view name: parsed value} into the plain world.  Only the views given are dumped."""

    def __init__(self, views: dict, static_prop_version=None):
        self.views = views
        self.spv = static_prop_version
        g = views.get
        self.ix = {
            'texinfo': _Index(g('texinfo')), 'planes': _Index(g('planes')), 'vertexes': _Index(g('vertexes')),
            'surfedges': _Index(g('surfedges')), 'primitives': _Index(g('primitives')),
            'faces': _Index(g('faces')), 'orig_faces': _Index(g('orig_faces')), 'hdr_faces': _Index(g('hdr_faces')),
            'brushes': _Index(g('brushes')), 'visleafs': _Index(g('visleafs')), 'nodes': _Index(g('nodes')),
        }
        self.texdata: list = []
        self.texdata_id: dict = {}
        self.edge_cls: dict = {}
        self.bmodel_cls: dict = {}

    # -- per record dumpers ------------------------------------------------------------------------------
    def d_texinfo(self, ti) -> dict:
        td = ti._info
        k = self.texdata_id.get(id(td))
        if k is None:
            k = self.texdata_id[id(td)] = len(self.texdata)
            self.texdata.append({'mat': td.mat, 'refl': _v(td.reflectivity), 'w': td.width, 'h': td.height})
        return {'s': _v(ti.s_off) + [ti.s_shift], 't': _v(ti.t_off) + [ti.t_shift],
                'ls': _v(ti.lightmap_s_off) + [ti.lightmap_s_shift], 'lt': _v(ti.lightmap_t_off) + [ti.lightmap_t_shift],
                'flags': ti.flags.value, 'td': k}

    def d_plane(self, p) -> dict:
        return {'n': _v(p.normal), 'd': p.dist, 't': p.type.value}

    def d_surfedge(self, e) -> dict:
        rev = isinstance(e, B.RevEdge)
        base = e.opposite if rev else e
        cls = self.edge_cls.setdefault(id(base), len(self.edge_cls))
        return {'a': self.ix['vertexes'].ref(e.a), 'b': self.ix['vertexes'].ref(e.b), 'e': cls, 'rev': rev}

    def d_prim(self, p) -> dict:
        return {'type': int(p.is_tristrip), 'inds': list(p.indexed_verts), 'verts': [_v(x) for x in p.verts]}

    def d_face(self, f) -> dict:
        return {
            'plane': self.ix['planes'].ref(f.plane), 'side': bool(f.same_dir_as_plane), 'on_node': bool(f.on_node),
            'edges': [self.ix['surfedges'].ref(e) for e in f.edges],
            'texinfo': self.ix['texinfo'].ref(f.texinfo), 'disp': f._dispinfo_ind, 'fog': f.surf_fog_volume_id,
            'styles': hx(f.light_styles), 'lmoff': f._lightmap_off, 'area': f.area,
            'lm_mins': list(f.lightmap_mins), 'lm_size': list(f.lightmap_size),
            'orig': self.ix['orig_faces'].ref(f.orig_face),
            'prims': [self.ix['primitives'].ref(p) for p in f.primitives],
            'dyn': bool(f.dynamic_shadows), 'smooth': f.smoothing_groups, 'hid': f.hammer_id, 'vflags': f.vitamin_flags,
        }

    def d_brush(self, b) -> dict:
        return {'contents': b.contents.value, 'sides': [
            {'plane': self.ix['planes'].ref(s.plane), 'texinfo': self.ix['texinfo'].ref(s.texinfo),
             'disp': s._dispinfo, 'bevel': bool(s.is_bevel_plane), 'bits': s._unknown_bevel_bits}
            for s in b.sides]}

    def d_leaf(self, lf) -> dict:
        return {'contents': lf.contents.value, 'cluster': lf.cluster_id, 'area': lf.area, 'flags': lf.flags.value,
                'mins': _v(lf.mins), 'maxes': _v(lf.maxes),
                'faces': [self.ix['faces'].ref(f) for f in lf.faces],
                'brushes': [self.ix['brushes'].ref(b) for b in lf.brushes],
                'water_id': lf.water_id, 'ambient': hx(lf._ambient), 'dist': lf.min_water_dist}

    def child(self, c):
        if c is None:
            return None
        if isinstance(c, B.VisLeaf):
            return ['l', self.ix['visleafs'].ref(c)]
        return ['n', self.ix['nodes'].ref(c)]

    def d_node(self, n) -> dict:
        return {'plane': self.ix['planes'].ref(n.plane), 'mins': _v(n.mins), 'maxes': _v(n.maxes),
                'faces': [self.ix['faces'].ref(f) for f in n.faces], 'area': n.area_ind,
                'neg': self.child(n.child_neg), 'pos': self.child(n.child_pos)}

    def d_bmodel(self, m) -> dict:
        cls = self.bmodel_cls.setdefault(id(m), len(self.bmodel_cls))
        return {'cls': cls, 'mins': _v(m.mins), 'maxes': _v(m.maxes), 'origin': _v(m.origin),
                'node': self.ix['nodes'].ref(m.node), 'faces': [self.ix['faces'].ref(f) for f in m.faces],
                'phys_kv': None if m.phys_keyvalues is None else kv_tree(m.phys_keyvalues),
                'solids': [hx(s) for s in m._phys_solids]}

    def d_overlay(self, o) -> dict:
        return {'id': o.id, 'origin': _v(o.origin), 'normal': _v(o.normal), 'texinfo': self.ix['texinfo'].ref(o.texture),
                'faces': list(o.faces), 'order': o.render_order, 'u': [o.u_min, o.u_max], 'v': [o.v_min, o.v_max],
                'uv1': _v(o.uv1), 'uv2': _v(o.uv2), 'uv3': _v(o.uv3), 'uv4': _v(o.uv4),
                'fade': [o.fade_min_sq, o.fade_max_sq], 'levels': [o.min_cpu, o.max_cpu, o.min_gpu, o.max_gpu]}

    def d_prop(self, p) -> dict:
        sc = p.scaling
        sc = _v(sc) if isinstance(sc, Vec) else [sc, sc, sc]
        leafs = [self.ix['visleafs'].ref(lf) for lf in p.visleafs]
        leafs.sort(key=jd)
        return {'model': p.model, 'origin': _v(p.origin), 'angles': [p.angles.pitch, p.angles.yaw, p.angles.roll],
                'scaling': sc, 'leafs': leafs, 'solidity': p.solidity, 'flags': p.flags.value, 'skin': p.skin,
                'fade': [p.min_fade, p.max_fade], 'lighting': _v(p.lighting), 'fade_scale': p.fade_scale,
                'dx': [p.min_dx_level, p.max_dx_level], 'cpu': [p.min_cpu_level, p.max_cpu_level],
                'gpu': [p.min_gpu_level, p.max_gpu_level], 'tint': _v(p.tint), 'renderfx': p.renderfx,
                'xbox': bool(p.disable_on_xbox), 'lightmap': [p.lightmap_x, p.lightmap_y]}

    def d_detail(self, p) -> dict:
        d = {'origin': _v(p.origin), 'angles': [p.angles.pitch, p.angles.yaw, p.angles.roll],
             'orient': p.orientation.value, 'leaf': p.leaf, 'lighting': list(p.lighting),
             'styles': list(p._light_styles), 'sway': p.sway_amount}
        if isinstance(p, B.DetailPropModel):
            d['kind'] = 'model'
            d['model'] = p.model
        else:
            d['kind'] = 'shape' if isinstance(p, B.DetailPropShape) else 'sprite'
            d['scale'] = p.sprite_scale
            d['dims'] = list(p.dims_upper_left) + list(p.dims_lower_right)
            d['tex'] = list(p.texcoord_upper_left) + list(p.texcoord_lower_right)
            if isinstance(p, B.DetailPropShape):
                d['cross'] = bool(p.is_cross)
                d['shape_angle'] = p.shape_angle
                d['shape_size'] = p.shape_size
        return d

    @staticmethod
    def d_ent(ent) -> dict:
        kv = sorted([k, v] for k, v in ent.items())
        outs = [[o.output, o.inst_out, o.target, o.input, o.inst_in, o.params, o.delay, o.times, bool(o.comma_sep)]
                for o in ent.outputs]
        return {'kv': kv, 'outs': outs}

    # -- whole world -------------------------------------------------------------------------------------
    DUMPERS = {'texinfo': 'd_texinfo', 'planes': 'd_plane', 'surfedges': 'd_surfedge', 'primitives': 'd_prim',
               'faces': 'd_face', 'orig_faces': 'd_face', 'hdr_faces': 'd_face', 'brushes': 'd_brush',
               'visleafs': 'd_leaf', 'nodes': 'd_node'}

    def dump(self) -> dict:
        w: dict = {}
        vs = self.views
        if 'textures' in vs:
            w['textures'] = list(vs['textures'])
        # texinfo first so texdata numbering follows the texinfo list
        for name in ('texinfo', 'planes'):
            if name in vs:
                w[name] = [getattr(self, self.DUMPERS[name])(x) for x in vs[name]]
        if 'vertexes' in vs:
            w['vertexes'] = [_v(x) for x in vs['vertexes']]
        for name in ('surfedges', 'primitives', 'orig_faces', 'faces', 'hdr_faces', 'brushes', 'visleafs', 'nodes'):
            if name in vs:
                w[name] = [getattr(self, self.DUMPERS[name])(x) for x in vs[name]]
        if 'water_leaf_info' in vs:
            w['water_leaf_info'] = [{'surf_z': i.surface_z, 'min_z': i.min_z, 'texinfo': self.ix['texinfo'].ref(i.surface_texinfo)}
                                    for i in vs['water_leaf_info']]
        if 'visibility' in vs:
            vis = vs['visibility']
            w['visibility'] = None if vis is None else {'pvs': [hx(x) for x in vis.potentially_visible],
                                                         'pas': [hx(x) for x in vis.potentially_audible]}
        ents = None
        if 'ents' in vs:
            vmf = vs['ents']
            ents = [vmf.spawn] + list(vmf.entities)
        if 'bmodels' in vs:
            bm = vs['bmodels']
            if ents is not None:
                slots = []
                known = set()
                for e in ents:
                    m = bm.get(e)
                    known.add(id(e))
                    slots.append(None if m is None else self.d_bmodel(m))
                stray = [self.d_bmodel(m) for e, m in bm.items() if id(e) not in known]
                w['bmodels'] = slots
                if stray:
                    w['bmodels_stray'] = stray
            else:
                w['bmodels'] = [self.d_bmodel(m) for m in bm.values()]
        if ents is not None:  # after bmodels: reading bmodels pops the 'model' keys
            w['ents'] = [self.d_ent(e) for e in ents]
        if 'cubemaps' in vs:
            w['cubemaps'] = [{'origin': _v(c.origin), 'size': c.size} for c in vs['cubemaps']]
        if 'overlays' in vs:
            w['overlays'] = [self.d_overlay(o) for o in vs['overlays']]
        if 'props' in vs:
            w['props'] = {'version': None if self.spv is None else self.spv.name,
                          'props': [self.d_prop(p) for p in vs['props']]}
        if 'detail_props' in vs:
            w['detail_props'] = [self.d_detail(p) for p in vs['detail_props']]
        if 'pakfile' in vs:
            zf = vs['pakfile']
            w['pakfile'] = [[n, hx(zf.read(n))] for n in zf.namelist()]
        # extras: referenced objects that are in no list
        extras = {}
        changed = True
        done: dict[str, int] = {}
        while changed:  # dumping an extra can reference further extras
            changed = False
            for name, ix in self.ix.items():
                start = done.get(name, 0)
                if len(ix.extra_objs) > start:
                    changed = True
                    lst = extras.setdefault(name, [])
                    for obj in ix.extra_objs[start:]:
                        if name == 'vertexes':
                            lst.append(_v(obj))
                        else:
                            lst.append(getattr(self, self.DUMPERS[name])(obj))
                    done[name] = len(ix.extra_objs)
        if extras:
            w['extras'] = extras
        if 'texinfo' in vs or self.texdata:
            w['texdata'] = self.texdata
        return w


OBSERVE_ORDER = ['textures', 'texinfo', 'planes', 'vertexes', 'surfedges', 'primitives', 'orig_faces', 'faces',
                 'hdr_faces', 'brushes', 'visleafs', 'nodes', 'water_leaf_info', 'visibility', 'ents', 'bmodels',
                 'cubemaps', 'overlays', 'props', 'detail_props', 'pakfile']
assert sorted(OBSERVE_ORDER) == sorted(VIEWS)


def observe(bsp, names=None, per_view_errors: bool = True) -> dict:
    """Access the named views (all by default) of a BSP object in a fixed order and dump them."""
    views = {}
    errors = {}
    for name in OBSERVE_ORDER:
        if names is not None and name not in names:
            continue
        try:
            views[name] = getattr(bsp, name)
        except Exception as exc:  # noqa: BLE001 - a view that cannot be parsed is an observation
            if not per_view_errors:
                raise
            errors[name] = f'{type(exc).__name__}: {exc}'[:300]
    w = Observer(views, bsp.static_prop_version if 'props' in views else None).dump()
    for name, err in errors.items():
        w[name] = {'__error__': err}
    return w


def observe_parsed(bsp) -> dict:
    """Dump only what is already in the cache (no access => no state change).  Used for state digests."""
    name_of = {}
    for name, lumps in VIEW_LUMPS.items():
        name_of[lumps[0]] = name
    views = {}
    for key, val in bsp._parsed_lumps.items():
        if key in name_of:
            views[name_of[key]] = val
    try:
        return Observer(views, bsp.static_prop_version if 'props' in views else None).dump()
    except Exception as exc:  # noqa: BLE001
        return {'__error__': f'{type(exc).__name__}: {exc}'[:300]}


# ---------------------------------------------------------------------------------------------------------
# deep form: every reference replaced by the content it points at (so list positions stop mattering)

class Deep:
    def __init__(self, world: dict):
        self.w = world
        self.ex = world.get('extras', {})
        self.memo: dict = {}

    def get(self, lst: str, ref):
        if ref is None:
            return None
        key = (lst, jd(ref))
        if key in self.memo:
            return self.memo[key]
        if isinstance(ref, list):
            rec = self.ex[lst][ref[1]]
        else:
            rec = self.w[lst][ref]
        self.memo[key] = '<cycle>'
        out = getattr(self, 'x_' + lst, lambda r: r)(rec)
        self.memo[key] = out
        return out

    def x_texinfo(self, r):
        d = dict(r)
        d['td'] = self.w['texdata'][r['td']]
        return d

    def x_surfedges(self, r):
        return {'a': self.get('vertexes', r['a']), 'b': self.get('vertexes', r['b']), 'rev': r['rev']}

    def _face(self, r):
        d = dict(r)
        d['plane'] = self.get('planes', r['plane'])
        d['texinfo'] = self.get('texinfo', r['texinfo'])
        d['edges'] = [self.get('surfedges', e) for e in r['edges']]
        d['orig'] = self.get('orig_faces', r['orig'])
        d['prims'] = [self.get('primitives', p) for p in r['prims']]
        return d

    x_faces = x_orig_faces = x_hdr_faces = _face

    def x_brushes(self, r):
        return {'contents': r['contents'], 'sides': [
            dict(s, plane=self.get('planes', s['plane']), texinfo=self.get('texinfo', s['texinfo'])) for s in r['sides']]}

    def x_visleafs(self, r):
        d = dict(r)
        d['faces'] = [self.get('faces', f) for f in r['faces']]
        d['brushes'] = [self.get('brushes', b) for b in r['brushes']]
        return d

    def child(self, c):
        if c is None:
            return None
        return [c[0], self.get('visleafs' if c[0] == 'l' else 'nodes', c[1])]

    def x_nodes(self, r):
        d = dict(r)
        d['plane'] = self.get('planes', r['plane'])
        d['faces'] = [self.get('faces', f) for f in r['faces']]
        d['neg'] = self.child(r['neg'])
        d['pos'] = self.child(r['pos'])
        return d

    def view(self, name: str):
        w = self.w
        if name not in w:
            return '<absent>'
        val = w[name]
        if isinstance(val, dict) and '__error__' in val:
            return val
        if name in ('texinfo', 'surfedges', 'faces', 'orig_faces', 'hdr_faces', 'brushes', 'visleafs', 'nodes'):
            return [self.get(name, i) for i in range(len(val))]
        if name == 'water_leaf_info':
            return [dict(r, texinfo=self.get('texinfo', r['texinfo'])) for r in val]
        if name == 'overlays':
            return [dict(r, texinfo=self.get('texinfo', r['texinfo'])) for r in val]
        if name == 'bmodels':
            return [None if r is None else dict(r, node=self.get('nodes', r['node']),
                                                faces=[self.get('faces', f) for f in r['faces']]) for r in val]
        if name == 'props':
            out = []
            for r in val['props']:
                leafs = [self.get('visleafs', x) for x in r['leafs']]
                leafs.sort(key=jd)
                out.append(dict(r, leafs=leafs))
            return {'version': val['version'], 'props': out}
        return val


def first_diff(a: Any, b: Any, path: str = '') -> Optional[str]:
    """Human-readable location of the first difference between two plain structures (None if equal)."""
    if type(a) is not type(b) and not (isinstance(a, (int, float)) and isinstance(b, (int, float))):
        return f'{path}: {str(a)[:120]!r} != {str(b)[:120]!r}'
    if isinstance(a, dict):
        for k in sorted(set(a) | set(b)):
            if k not in a:
                return f'{path}.{k}: missing on the left (right has {str(b[k])[:100]})'
            if k not in b:
                return f'{path}.{k}: missing on the right (left has {str(a[k])[:100]})'
            d = first_diff(a[k], b[k], f'{path}.{k}')
            if d:
                return d
        return None
    if isinstance(a, list):
        if len(a) != len(b):
            return f'{path}: length {len(a)} != {len(b)}'
        for i, (x, y) in enumerate(zip(a, b)):
            d = first_diff(x, y, f'{path}[{i}]')
            if d:
                return d
        return None
    if a != b:
        return f'{path}: {a!r} != {b!r}'
    return None


# ---------------------------------------------------------------------------------------------------------
# the synthetic world (every structured lump non-empty; all floats float32-representable)

SPV = {v.name: v for v in B.StaticPropVersion}


def prop_defaults() -> dict:
    """What the library's reader yields for fields a static-prop version does not store."""
    return {'fade_scale': 1, 'dx': [0, 0], 'cpu': [0, 0], 'gpu': [0, 0], 'tint': [255, 255, 255], 'renderfx': 255,
            'xbox': False, 'lightmap': [32, 32], 'scaling': [1.0, 1.0, 1.0]}


def prop_fields(ver: str) -> set:
    """Fields stored on disk by a static-prop version (besides the always-present ones)."""
    v = SPV[ver]
    num = 7 if v.is_lightmap else v.version
    s = set()
    if num >= 5:
        s.add('fade_scale')
    if num in (6, 7):
        s.add('dx')
    if num >= 8:
        s |= {'cpu', 'gpu'}
    if v.is_lightmap:
        s |= {'lightmap', 'flags32'}
    if num >= 7 and not v.is_sdk_2013:
        s |= {'tint', 'renderfx'}
    if num >= 9 and not v.is_lightmap:
        s.add('xbox')
    if num >= 10 or v is B.StaticPropVersion.V_LIGHTMAP_MESA:
        s.add('flags_sec')
    if v is B.StaticPropVersion.V_CHAOS_V13:
        s.add('scale3')
    elif num >= 11:
        s.add('scale1')
    return s


def norm_prop(rec: dict, ver: str) -> dict:
    """Project a prop record on what the version can store (representability rule)."""
    fs = prop_fields(ver)
    d = dict(rec)
    dflt = prop_defaults()
    for k in ('fade_scale', 'dx', 'cpu', 'gpu', 'tint', 'renderfx', 'xbox', 'lightmap'):
        if k not in fs:
            d[k] = dflt[k]
    if 'scale3' in fs:
        pass
    elif 'scale1' in fs:
        d['scaling'] = [d['scaling'][0]] * 3
    else:
        d['scaling'] = dflt['scaling']
    if 'flags32' in fs:
        d['flags'] &= 0xFFFFFFFF
    elif 'flags_sec' in fs:
        d['flags'] &= 0xFFFFFFFFFF
    else:
        d['flags'] &= 0xFF
    return d


def make_world(layout: str, origin_vertex: bool = False, variants: bool = True) -> dict:
    lay = LAYOUTS[layout]
    vit = layout == 'vitamin'
    frac = 0.5 if lay['bounds'] == 'f' else 0  # Chaos stores node/leaf bounds as floats
    sgn = 1 if lay['bounds'] == 'I' else -1     # VitaminSource leaf bounds are unsigned
    w: dict = {}
    # the last two names are a prefix and an inner substring of earlier ones (string-table de-duplication must not alias them)
    w['textures'] = ['TOOLS/TOOLSNODRAW', 'brick/Wall01', 'nature/water_x', 'brick/Wall', 'ature/wat']
    w['texdata'] = [{'mat': 'brick/Wall01', 'refl': [0.25, 0.5, 0.125], 'w': 512, 'h': 256},
                    {'mat': 'nature/water_x', 'refl': [0.0, 0.75, 1.0], 'w': 64, 'h': 64}]
    w['texinfo'] = [
        {'s': [0.25, 0.0, 0.0, 16.0], 't': [0.0, -0.25, 0.0, 32.5], 'ls': [0.0625, 0.0, 0.0, 1.0], 'lt': [0.0, -0.0625, 0.0, 2.0], 'flags': 0, 'td': 0},
        {'s': [0.0, 0.5, 0.0, -8.0], 't': [0.0, 0.0, -0.5, 0.0], 'ls': [0.0, 0.03125, 0.0, 0.5], 'lt': [0.0, 0.0, -0.03125, 0.25], 'flags': 0x0410, 'td': 1},
        {'s': [1.0, 0.0, 0.0, 0.0], 't': [0.0, 1.0, 0.0, 0.0], 'ls': [0.0, 0.0, 0.0, -99999.0], 'lt': [0.0, 0.0, 0.0, -99999.0], 'flags': 0x0080, 'td': 1},
    ]
    if layout == 'l4d2' and variants:
        # two texdata records for ONE material with different reflectivity and size (a tool patched the size used by some faces):
        # each texinfo keeps the record it points at
        w['texdata'].append({'mat': 'brick/Wall01', 'refl': [0.5, 0.5, 0.5], 'w': 128, 'h': 64})
        w['texinfo'].append({'s': [0.5, 0.0, 0.0, 0.0], 't': [0.0, 0.5, 0.0, 0.0], 'ls': [0.125, 0.0, 0.0, 0.0], 'lt': [0.0, 0.125, 0.0, 0.0], 'flags': 0, 'td': 2})
    w['planes'] = [{'n': [0.0, 0.0, 1.0], 'd': 0.0, 't': 2}, {'n': [1.0, 0.0, 0.0], 'd': 64.0, 't': 0},
                   {'n': [0.0, 1.0, 0.0], 'd': -64.0, 't': 1}, {'n': [0.5, 0.75, 0.25], 'd': 12.5, 't': 4},
                   # the type field is stored data: a 45-degree plane (tie), a nearly axial one, and a non-canonical value
                   {'n': [f32(0.70710677), f32(0.70710677), 0.0], 'd': 3.0, 't': 3}, {'n': [f32(0.9962), f32(0.0872), 0.0], 'd': 4.0, 't': 3},
                   {'n': [0.0, 0.0, 1.0], 'd': 5.0, 't': 5}]
    w['vertexes'] = [[-64.0, -64.0, 0.0], [64.0, -64.0, 0.0], [64.0, 64.0, 0.5], [-64.0, 64.0, 0.0], [0.25, 0.0, 128.5]]
    if origin_vertex:
        w['vertexes'].append([0.0, 0.0, 0.0])
    w['surfedges'] = [
        {'a': 0, 'b': 1, 'e': 0, 'rev': False}, {'a': 1, 'b': 2, 'e': 1, 'rev': False}, {'a': 2, 'b': 0, 'e': 2, 'rev': False},
        {'a': 0, 'b': 2, 'e': 2, 'rev': True}, {'a': 2, 'b': 3, 'e': 3, 'rev': False}, {'a': 3, 'b': 0, 'e': 4, 'rev': False},
        {'a': 0, 'b': 4, 'e': 5, 'rev': False}, {'a': 4, 'b': 1, 'e': 6, 'rev': False}, {'a': 1, 'b': 0, 'e': 0, 'rev': True},
    ]
    if vit:
        w['primitives'] = []
        w['orig_faces'] = []
        w['hdr_faces'] = []
    else:
        w['primitives'] = [{'type': 0, 'inds': [0, 1, 2], 'verts': [[1.0, 2.0, 3.0], [4.5, 5.5, 6.5]]},
                           {'type': 1, 'inds': [2, 1], 'verts': []}]

    def face(plane, e0, n, ti, orig, prims, **kw):
        d = {'plane': plane, 'side': False, 'on_node': True, 'edges': list(range(e0, e0 + n)), 'texinfo': ti,
             'disp': -1, 'fog': -1, 'styles': '00ffffff', 'lmoff': 64, 'area': 8192.0, 'lm_mins': [-4, 7],
             'lm_size': [8, 9], 'orig': orig, 'prims': prims, 'dyn': True, 'smooth': 0, 'hid': None, 'vflags': 0}
        d.update(kw)
        if vit:
            d.update(side=False, on_node=False, fog=0, styles='00000000', lmoff=0, area=0, orig=None, prims=[],
                     dyn=False, smooth=0, hid=None)
        else:
            d['vflags'] = 0
        return d

    if not vit:
        w['orig_faces'] = [face(0, 0, 3, 0, None, [], hid=101, lmoff=-1), face(3, 6, 3, 1, None, [], side=True, hid=77, lmoff=-1)]
    w['faces'] = [face(0, 0, 3, 0, 0, [0], hid=100, vflags=1), face(0, 3, 3, 0, 0, [], hid=101, dyn=False, smooth=5, lmoff=512, vflags=0),
                  face(3, 6, 3, 1, 1, [1], side=True, on_node=False, hid=77, fog=2, area=0.5, disp=3, vflags=255)]
    if not vit:
        w['hdr_faces'] = [dict(f, lmoff=f['lmoff'] + 4096) for f in w['faces']]
    if layout == 'infra' and variants:
        # a map compiled without original faces (the lump is empty, every face's original-face index is -1)
        w['orig_faces'] = []
        for f in w['faces'] + w['hdr_faces']:
            f['orig'] = None
    if layout == 'v20':
        w['hdr_faces'] = []          # an LDR-only map: face IDs present, no HDR faces (the face-ID lump is shared by both views)

    def side(plane, ti, bevel=False, bits=0, disp=0):
        return {'plane': plane, 'texinfo': ti, 'disp': disp, 'bevel': bevel, 'bits': bits}

    w['brushes'] = [{'contents': 1, 'sides': [side(0, 0), side(1, 0), side(2, 1, True), side(3, 2, False, 4 if vit else 0x100, 1)]},
                    {'contents': 0x20 | 0x10000000, 'sides': [side(0, 2), side(1, 2, True), side(3, 2)]}]
    amb = (bytes(range(1, 25)).hex() if layout == 'v19' else bytes(24).hex())

    def leaf(contents, cluster, area, flags, mins, maxes, faces, brushes, water_id, dist, ambient=None):
        return {'contents': contents, 'cluster': cluster, 'area': area, 'flags': flags,
                'mins': [(abs(x) if sgn > 0 else x) + frac for x in mins], 'maxes': [abs(x) + frac if sgn > 0 else x + frac for x in maxes],
                'faces': faces, 'brushes': brushes, 'water_id': water_id,
                'ambient': ambient if ambient is not None else bytes(24).hex(), 'dist': dist}

    w['visleafs'] = [leaf(1, -1, 0, 0, [0, 0, 0], [0, 0, 0], [], [0], -1, 65535),
                     leaf(0, 0, 1, 0x05, [-64, -64, -8], [64, 64, 128], [0, 1], [0, 1], -1, 12, amb),
                     # area numbers up to the width of the field: 15 bits in the Chaos layout, 255 fits every other one
                     leaf(0x20, 1, 600 if layout == 'chaos' else 255 if layout in ('v21', 'v19') else 3, 0x42, [-64, -64, -128], [64, 64, -8], [2], [], 0, 0, amb)]
    bmin = [(abs(x) if sgn > 0 and False else x) + frac for x in [-64, -64, -128]]
    w['nodes'] = [{'plane': 0, 'mins': bmin, 'maxes': [64 + frac, 64 + frac, 128 + frac], 'faces': [0, 1], 'area': 0, 'neg': ['n', 1], 'pos': ['l', 0]},
                  {'plane': 1, 'mins': bmin, 'maxes': [64 + frac, 64 + frac, -8 + frac], 'faces': [2], 'area': 1, 'neg': ['l', 1], 'pos': ['l', 2]}]
    w['water_leaf_info'] = [{'surf_z': 12.5, 'min_z': -3.25, 'texinfo': 2}]
    w['visibility'] = {'pvs': ['03', '02'], 'pas': ['03', '03']}
    sep_comma = not lay['esc']
    w['ents'] = [
        {'kv': sorted([['classname', 'worldspawn'], ['mapversion', '7'], ['skyname', 'sky_day01_01'], ['world_mins', '-64 -64 -128']]), 'outs': []},
        {'kv': sorted([['classname', 'func_brush'], ['origin', '0 0 16'], ['targetname', 'Door_1']]), 'outs': []},
        {'kv': sorted([['classname', 'logic_relay'], ['targetname', 'relay'], ['spawnflags', '0']]), 'outs': [
            ['OnTrigger', None, 'Door_1', 'Toggle', None, '', 0.0, -1, sep_comma],
            ['OnTrigger', None, 'counter', 'Add', None, '3', 1.5, 1, sep_comma],
            ['OnSpawn', 'inner', 'inst', 'Fire', 'other', 'a b', 0.25, 5, sep_comma]]},
        {'kv': sorted([['classname', 'info_target'], ['message', 'dir\\path 1,2,3'], ['angles', '0 90 0']]), 'outs': []},
    ]
    phys_kv = [['solid', [['index', '0'], ['mass', '1.5'], ['surfaceprop', 'default']]]]
    w['bmodels'] = [
        {'cls': 0, 'mins': [-64.0, -64.0, -128.0], 'maxes': [64.0, 64.0, 128.5], 'origin': [0.0, 0.0, 0.0], 'node': 0, 'faces': [0, 1],
         'phys_kv': phys_kv, 'solids': [b'VPHY\x00\x01solid-one'.hex(), b'\xff\x00\xfe'.hex()]},
        {'cls': 1, 'mins': [-8.0, -8.0, 0.0], 'maxes': [8.0, 8.0, 32.0], 'origin': [0.0, 0.0, 16.0], 'node': 1, 'faces': [2],
         'phys_kv': None, 'solids': []},
        {'cls': 2, 'mins': [0.0, 0.0, 0.0], 'maxes': [1.0, 1.0, 1.0], 'origin': [0.0, 0.0, 0.0], 'node': 1, 'faces': [],
         'phys_kv': [['solid', [['index', '0'], ['surfaceprop', 'metal']]], ['editparams', [['concave', '1']]]], 'solids': []},
        None]
    w['cubemaps'] = [{'origin': [16, -32, 72], 'size': 0}, {'origin': [-500, 0, 1], 'size': 7}]

    def overlay(oid, ti, faces, order, fade, levels):
        return {'id': oid, 'origin': [8.0, 8.0, 0.5], 'normal': [0.0, 0.0, 1.0], 'texinfo': ti, 'faces': faces, 'order': order,
                'u': [0.0, 1.0], 'v': [0.25, 0.75], 'uv1': [-16.0, -16.0, 1.0], 'uv2': [-16.0, 16.0, 0.0], 'uv3': [16.0, 16.0, 0.0],
                'uv4': [16.0, -16.0, 0.5], 'fade': fade, 'levels': levels}

    w['overlays'] = [overlay(11, 2, [0, 1], 0, [-1.0, 0.0], [0, 0, 0, 0]), overlay(12, 1, [2], 3, [100.0, 40000.0], [1, 2, 3, 254])]
    if layout == 'v21':
        # every overlay with the default fades and zero minimum levels; only a maximum level is set
        w['overlays'] = [overlay(11, 2, [0, 1], 0, [-1.0, 0.0], [0, 0, 0, 0]), overlay(12, 1, [2], 3, [-1.0, 0.0], [0, 2, 0, 1])]
    ver = lay['sprp']

    def prop(model, leafs, **kw):
        d = {'model': model, 'origin': [1.5, -2.25, 3.0], 'angles': [12.5, 270.0, 0.0], 'scaling': [1.25, 0.5, 2.0], 'leafs': leafs,
             'solidity': 6, 'flags': 0x414, 'skin': 1, 'fade': [8.25, 12.75], 'lighting': [0.375, -1.5, -5.25], 'fade_scale': -1.0,
             'dx': [1, 3], 'cpu': [2, 4], 'gpu': [3, 6], 'tint': [192, 255, 64], 'renderfx': 128, 'xbox': True, 'lightmap': [48, 16]}
        d.update(kw)
        return norm_prop(d, ver)

    w['props'] = {'version': ver, 'props': [prop('models/props/a.mdl', [1, 2]),
                                            prop('models/props_b/thing02.mdl', [1], flags=0x01, skin=-1, solidity=0, xbox=False),
                                            prop('models/props/a.mdl', [], origin=[0.0, 0.0, 0.0]),
                                            prop('models/Props/A.MDL', [2], origin=[4.0, 0.0, 0.0]),      # differs from the first in case only
                                            prop('models/' + 'w' * 117 + '.mdl', [1], origin=[5.0, 0.0, 0.0])]}   # exactly 128 bytes: fills the name field
    base_d = {'origin': [3.0, 4.0, 5.5], 'angles': [0.0, 45.0, 0.0], 'orient': 0, 'leaf': 1, 'lighting': [10, 20, 30, 255], 'styles': [0, 0], 'sway': 0}
    w['detail_props'] = [
        dict(base_d, kind='model', model='models/detail/grass.mdl'),
        dict(base_d, kind='sprite', orient=2, scale=1.5, dims=[-8.0, 16.0, 8.0, 0.0], tex=[0.0, 0.0, 0.5, 0.5], sway=200, styles=[7, 1]),
        dict(base_d, kind='shape', leaf=2, scale=0.75, dims=[-4.0, 8.0, 4.0, 0.0], tex=[0.5, 0.0, 1.0, 0.5], cross=True, shape_angle=30, shape_size=128),
        dict(base_d, kind='shape', leaf=2, scale=0.75, dims=[-4.0, 8.0, 4.0, 0.0], tex=[0.5, 0.0, 1.0, 0.5], cross=False, shape_angle=0, shape_size=1),
        dict(base_d, kind='model', model='models/detail/rock.mdl', orient=1),
        dict(base_d, kind='model', model='models/detail/' + 'd' * 110 + '.mdl', orient=0),       # exactly 128 bytes
    ]
    w['pakfile'] = [['materials/maps/synth/c0_0_0.vmt', b'"LightmappedGeneric"\n{\n}\n'.hex()], ['cfg/x.txt', b'hello'.hex()]]
    return w


def filler(i: int, rich: bool = True) -> tuple[bytes, int]:
    """Deterministic content + version for the lumps that have no structured view.  rich: every such lump is
    non-empty; otherwise only a handful (used for the fully LZMA-compressed files, where every non-empty lump costs
    an LZMA encoder set-up per save)."""
    if rich:
        n = [5, 12, 33, 64, 7, 1, 20][i % 7]
    else:
        n = [5, 12, 33, 64, 7][i % 5] if i % 4 == 1 else 0
    data = hashlib.sha256(b'lump%d' % i).digest() * 3
    if i % 8 == 1:
        data = data[:3] + bytes(40) + data[3:]  # some compressible content
    return data[:n], (i % 3)


# ---------------------------------------------------------------------------------------------------------
# world -> lump bytes (independent encoder)

def rle(data: bytes) -> bytes:
    out = bytearray()
    i = 0
    while i < len(data):
        if data[i]:
            out.append(data[i])
            i += 1
        else:
            j = i
            while j < len(data) and data[j] == 0 and j - i < 255:
                j += 1
            out += bytes([0, j - i])
            i = j
    return bytes(out)


def unrle(data: bytes, start: int, nbytes: int) -> bytes:
    out = bytearray()
    i = start
    while len(out) < nbytes:
        if data[i]:
            out.append(data[i])
            i += 1
        else:
            out += bytes(data[i + 1])
            i += 2
    return bytes(out[:nbytes])


def _contig(refs: list, what: str) -> tuple[int, int]:
    if not refs:
        return 0, 0
    assert refs == list(range(refs[0], refs[0] + len(refs))), (what, refs)
    return refs[0], len(refs)


def _name128(s: str) -> bytes:
    b = s.encode('ascii', 'surrogateescape')
    assert len(b) <= 128
    return b.ljust(128, b'\0')


def kv_text(tree: list, ind: str = '') -> str:
    out = ''
    for name, val in tree:
        if isinstance(val, list):
            out += f'{ind}"{name}"\n{ind}{{\n{kv_text(val, ind + chr(9))}{ind}}}\n'
        else:
            out += f'{ind}"{name}" "{val}"\n'
    return out


def _esc(s: str) -> str:
    # the entity-lump dialect srctools reads: backslash escapes inside quotes
    return s.replace('\\', '\\\\').replace('"', '\\"').replace('\t', '\\t')


def encode_props(world_props: dict, leaf_fmt: str) -> bytes:
    ver = world_props['version']
    fs = prop_fields(ver)
    models: list[str] = []
    leaf_arr: list[int] = []
    body = bytearray()
    for p in world_props['props']:
        if p['model'] not in models:
            models.append(p['model'])
        first = len(leaf_arr)
        leaf_arr.extend(sorted(p['leafs']))
        rec = struct.pack('<3f3fH', *p['origin'], *p['angles'], models.index(p['model']))
        rec += struct.pack('<HHBBiff3f', first, len(p['leafs']), p['solidity'],
                           0 if 'flags32' in fs else p['flags'] & 0xFF, p['skin'], *p['fade'], *p['lighting'])
        if 'fade_scale' in fs:
            rec += struct.pack('<f', p['fade_scale'])
        if 'dx' in fs:
            rec += struct.pack('<HH', *p['dx'])
        if 'cpu' in fs:
            rec += struct.pack('<BBBB', *p['cpu'], *p['gpu'])
        if 'flags32' in fs:
            rec += struct.pack('<IHH', p['flags'] & 0xFFFFFFFF, *p['lightmap'])
        if 'tint' in fs:
            rec += struct.pack('<BBBB', *[int(x) for x in p['tint']], p['renderfx'])
        if 'xbox' in fs:
            rec += struct.pack('<?xxx', p['xbox'])
        if 'flags_sec' in fs:
            rec += struct.pack('<I', p['flags'] >> 8)
        if 'scale3' in fs:
            rec += struct.pack('<fff', *p['scaling'])
        elif 'scale1' in fs:
            rec += struct.pack('<f', p['scaling'][0])
        assert len(rec) == SPV[ver].size, (ver, len(rec))
        body += rec
    out = struct.pack('<i', len(models)) + b''.join(_name128(m) for m in models)
    out += struct.pack('<i', len(leaf_arr)) + struct.pack('<%d%s' % (len(leaf_arr), leaf_fmt), *leaf_arr)
    out += struct.pack('<i', len(world_props['props'])) + bytes(body)
    return out


def encode_detail(props: list) -> bytes:
    models: list[str] = []
    sprites: list[tuple] = []
    body = b''
    for p in props:
        if p['kind'] == 'model':
            if p['model'] not in models:
                models.append(p['model'])
            idx, typ, scale, ang, size = models.index(p['model']), 0, 1.0, 0, 1
        else:
            key = tuple(p['dims'] + p['tex'])
            if key not in sprites:
                sprites.append(key)
            idx = sprites.index(key)
            scale = p['scale']
            if p['kind'] == 'sprite':
                typ, ang, size = 1, 0, 1
            else:
                typ, ang, size = (3 if p['cross'] else 2), p['shape_angle'], p['shape_size']
        body += struct.pack('<3f3fHH4BI5B3xB3xf', *p['origin'], *p['angles'], idx, p['leaf'], *p['lighting'],
                            p['styles'][0], p['styles'][1], p['sway'], ang, size, p['orient'], typ, scale)
    out = struct.pack('<i', len(models)) + b''.join(_name128(m) for m in models)
    out += struct.pack('<i', len(sprites)) + b''.join(struct.pack('<8f', *s) for s in sprites)
    out += struct.pack('<i', len(props)) + body
    return out


def encode_ents(world: dict) -> bytes:
    """Entity lump text.  Brush entities get their "model" "*N" key from world['bmodels'] (slot i <-> entity i;
    bmodel numbers follow the 'cls' field)."""
    out = ''
    bm = world.get('bmodels') or []
    for i, ent in enumerate(world['ents']):
        out += '{\n'
        for k, v in ent['kv']:
            out += f'"{k}" "{_esc(v)}"\n'
        if i > 0 and i < len(bm) and bm[i] is not None:
            out += f'"model" "*{bm[i]["cls"]}"\n'
        for o in ent['outs']:
            name, inst_out, targ, inp, inst_in, params, delay, times, comma = o
            sep = ',' if comma else '\x1b'
            if inst_out:
                name = f'instance:{inst_out};{name}'
            if inst_in:
                inp = f'instance:{inst_in};{inp}'
            out += f'"{name}" "{targ}{sep}{inp}{sep}{params}{sep}{delay!r}{sep}{times}"\n'
        out += '}\n'
    return out.encode('ascii', 'surrogateescape') + b'\0'


def encode_world(world: dict, layout: str) -> tuple[dict[int, bytes], dict[bytes, bytes]]:
    """Returns ({lump index: payload}, {game lump id: payload}) for the structured lumps."""
    lay = LAYOUTS[layout]
    tbl = lay['tbl']
    vit = layout == 'vitamin'
    chaos = layout == 'chaos'
    lumps: dict[int, bytes] = {}

    def put(lump, data: bytes):
        lumps[lump.value] = data

    # texture names
    strings = b''
    table = b''
    for t in world['textures']:
        table += struct.pack('<i', len(strings))
        strings += t.encode('ascii', 'surrogateescape') + b'\0'
    put(L.TEXDATA_STRING_DATA, strings)
    put(L.TEXDATA_STRING_TABLE, table)
    folded = [t.casefold() for t in world['textures']]
    td = b''
    for r in world['texdata']:
        ti = folded.index(r['mat'].casefold())
        if vit:
            td += struct.pack('<3f3i', *r['refl'], ti, r['w'], r['h'])
        else:
            td += struct.pack('<3f5i', *r['refl'], ti, r['w'], r['h'], r['w'], r['h'])
    put(L.TEXDATA, td)
    put(L.TEXINFO, b''.join(struct.pack('<16fii', *r['s'], *r['t'], *r['ls'], *r['lt'], r['flags'], r['td']) for r in world['texinfo']))
    put(L.PLANES, b''.join(struct.pack('<ffffi', *r['n'], r['d'], r['t']) for r in world['planes']))
    put(L.VERTEXES, b''.join(struct.pack('<fff', *v) for v in world['vertexes']))
    # edges: index 0 is the reserved dummy edge, then one per edge class
    classes: dict[int, tuple[int, int]] = {}
    for s in world['surfedges']:
        fwd = (s['b'], s['a']) if s['rev'] else (s['a'], s['b'])
        assert classes.setdefault(s['e'], fwd) == fwd
    assert sorted(classes) == list(range(len(classes)))
    put(L.EDGES, tbl['EDGE'].pack(0, 0) + b''.join(tbl['EDGE'].pack(*classes[k]) for k in range(len(classes))))
    put(L.SURFEDGES, b''.join(struct.pack('<i', -(s['e'] + 1) if s['rev'] else s['e'] + 1) for s in world['surfedges']))
    # primitives
    pinds: list[int] = []
    pverts = b''
    prim = b''
    nverts = 0
    for p in world['primitives']:
        prim += tbl['PRIMITIVE'].pack(p['type'], len(pinds), len(p['inds']), nverts, len(p['verts']))
        pinds += p['inds']
        nverts += len(p['verts'])
        pverts += b''.join(struct.pack('<fff', *v) for v in p['verts'])
    put(L.PRIMITIVES, prim)
    put(L.PRIMINDICES, b''.join(tbl['PRIMINDEX'].pack(i) for i in pinds))
    put(L.PRIMVERTS, pverts)

    def enc_faces(faces: list, is_orig: bool) -> bytes:
        out = b''
        for f in faces:
            e0, en = _contig(f['edges'], 'face edges')
            p0, pn = _contig(f['prims'], 'face prims')
            ti = -1 if f['texinfo'] is None else f['texinfo']
            if is_orig:
                # the texinfo of an original face is supplied by its split faces when those are parsed
                ti = next((g['texinfo'] for g in world['faces'] if g['orig'] == faces.index(f)), -1)
            if vit:
                out += struct.pack('<5i4iB3x', f['plane'], ti, f['disp'], e0, en, *f['lm_mins'], *f['lm_size'], f['vflags'])
                continue
            orig = -1 if f['orig'] is None else f['orig']
            pnum = pn | (0 if f['dyn'] else 0x8000)
            out += tbl['FACE'].pack(f['plane'], f['side'], f['on_node'], e0, en, ti, f['disp'], f['fog'], bytes.fromhex(f['styles']),
                                    f['lmoff'], f['area'], *f['lm_mins'], *f['lm_size'], orig, pnum, p0, f['smooth'])
        return out

    put(L.FACES, enc_faces(world['faces'], False))
    put(L.ORIGINALFACES, enc_faces(world['orig_faces'], True))
    put(L.FACES_HDR, enc_faces(world['hdr_faces'], False))
    if not vit:
        put(L.FACEIDS, b''.join(tbl['FACEID'].pack(f['hid'] or 0) for f in world['faces']))
    # brushes
    sides = b''
    brushes = b''
    nsides = 0
    for b in world['brushes']:
        brushes += struct.pack('<iii', nsides, len(b['sides']), b['contents'])
        for s in b['sides']:
            if vit:
                sides += tbl['BRUSHSIDE'].pack(s['plane'], s['texinfo'], s['disp'], s['bevel'], s['bits'])
            else:
                sides += tbl['BRUSHSIDE'].pack(s['plane'], s['texinfo'], s['disp'], int(s['bevel']) | s['bits'])
        nsides += len(b['sides'])
    put(L.BRUSHES, brushes)
    put(L.BRUSHSIDES, sides)
    # leafs
    lfaces: list[int] = []
    lbrushes: list[int] = []
    leafs = b''
    dists = b''
    shift = tbl['LEAF_AREA_OFFSET']
    for lf in world['visleafs']:
        f0, b0 = len(lfaces), len(lbrushes)
        lfaces += lf['faces']
        lbrushes += lf['brushes']
        dists += struct.pack('<H', lf['dist'])
        if vit:
            leafs += tbl['LEAF'].pack(lf['contents'], lf['cluster'], lf['area'], *lf['mins'], *lf['maxes'],
                                      f0, len(lf['faces']), b0, len(lf['brushes']), lf['water_id'], lf['flags'])
        else:
            head = (lf['contents'], lf['cluster'], lf['area'] << shift | lf['flags'], *lf['mins'], *lf['maxes'],
                    f0, len(lf['faces']), b0, len(lf['brushes']), lf['water_id'])
            if layout == 'v19':
                head += (bytes.fromhex(lf['ambient']),)
            leafs += tbl['LEAF'].pack(*head)
    put(L.LEAFS, leafs)
    put(L.LEAFFACES, b''.join(tbl['LEAFFACE'].pack(i) for i in lfaces))
    put(L.LEAFBRUSHES, b''.join(tbl['LEAFBRUSH'].pack(i) for i in lbrushes))
    put(L.LEAFMINDISTTOWATER, dists)

    def child(c):
        return c[1] if c[0] == 'n' else -1 - c[1]

    nodes = b''
    for n in world['nodes']:
        f0, fn = _contig(n['faces'], 'node faces')
        nodes += tbl['NODE'].pack(n['plane'], child(n['neg']), child(n['pos']), *n['mins'], *n['maxes'], f0, fn, n['area'])
    put(L.NODES, nodes)
    put(L.LEAFWATERDATA, b''.join(tbl['LEAFWATERDATA'].pack(r['surf_z'], r['min_z'], r['texinfo']) for r in world['water_leaf_info']))
    vis = world['visibility']
    if vis is None:
        put(L.VISIBILITY, b'')
    else:
        n = len(vis['pvs'])
        head = 4 + 8 * n
        body = b''
        offs = b''
        for pvs, pas in zip(vis['pvs'], vis['pas']):
            a = head + len(body)
            body += rle(bytes.fromhex(pvs))
            b_ = head + len(body)
            body += rle(bytes.fromhex(pas))
            offs += struct.pack('<ii', a, b_)
        put(L.VISIBILITY, struct.pack('<i', n) + offs + body)
    # brush models, numbered by 'cls'
    by_cls: dict[int, dict] = {}
    for m in world['bmodels']:
        if m is not None:
            by_cls.setdefault(m['cls'], m)
    assert sorted(by_cls) == list(range(len(by_cls)))
    models = b''
    phys = b''
    for k in range(len(by_cls)):
        m = by_cls[k]
        f0, fn = _contig(m['faces'], 'model faces')
        models += struct.pack('<9fiii', *m['mins'], *m['maxes'], *m['origin'], m['node'], f0, fn)
        if m['phys_kv'] is not None or m['solids']:
            text = (kv_text(m['phys_kv'] or []).encode('ascii')) + b'\0'
            sol = [bytes.fromhex(s) for s in m['solids']]
            phys += struct.pack('<iiii', k, sum(len(s) + 4 for s in sol), len(text), len(sol))
            for s in sol:
                phys += struct.pack('<i', len(s)) + s
            phys += text
    phys += struct.pack('<iiii', -1, 0, 0, 0)
    put(L.MODELS, models)
    put(L.PHYSCOLLIDE, phys)
    put(L.ENTITIES, encode_ents(world))
    put(L.CUBEMAPS, b''.join(struct.pack('<iiii', *[int(x) for x in c['origin']], c['size']) for c in world['cubemaps']))
    ov = b''
    fades = b''
    levels = b''
    for o in world['overlays']:
        ov += struct.pack('<ihH', o['id'], o['texinfo'], o['order'] << 14 | len(o['faces']))
        ov += struct.pack('<64i', *(o['faces'] + [0] * (64 - len(o['faces']))))
        ov += struct.pack('<4f', *o['u'], *o['v'])
        ov += struct.pack('<18f', *o['uv1'], *o['uv2'], *o['uv3'], *o['uv4'], *o['origin'], *o['normal'])
        fades += struct.pack('<ff', *o['fade'])
        levels += struct.pack('<4B', *o['levels'])
    put(L.OVERLAYS, ov)
    put(L.OVERLAY_FADES, fades)
    put(L.OVERLAY_SYSTEM_LEVELS, levels)
    # pakfile
    buf = io.BytesIO()
    with zipfile.ZipFile(buf, 'w', zipfile.ZIP_STORED) as zf:
        for name, data in world['pakfile']:
            zi = zipfile.ZipInfo(name, (2004, 11, 16, 0, 0, 0))
            zf.writestr(zi, bytes.fromhex(data))
    put(L.PAKFILE, buf.getvalue())
    game = {b'sprp': encode_props(world['props'], tbl['STATICPROPLEAF'].format[1]), b'dprp': encode_detail(world['detail_props'])}
    return lumps, game


BIG_RAW_LUMP = 63     # an unstructured lump: carries the long-distance-repeat payload in the compressed variants


def big_repeat_block() -> bytes:
    """12 KiB whose LZMA stream is about 3 KiB and refers back 9 KiB: 3000 incompressible bytes, 6000 zeros, the same
    3000 bytes again (a decoder window smaller than the distance cannot decode it)."""
    blk = b''.join(hashlib.sha256(b'big%d' % k).digest() for k in range(94))[:3000]
    return blk + bytes(6000) + blk


def synth_file(layout: str, compress: str = 'none', game_comp: bool = False, origin_vertex: bool = False,
               world: Optional[dict] = None, broken: Optional[str] = None) -> tuple[bytes, dict]:
    """A fully populated BSP of the given layout.  compress: 'none' | 'one' | 'all' (LZMA on one / every
    non-empty lump except the pakfile and the game-lump container, which the format never compresses)."""
    lay = LAYOUTS[layout]
    if world is None:
        world = make_world(layout, origin_vertex)
    structured, game = encode_world(world, layout)
    lumps: dict[int, tuple[bytes, int, bool]] = {}
    for i in range(NLUMPS):
        if i == L.GAME_LUMP.value:
            continue
        if i in structured:
            data, ver = structured[i], 0
            if i == L.LEAFS.value:
                ver = {'v19': 0, 'chaos': 2}.get(layout, 1)
            elif i == L.FACES.value or i == L.FACES_HDR.value:
                ver = 1
        else:
            data, ver = filler(i, rich=compress != 'all')
            if compress != 'none' and i == BIG_RAW_LUMP:
                data = big_repeat_block()
        if i == L.ENTITIES.value:
            ver = 0  # the L4D2 header probe looks at this field
            if broken == 'ents':
                data = data.rstrip(b'\x00') + b'}\n}\n'     # too many closing brackets: the entity parser raises on this
        comp = compress == 'all' or (compress == 'one' and i in (L.LEAFS.value, BIG_RAW_LUMP))
        lumps[i] = (data, ver, comp)
    sprp_ver = SPV[lay['sprp']].version
    if broken == 'sprp':
        sprp_ver = 99      # unsupported static prop version: the props view cannot be parsed
    gl = [(b'sprp', 1 if game_comp else 0, sprp_ver, game[b'sprp']),
          (b'dprp', 1 if game_comp else 0, 4, game[b'dprp']),
          (b'xtra', 2, 3, b'opaque game lump \x00\x01\x02')]
    data = build_file(lay['magic'], lay['version'], 4242, lay['l4d2'], lumps, gl)
    return data, world


def empty_file(layout: str, sprp: Optional[str] = None) -> bytes:
    """A BSP whose structured lumps are all empty but parseable (base object for C11 assignments)."""
    lay = LAYOUTS[layout]
    lumps = {L.ENTITIES.value: (b'{\n"classname" "worldspawn"\n}\n\0', 0, False),
             L.PHYSCOLLIDE.value: (struct.pack('<iiii', -1, 0, 0, 0), 0, False)}
    ver = SPV[sprp or lay['sprp']].version
    gl = [(b'sprp', 0, ver, struct.pack('<iii', 0, 0, 0)), (b'dprp', 0, 4, struct.pack('<iii', 0, 0, 0))]
    return build_file(lay['magic'], lay['version'], 1, lay['l4d2'], lumps, gl)


SAMPLE = '/repo/tests/test_vec/rot_main.bsp'


def trimmed_sample(n_ents: int = 40) -> bytes:
    """tests/test_vec/rot_main.bsp with its entity lump cut to the first n entities (container re-assembled by
    build_file; every other lump byte-for-byte)."""
    import os
    from mcv import core
    path = os.path.join(core.REPO, 'tests/test_vec/rot_main.bsp')
    with open(path, 'rb') as f:
        raw = f.read()
    if n_ents <= 0:
        return raw
    p = parse_file(raw, False)
    ents = p['lumps'][L.ENTITIES.value]['data']
    pos = 0
    for _ in range(n_ents):
        pos = ents.index(b'}\n', pos) + 2
    ents = ents[:pos] + b'\0'
    lumps = {i: (lm['data'], lm['ver'], lm['comp']) for i, lm in enumerate(p['lumps']) if i != L.GAME_LUMP.value}
    lumps[L.ENTITIES.value] = (ents, p['lumps'][L.ENTITIES.value]['ver'], False)
    game = [(g['id'], g['flags'], g['ver'], g['data']) for g in p['game']]
    return build_file(p['magic'], p['version'], p['revision'], False, lumps, game)


# ---------------------------------------------------------------------------------------------------------
# world -> library objects through the public constructors (C11 assigns these to the views)

class Builder:
    """Inverse of the Observer.  Only the lists present in `world` are built; a reference ['x', n] is built
    from world['extras'][list][n] and is *not* put into the list (the writers have to add it)."""

    LISTS = ['textures', 'texinfo', 'planes', 'vertexes', 'surfedges', 'primitives', 'orig_faces', 'faces',
             'hdr_faces', 'brushes', 'visleafs', 'nodes']

    def __init__(self, world: dict):
        self.w = world
        self.ex = world.get('extras', {})
        self.objs: dict[str, list] = {}
        self.extra_objs: dict[tuple, Any] = {}
        self.texdata_objs: dict[int, Any] = {}
        self.edge_objs: dict[int, Any] = {}
        self.vmf: Optional[VMF] = None
        self.ent_objs: list = []

    def ref(self, lst: str, r):
        if r is None:
            return None
        if isinstance(r, list):
            key = (lst, r[1])
            if key not in self.extra_objs:
                self.extra_objs[key] = None  # cycle guard
                self.extra_objs[key] = self.make(lst, self.ex[lst][r[1]])
            return self.extra_objs[key]
        return self.get_list(lst)[r]

    def get_list(self, lst: str) -> list:
        if lst not in self.objs:
            self.objs[lst] = out = []
            recs = self.w[lst]
            if lst == 'nodes':
                # two passes: children may point forward
                for rec in recs:
                    out.append(self.make_node(rec))
                for rec, node in zip(recs, out):
                    node.child_neg = self.child(rec['neg'])
                    node.child_pos = self.child(rec['pos'])
            else:
                for rec in recs:
                    out.append(self.make(lst, rec))
        return self.objs[lst]

    def child(self, c):
        if c is None:
            return None
        return self.ref('visleafs' if c[0] == 'l' else 'nodes', c[1])

    def make(self, lst: str, rec):
        if lst == 'textures':
            return rec
        if lst == 'vertexes':
            return Vec(*rec)
        if lst == 'planes':
            return B.Plane(Vec(*rec['n']), rec['d'], B.PlaneType(rec['t']))
        if lst == 'texinfo':
            k = rec['td']
            if k not in self.texdata_objs:
                t = self.w['texdata'][k]
                self.texdata_objs[k] = B.TexData(t['mat'], Vec(*t['refl']), t['w'], t['h'])
            return B.TexInfo(Vec(*rec['s'][:3]), rec['s'][3], Vec(*rec['t'][:3]), rec['t'][3],
                             Vec(*rec['ls'][:3]), rec['ls'][3], Vec(*rec['lt'][:3]), rec['lt'][3],
                             B.SurfFlags(rec['flags']), self.texdata_objs[k])
        if lst == 'surfedges':
            e = rec['e']
            a, b = self.ref('vertexes', rec['a']), self.ref('vertexes', rec['b'])
            if e not in self.edge_objs:
                self.edge_objs[e] = B.Edge(b, a) if rec['rev'] else B.Edge(a, b)
            return self.edge_objs[e].opposite if rec['rev'] else self.edge_objs[e]
        if lst == 'primitives':
            return B.Primitive(rec['type'], list(rec['inds']), [Vec(*v) for v in rec['verts']])
        if lst in ('faces', 'orig_faces', 'hdr_faces'):
            return B.Face(
                self.ref('planes', rec['plane']), rec['side'], rec['on_node'],
                [self.ref('surfedges', e) for e in rec['edges']], self.ref('texinfo', rec['texinfo']),
                rec['disp'], rec['fog'], bytes.fromhex(rec['styles']), rec['lmoff'], rec['area'],
                tuple(rec['lm_mins']), tuple(rec['lm_size']), self.ref('orig_faces', rec['orig']),
                [self.ref('primitives', p) for p in rec['prims']], rec['dyn'], rec['smooth'], rec['hid'], rec['vflags'])
        if lst == 'brushes':
            return B.Brush(B.BrushContents(rec['contents']), [
                B.BrushSide(self.ref('planes', s['plane']), self.ref('texinfo', s['texinfo']), s['disp'], s['bevel'], s['bits'])
                for s in rec['sides']])
        if lst == 'visleafs':
            return B.VisLeaf(B.BrushContents(rec['contents']), rec['cluster'], rec['area'], B.VisLeafFlags(rec['flags']),
                             Vec(*rec['mins']), Vec(*rec['maxes']), [self.ref('faces', f) for f in rec['faces']],
                             [self.ref('brushes', b) for b in rec['brushes']], rec['water_id'],
                             bytes.fromhex(rec['ambient']), rec['dist'])
        if lst == 'nodes':
            node = self.make_node(rec)
            node.child_neg = self.child(rec['neg'])
            node.child_pos = self.child(rec['pos'])
            return node
        raise KeyError(lst)

    def make_node(self, rec):
        return B.VisTree(self.ref('planes', rec['plane']), Vec(*rec['mins']), Vec(*rec['maxes']),
                         [self.ref('faces', f) for f in rec['faces']], rec['area'])

    def make_ents(self) -> VMF:
        if self.vmf is None:
            vmf = self.vmf = VMF()
            for i, rec in enumerate(self.w['ents']):
                if i == 0:
                    ent = vmf.spawn
                    for k, v in rec['kv']:
                        ent[k] = v
                else:
                    ent = Entity(vmf, dict(rec['kv']))
                    vmf.add_ent(ent)
                for o in rec['outs']:
                    name, inst_out, targ, inp, inst_in, params, delay, times, comma = o
                    ent.add_out(Output(name, targ, inp, params, delay, times=times, inst_out=inst_out, inst_in=inst_in,
                                       comma_sep=comma))
                self.ent_objs.append(ent)
        return self.vmf

    def make_kv(self, tree) -> Keyvalues:
        def rec(name, val):
            if isinstance(val, list):
                return Keyvalues(name, [rec(n, v) for n, v in val])
            return Keyvalues(name, val)
        return Keyvalues.root(*[rec(n, v) for n, v in tree])

    def views(self) -> dict:
        """{view name: value} for every view the world describes."""
        w = self.w
        out: dict = {}
        for lst in self.LISTS:
            if lst in w:
                out[lst] = self.get_list(lst)
        if 'water_leaf_info' in w:
            out['water_leaf_info'] = [B.LeafWaterInfo(r['surf_z'], r['min_z'], self.ref('texinfo', r['texinfo']))
                                      for r in w['water_leaf_info']]
        if 'visibility' in w:
            v = w['visibility']
            out['visibility'] = None if v is None else B.Visibility([bytearray.fromhex(x) for x in v['pvs']],
                                                                    [bytearray.fromhex(x) for x in v['pas']])
        if 'ents' in w:
            out['ents'] = self.make_ents()
        if 'bmodels' in w:
            self.make_ents()
            bm: WeakKeyDictionary = WeakKeyDictionary()
            by_cls: dict = {}
            pairs = list(zip(self.ent_objs, w['bmodels']))
            if self.ex.get('__bmodels_insert_reversed'):
                pairs.reverse()          # the mapping is filled brush entities first, worldspawn last
            for ent, r in pairs:
                if r is None:
                    continue
                if r['cls'] not in by_cls:
                    by_cls[r['cls']] = B.BModel(Vec(*r['mins']), Vec(*r['maxes']), Vec(*r['origin']), self.ref('nodes', r['node']),
                                                [self.ref('faces', f) for f in r['faces']],
                                                None if r['phys_kv'] is None else self.make_kv(r['phys_kv']),
                                                [bytes.fromhex(s) for s in r['solids']])
                bm[ent] = by_cls[r['cls']]
            out['bmodels'] = bm
        if 'cubemaps' in w:
            out['cubemaps'] = [B.Cubemap(Vec(*c['origin']), c['size']) for c in w['cubemaps']]
        if 'overlays' in w:
            out['overlays'] = [
                B.Overlay(o['id'], Vec(*o['origin']), Vec(*o['normal']), self.ref('texinfo', o['texinfo']), len(o['faces']),
                          list(o['faces']), o['order'], o['u'][0], o['u'][1], o['v'][0], o['v'][1],
                          Vec(*o['uv1']), Vec(*o['uv2']), Vec(*o['uv3']), Vec(*o['uv4']), o['fade'][0], o['fade'][1],
                          o['levels'][0], o['levels'][1], o['levels'][2], o['levels'][3])
                for o in w['overlays']]
        if 'props' in w:
            out['props'] = [
                B.StaticProp(p['model'], Vec(*p['origin']), Angle(*p['angles']),
                             p['scaling'][0] if p.get('scaling_is_float') else Vec(*p['scaling']),
                             {self.ref('visleafs', x) for x in p['leafs']}, p['solidity'], B.StaticPropFlags(p['flags']), p['skin'],
                             p['fade'][0], p['fade'][1], Vec(*p['lighting']), p['fade_scale'], p['dx'][0], p['dx'][1],
                             p['cpu'][0], p['cpu'][1], p['gpu'][0], p['gpu'][1], Vec(*p['tint']), p['renderfx'], p['xbox'],
                             p['lightmap'][0], p['lightmap'][1])
                for p in w['props']['props']]
        if 'detail_props' in w:
            lst = []
            for p in w['detail_props']:
                common = (Vec(*p['origin']), Angle(*p['angles']), B.DetailPropOrientation(p['orient']), p['leaf'],
                          tuple(p['lighting']), tuple(p['styles']), p['sway'])
                if p['kind'] == 'model':
                    lst.append(B.DetailPropModel(*common, p['model']))
                else:
                    spr = (p['scale'], tuple(p['dims'][:2]), tuple(p['dims'][2:]), tuple(p['tex'][:2]), tuple(p['tex'][2:]))
                    if p['kind'] == 'sprite':
                        lst.append(B.DetailPropSprite(*common, *spr))
                    else:
                        lst.append(B.DetailPropShape(*common, *spr, p['cross'], p['shape_angle'], p['shape_size']))
            out['detail_props'] = lst
        if 'pakfile' in w:
            buf = io.BytesIO()
            zf = zipfile.ZipFile(buf, 'a', zipfile.ZIP_STORED)
            for name, data in w['pakfile']:
                zf.writestr(zipfile.ZipInfo(name, (2004, 11, 16, 0, 0, 0)), bytes.fromhex(data))
            out['pakfile'] = zf
        return out


ASSIGN_ORDER = OBSERVE_ORDER


def assign_views(bsp, world: dict) -> None:
    views = Builder(world).views()
    if 'props' in world and world['props'].get('version'):
        bsp.static_prop_version = SPV[world['props']['version']]
        bsp.game_lumps[b'sprp'].version = SPV[world['props']['version']].version
    for name in ASSIGN_ORDER:
        if name in views:
            setattr(bsp, name, views[name])
