"""C16 - FGD definitions survive text export, the binary database and lazy loading.

Four explorations, all on the real srctools.fgd / srctools._engine_db code, every result compared
with a canonical dump produced by an observer written here (never `==` of library objects):

(E-text 1)  the complete shipped database: engine_dbase() -> export (custom_syntax x label_spawnflags)
            -> parse -> field-by-field comparison of all definitions -> export again == first export;
            once for the whole database and once for every definition exported on its own.
(E-text 2)  generated FGDs: a base document plus every choice of <= d deviating fields from a feature
            lattice (value types, empty display name/default/description, long strings around the
            1000-character split limit, quotes/backslashes, tagged duplicates, aliases, helper lines,
            resources with tags, ...) x the four export option combinations.
(E-binary)  serialise -> unserialise -> get_fgd()/get_ent() for the shipped database and for generated
            engine-format FGDs (deviation bounded as above).
(B lazy)    explicit-state exploration of a fresh EngineDB: state = set of parsed blocks,
            transition = EntityDef.engine_def(first class of block i); every single block, ordered
            pairs of blocks, every order within the cross-referencing clusters, ascending and
            descending full loads; in every state everything parsed so far equals the full load.
"""
from __future__ import annotations

import contextlib
import io
import itertools
import os

import attrs

import srctools
import srctools.fgd as fgd_mod
from srctools.const import FileType
from srctools.fgd import (
    FGD, EntityDef, EntityTypes, HelperTypes, IODef, KVDef, Resource, UnknownHelper, ValueTypes,
    AutoVisgroup,
)
from srctools.filesys import VirtualFileSystem
from srctools.math import Vec
from srctools import _engine_db as edb

from mcv import core

PROPERTY = 'C16'
LEVEL = 'model_checking'

OPTS = [(True, True), (True, False), (False, True), (False, False)]     # (custom_syntax, label_spawnflags)

# ---------------------------------------------------------------------------------------------
# Observer: canonical dump of a definition.  Only plain lists / dicts / scalars.

# The documented I/O type decay (comment block above VALUE_TO_IO_DECAY in fgd.py), copied by hand so
# that the oracle does not move with the code under check.
IO_VALID = {'VOID', 'INT', 'BOOL', 'STRING', 'FLOAT', 'STR_VSCRIPT_SINGLE', 'VEC', 'TARG_DEST', 'COLOR_255'}
IO_DECAY_SPECIAL = {
    'SPAWNFLAGS': 'INT', 'TARG_NODE_SOURCE': 'INT', 'ANGLE_NEG_PITCH': 'FLOAT', 'EXT_ANGLE_PITCH': 'FLOAT',
    'VEC_LINE': 'VEC', 'VEC_ORIGIN': 'VEC', 'VEC_AXIS': 'VEC', 'EXT_VEC_DIRECTION': 'VEC',
    'EXT_VEC_LOCAL': 'VEC', 'ANGLES': 'VEC', 'EXT_ANGLES_LOCAL': 'VEC', 'COLOR_1': 'COLOR_255',
}
ALL_TYPES = [t.name for t in ValueTypes]    # aliases (ENT_HANDLE/EHANDLE) are not iterated


def io_decay(tname: str) -> str:
    if tname.startswith('custom:'):
        return tname
    if tname in IO_DECAY_SPECIAL:
        return IO_DECAY_SPECIAL[tname]
    return tname if tname in IO_VALID else 'STRING'


def type_name(attr) -> str:
    t = attr._type
    return t.name if isinstance(t, ValueTypes) else 'custom:' + str(t)


def _plain(v):
    if isinstance(v, Vec):
        return ['Vec', float(v.x), float(v.y), float(v.z)]
    if isinstance(v, (list, tuple)):
        return [_plain(x) for x in v]
    if isinstance(v, (frozenset, set)):
        return sorted(_plain(x) for x in v)
    if isinstance(v, bool) or v is None or isinstance(v, (int, float, str)):
        return v
    return repr(v)


def dump_helper(h) -> list:
    names = []
    if attrs.has(type(h)):
        names += [a.name for a in attrs.fields(type(h))]
    names += [k for k in getattr(h, '__dict__', {}) if k not in names]
    return [type(h).__name__, h.TYPE.name if h.TYPE is not None else None,
            {n: _plain(getattr(h, n)) for n in names}]


def dump_kv(kv: KVDef) -> dict:
    tname = type_name(kv)
    lst = None
    if tname == 'SPAWNFLAGS':
        lst = [[int(v[0]), v[1], bool(v[2]), sorted(v[3])] for v in (kv.val_list or [])]
    elif tname == 'CHOICES':
        lst = [[v[0], v[1], sorted(v[2])] for v in (kv.val_list or [])]
    elif kv.val_list:
        lst = ['?', _plain(kv.val_list)]
    return {'name': kv.name, 'type': tname, 'disp': kv.disp_name, 'default': kv.default, 'desc': kv.desc,
            'ro': bool(kv.readonly), 'rep': bool(kv.reportable), 'list': lst}


def dump_io(io_def: IODef) -> dict:
    return {'name': io_def.name, 'type': type_name(io_def), 'desc': io_def.desc}


def effective_kv_order(ent: EntityDef) -> list:
    """The order in which the keyvalues of a definition appear (what `kv_order`/orderby() denote):
    position in the orderby() arguments if any, else in kv_order; unlisted keys follow in map order."""
    order: list = []
    for h in ent.helpers:
        if type(h).__name__ == 'HelperExtOrderBy':
            order += [a.casefold() for a in h.order]
    if not order:
        order = list(ent.kv_order)
    pos: dict = {}
    for i, n in enumerate(order):
        pos[n] = i
    names = list(ent.keyvalues)
    return [n for _, _, n in sorted((pos.get(n, 1 << 62), i, n) for i, n in enumerate(names))]


def dump_ent(ent: EntityDef) -> dict:
    def attr_map(m, fn, ordered_names):
        out = []
        for name in ordered_names:
            variants = sorted(([sorted(tags), fn(v)] for tags, v in m[name].items()), key=lambda x: x[0])
            out.append([name, variants])
        return out
    res = ent.resources
    return {
        'classname': ent.classname,
        'type': ent.type.name,
        'is_alias': bool(ent.is_alias),
        'bases': [b.classname if isinstance(b, EntityDef) else 'STR:' + str(b) for b in ent.bases],
        'helpers': [dump_helper(h) for h in ent.helpers],
        'desc': ent.desc,
        'kv': attr_map(ent.keyvalues, dump_kv, effective_kv_order(ent)),
        'kvmap': list(ent.keyvalues),
        'inputs': attr_map(ent.inputs, dump_io, list(ent.inputs)),
        'outputs': attr_map(ent.outputs, dump_io, list(ent.outputs)),
        'resources': None if isinstance(res, tuple) and len(res) == 0 else
        [[r.filename, r.type.name, sorted(r.tags)] for r in res],
    }


def canon_text(d: dict) -> dict:
    """What a text round trip (custom_syntax=True) must preserve of a dump.  Three stated equivalences:
    an empty display name denotes the key name (that is what the reader assigns to a key without a name
    section); a boolean default ''/'no' is 0 and 'yes' is 1 (writer and reader both say so); I/O types
    decay as documented."""
    out = dict(d)
    del out['kvmap']        # the map order becomes the effective order after a text round trip
    kvs = []
    for name, variants in d['kv']:
        nv = []
        for tags, kv in variants:
            kv = dict(kv)
            if kv['disp'] == '':
                kv['disp'] = kv['name']
            if kv['type'] == 'BOOL':
                low = kv['default'].casefold()
                if low in ('', 'no'):
                    kv['default'] = '0'
                elif low == 'yes':
                    kv['default'] = '1'
            nv.append([tags, kv])
        kvs.append([name, nv])
    out['kv'] = kvs
    for key in ('inputs', 'outputs'):
        out[key] = [[name, [[tags, dict(v, type=io_decay(v['type']))] for tags, v in variants]]
                    for name, variants in d[key]]
    return out


def canon_bin(d: dict, stored: bool = True) -> dict:
    """What the binary database must preserve of a dump.  Not stored by documented design: descriptions
    (module docstring), helpers ('Helpers are not added') and with them kv_order/orderby (the order of
    the keyvalue map itself is what is stored); an empty resource list is stored as 'no resources'."""
    out = dict(d)
    out['desc'] = ''
    out['helpers'] = []
    by_name = {name: variants for name, variants in d['kv']}
    out['kv'] = [[name, [[tags, dict(kv, desc='')] for tags, kv in by_name[name]]] for name in d['kvmap']]
    del out['kvmap']
    for key in ('inputs', 'outputs'):
        out[key] = [[name, [[tags, dict(v, desc='')] for tags, v in variants]] for name, variants in d[key]]
    if not d['resources']:
        out['resources'] = None
    if stored and not d['bases'] and d['classname'].casefold() != '_cbaseentity_':
        # engine format: 'all others based on _CBaseEntity_' - a definition stored without bases gets it on load
        out['bases'] = ['_CBaseEntity_']
    return out


FIELD_WORDS = {'classname', 'type', 'is_alias', 'bases', 'helpers', 'desc', 'kv', 'inputs', 'outputs',
               'resources', 'name', 'disp', 'default', 'ro', 'rep', 'list', 'order', 'tags', 'count'}


def diff(a, b, path=(), out=None, limit=6):
    """Structural differences between two dumps: list of (path, expected, got)."""
    if out is None:
        out = []
    if len(out) >= limit:
        return out
    if isinstance(a, dict) and isinstance(b, dict):
        for k in a:
            if k not in b:
                out.append((path + (k,), a[k], '<absent>'))
            else:
                diff(a[k], b[k], path + (k,), out, limit)
        for k in b:
            if k not in a:
                out.append((path + (k,), '<absent>', b[k]))
    elif isinstance(a, list) and isinstance(b, list):
        if path and path[-1] in ('kv', 'inputs', 'outputs'):
            # lists of [name, variants]: report order / membership first
            na, nb = [x[0] for x in a], [x[0] for x in b]
            if na != nb:
                out.append((path + ('order',), na, nb))
                return out
            for x, y in zip(a, b):
                ta, tb = [v[0] for v in x[1]], [v[0] for v in y[1]]
                if ta != tb:
                    out.append((path + (x[0], 'tags'), ta, tb))
                    continue
                for va, vb in zip(x[1], y[1]):
                    diff(va[1], vb[1], path + (x[0] + str(va[0] or ''),), out, limit)
            return out
        if len(a) != len(b):
            out.append((path + ('count',), a, b))
            return out
        for i, (x, y) in enumerate(zip(a, b)):
            diff(x, y, path + (str(i),), out, limit)
    else:
        if a != b or type(a) is not type(b):
            out.append((path, a, b))
    return out


def field_of(path) -> str:
    return '.'.join(p for p in path if p in FIELD_WORDS) or 'value'


def short(v, n=120) -> str:
    s = repr(v)
    return s if len(s) <= n else s[:n // 2] + f'...<{len(s)} chars>...' + s[-n // 3:]


# ---------------------------------------------------------------------------------------------
# text round trip driver

def parse_text(text: str, ignore_unknown: bool = False) -> FGD:
    fs = VirtualFileSystem({'t.fgd': text})
    out = FGD()
    out.parse_file(fs, fs['t.fgd'], ignore_unknown_valuetype=ignore_unknown)
    return out


def first_diff_line(t1: str, t2: str) -> str:
    l1, l2 = t1.split('\n'), t2.split('\n')
    for i, (x, y) in enumerate(zip(l1, l2)):
        if x != y:
            return f'line {i + 1}: first export {short(x, 160)} / re-export {short(y, 160)}'
    return f'line counts differ: {len(l1)} vs {len(l2)}'


def exc_head(exc: BaseException) -> str:
    msg = getattr(exc, 'mess', None) or str(exc)
    return f'{type(exc).__name__}: {str(msg).splitlines()[0] if str(msg) else ""}'[:200]


def text_roundtrip(doc: FGD, expect: dict, cs: bool, ls: bool, ignore_unknown: bool = False):
    """Export/parse/export `doc`.  `expect` maps folded classname -> dump of the input definition.
    Returns (problems, info) with problems = list of (kind, field, detail)."""
    problems = []
    try:
        t1 = doc.export(custom_syntax=cs, label_spawnflags=ls)
    except Exception as exc:  # noqa: BLE001
        return [('text_export_error', 'export', exc_head(exc))], 'export-failed'
    try:
        g1 = parse_text(t1, ignore_unknown)
    except Exception as exc:  # noqa: BLE001
        return [('text_parse_error', 'parse', f'export (custom_syntax={cs}) is rejected by the parser: {exc_head(exc)}'
                 + f' (line {getattr(exc, "line_num", "?")}: '
                 + short(_line(t1, getattr(exc, "line_num", None)), 200) + ')')], 'parse-failed'
    if cs:
        got = {k: dump_ent(e) for k, e in g1.entities.items()}
        if sorted(got) != sorted(expect):
            problems.append(('text_field_mismatch', 'classes',
                             f'classes differ: missing {sorted(set(expect) - set(got))[:5]} extra {sorted(set(got) - set(expect))[:5]}'))
        for k in expect:
            if k not in got:
                continue
            want = canon_text(expect[k])
            have = canon_text(got[k])
            if want != have:
                for path, a, b in diff(want, have):
                    problems.append(('text_field_mismatch', field_of(path),
                                     f'{expect[k]["classname"]} {"/".join(path)}: written {short(a)} read back {short(b)}'))
        try:
            t2 = g1.export(custom_syntax=cs, label_spawnflags=ls)
        except Exception as exc:  # noqa: BLE001
            problems.append(('text_export_error', 'export2', exc_head(exc)))
            return problems, 'export2-failed'
        if t2 != t1:
            problems.append(('text_not_fixed_point', 'gen1', first_diff_line(t1, t2)))
        return problems, 'ok' if not problems else 'mismatch'
    # custom_syntax=False: parse-ability and the second-generation fixed point only.
    try:
        t2 = g1.export(custom_syntax=cs, label_spawnflags=ls)
        g2 = parse_text(t2, ignore_unknown)
        t3 = g2.export(custom_syntax=cs, label_spawnflags=ls)
    except Exception as exc:  # noqa: BLE001
        return [('text_parse_error', 'gen2', f'second generation (custom_syntax=False): {exc_head(exc)}')], 'parse2-failed'
    if t3 != t2:
        problems.append(('text_not_fixed_point', 'gen2', first_diff_line(t2, t3)))
    return problems, 'ok' if not problems else 'mismatch'


def _line(text: str, num) -> str:
    if not isinstance(num, int):
        return ''
    lines = text.split('\n')
    return lines[num - 1] if 0 < num <= len(lines) else ''


# ---------------------------------------------------------------------------------------------
# shipped database

_SHIP = {}


def lzma_path() -> str:
    return os.path.join(os.path.dirname(srctools.__file__), 'fgd.lzma')


def fresh_globals() -> None:
    """Forget the process-wide cached engine database (what a fresh interpreter has)."""
    fgd_mod._ENGINE_DB = None


def shipped():
    """(full FGD, {folded classname: dump}) of the bundled database, loaded once per process."""
    if not _SHIP:
        fresh_globals()
        full = FGD.engine_dbase()
        fresh_globals()
        _SHIP['fgd'] = full
        _SHIP['dump'] = {k: dump_ent(e) for k, e in full.entities.items()}
        with open(lzma_path(), 'rb') as f:
            _SHIP['raw'] = f.read()
    return _SHIP['fgd'], _SHIP['dump']


def ent_features(d: dict) -> list:
    """Coarse risk features of a shipped definition (for failure signatures)."""
    feats = set()
    if d['is_alias']:
        feats.add('alias')
    for _, variants in d['kv']:
        for tags, kv in variants:
            if kv['disp'] == '':
                feats.add('kv_empty_disp')
                if kv['type'] != 'BOOL' and not kv['default'] and not kv['desc']:
                    feats.add('kv_nothing_after_colon')
            if tags:
                feats.add('kv_tags')
            if kv['type'] == 'SPAWNFLAGS':
                feats.add('has_flags')
            for s in (kv['disp'], kv['default'], kv['desc']):
                if '"' in s:
                    feats.add('quote')
                if '\\' in s:
                    feats.add('backslash')
                if len(s) > 999:
                    feats.add('long')
    return sorted(feats)


def closure(full: FGD, ent: EntityDef) -> list:
    """ent plus everything it inherits from, bases first."""
    out: list = []

    def add(e):
        if e in out:
            return
        for b in e.bases:
            if isinstance(b, EntityDef):
                add(b)
        out.append(e)
    add(ent)
    return out


def check_ship_ent(acc: core.Acc, cls: str, cs: bool, ls: bool) -> None:
    full, dumps = shipped()
    ent = full.entities[cls]
    doc = FGD()
    for e in closure(full, ent):
        doc.entities[e.classname.casefold()] = e
    expect = {k: dumps[k] for k in doc.entities}
    problems, info = text_roundtrip(doc, expect, cs, ls)
    acc.evaluations += 1
    acc.nontrivial += 1
    acc.outcome(('ship_ent', cs, info))
    case = {'part': 'ship_ent', 'cls': cls, 'cs': cs, 'ls': ls}
    feats = sorted({f for k in doc.entities for f in ent_features(dumps[k])})
    seen = set()
    for kind, field, detail in problems:
        if (kind, field) in seen:
            continue
        seen.add((kind, field))
        acc.fail(kind, case, f'shipped definition {ent.classname}, custom_syntax={cs} label_spawnflags={ls}: {detail}',
                 scope='shipped', cs=cs, field=field, features=feats)


def check_ship_whole(acc: core.Acc, cs: bool, ls: bool) -> None:
    full, dumps = shipped()
    problems, info = text_roundtrip(full, dumps, cs, ls)
    acc.evaluations += 1
    acc.nontrivial += 1
    acc.outcome(('ship_whole', cs, info))
    case = {'part': 'ship_whole', 'cs': cs, 'ls': ls}
    feats = sorted({f for d in dumps.values() for f in ent_features(d)})
    grouped: dict = {}
    for kind, field, detail in problems:
        grouped.setdefault((kind, field), []).append(detail)
    for (kind, field), details in sorted(grouped.items()):
        acc.fail(kind, case, f'whole shipped database ({len(dumps)} definitions), custom_syntax={cs} label_spawnflags={ls}: '
                 f'{len(details)} difference(s), first: ' + ' | '.join(details[:3]),
                 scope='shipped', cs=cs, field=field, features=feats)


# ---------------------------------------------------------------------------------------------
# generated FGDs: spec (JSON-like) -> real objects

def kvs(name, typ='STRING', disp=None, default='', desc='', tags=(), ro=False, rep=False, lst=None):
    return {'name': name, 'type': typ, 'disp': name if disp is None else disp, 'default': default, 'desc': desc,
            'tags': list(tags), 'ro': ro, 'rep': rep, 'list': lst}


def ios(name, typ='VOID', desc='', tags=()):
    return {'name': name, 'type': typ, 'desc': desc, 'tags': list(tags)}


def ents(cls, typ='POINT', bases=(), **kw):
    d = {'id': cls, 'cls': cls, 'type': typ, 'bases': list(bases), 'alias': False, 'helpers': [], 'desc': '',
         'kvs': [], 'ins': [], 'outs': [], 'res': None, 'kv_order': None}
    d.update(kw)
    return d


def base_spec() -> dict:
    return {
        'mapsize': None, 'matex': [], 'tagmatex': [], 'autovis': [], 'ignore_unknown': False,
        'ents': [
            ents('Base0', 'BASE', kvs=[kvs('basekey', 'STRING', 'Base key', 'bd', 'Base description.')]),
            ents('ent_a', 'POINT', ['Base0'], desc='An entity.',
                 kvs=[kvs('key1', 'STRING', 'Key One', 'dflt', 'Description one.'),
                      kvs('key2', 'INT', 'Key Two', '5', '')],
                 ins=[ios('In1', 'VOID', 'Input one.')],
                 outs=[ios('Out1', 'VOID', '')]),
        ],
    }


def vtype(name: str):
    return name[7:] if name.startswith('custom:') else ValueTypes[name]


def make_helper(name: str, args: list):
    try:
        if name.startswith('ctor:'):
            # built through the helper class's constructor (what a program assembling an FGD does), not through its argument parser
            return fgd_mod.HELPER_IMPL[HelperTypes(name[5:])](*[tuple(a) if isinstance(a, list) else a for a in args])
        typ = HelperTypes(name)
    except ValueError:
        return UnknownHelper(name, list(args))
    return fgd_mod.HELPER_IMPL[typ].parse(list(args))


def build(spec: dict) -> FGD:
    doc = FGD()
    if spec.get('mapsize'):
        doc.map_size_min, doc.map_size_max = spec['mapsize']
    for m in spec.get('matex', []):
        from pathlib import PurePosixPath
        doc.mat_exclusions.add(PurePosixPath(m))
    for tags, m in spec.get('tagmatex', []):
        from pathlib import PurePosixPath
        doc.tagged_mat_exclusions[frozenset(tags)].add(PurePosixPath(m))
    for name, parent, members in spec.get('autovis', []):
        doc.auto_visgroups[name.casefold()] = AutoVisgroup(name, parent, set(members))
    for es in spec['ents']:
        ent = EntityDef(EntityTypes[es['type']], es['cls'])
        for b in es['bases']:
            ent.bases.append(doc.entities.get(b.casefold(), b))
        ent.is_alias = es['alias']
        ent.desc = es['desc']
        ent.helpers = [make_helper(n, a) for n, a in es['helpers']]
        for k in es['kvs']:
            lst = k['list']
            if lst is not None:
                lst = [tuple(x[:-1]) + (frozenset(x[-1]),) for x in lst]
            kv = KVDef(name=k['name'], type=vtype(k['type']), disp_name=k['disp'], default=k['default'],
                       desc=k['desc'], val_list=lst, readonly=k['ro'], reportable=k['rep'])
            tm = ent.keyvalues.setdefault(k['name'].casefold(), {})
            if not tm:
                ent.kv_order.append(k['name'].casefold())
            tm[frozenset(k['tags'])] = kv
        if es['kv_order'] is not None:
            ent.kv_order = list(es['kv_order'])
        for key, target in (('ins', ent.inputs), ('outs', ent.outputs)):
            for i in es[key]:
                target.setdefault(i['name'].casefold(), {})[frozenset(i['tags'])] = IODef(i['name'], vtype(i['type']), i['desc'])
        if es['res'] is not None:
            ent.resources = [Resource(fn, FileType[ft], frozenset(tg)) for fn, ft, tg in es['res']]
        doc.entities[es['cls'].casefold()] = ent
    return doc


# --- the feature lattice -------------------------------------------------------------------------
# A menu entry is (label, core?, mutator(spec)).  `core` entries form the reduced menus of depth 3.

def ent_by_id(spec, ident):
    return next(e for e in spec['ents'] if e['id'] == ident)


def ent_a(spec):
    return ent_by_id(spec, 'ent_a')


def key1(spec):
    return ent_a(spec)['kvs'][0]


def long_strings() -> list:
    """(label, text) - strings around the 1000-character split limit of _write_longstring."""
    out = []
    for n in (999, 1000, 1001, 2500):
        out.append((f'long{n}', 'x' * n))
        out.append((f'long{n}sp', ('word ' * (n // 5 + 1))[:n]))
    out.append(('long2500nl', ('line of text number\n' * 140)[:2500]))
    out.append(('long1500nl_early', 'x' * 50 + '\n' + 'y' * 1449))       # '\n' before the 128 threshold
    for k in (996, 997, 998, 999, 1000, 1001):
        out.append((f'nl@{k}', 'x' * k + '\n' + 'y' * (1499 - k)))
        out.append((f'sp@{k}', 'x' * k + ' ' + 'y' * (1499 - k)))
        out.append((f'quote@{k}', 'x' * k + '"' + 'y' * (1499 - k)))
        out.append((f'bslash@{k}', 'x' * k + '\\' + 'y' * (1499 - k)))
    # runs of escapable characters ending at every column around the hard cut (their escaped forms are 2, 4, 6 characters long)
    for k in range(990, 1003):
        for tag, run in (('bs2', '\\\\'), ('bs3', '\\\\\\'), ('bsq', '\\"'), ('qq', '""'), ('bs2q', '\\\\"')):
            out.append((f'{tag}@{k}', 'x' * k + run + 'y' * (1499 - k)))
    out.append(('sp_then_quote@999', 'x' * 500 + ' ' + 'y' * 498 + '"' + 'z' * 500))
    out.append(('nl_then_quote@999', 'x' * 500 + '\n' + 'y' * 497 + '"' + 'z' * 500))
    return out


SHORT_STRINGS = [
    ('quote', 'say "hi" there'), ('quote_end', 'ends with "'), ('quote_start', '"starts'),
    ('bslash', 'a\\b'), ('bslash_end', 'path\\'), ('bslash_n', 'a\\nb'), ('bslash2', 'a\\\\b'),
    ('nl', 'line1\nline2'), ('nl_end', 'line\n'), ('tab', 'a\tb'),
    ('sq', "it's"), ('dsq', "a''b"), ('plus', 'a + b'), ('colon', 'a : b'), ('brackets', '[x] (y) {z} = ,'),
    ('cr', 'Line one.\rLine two.'), ('cr_end', 'x\r'), ('crlf', 'a\r\nb'), ('cr_only', '\r'),
    ('slashes', 'a // b /* c */'), ('hash', '#snippet @x'), ('latin1', 'café'), ('space_only', ' '),
]
LONG = long_strings()
STR = dict(SHORT_STRINGS + LONG)
CORE_DESC = {'quote', 'bslash_end', 'nl', 'long1001', 'quote@999', 'nl@999', 'long2500sp'}

HELPER_MENU = [
    ('halfgridsnap', 'halfgridsnap', []),
    ('size1', 'size', ['16 16 16']), ('size2', 'size', ['-8 -8 0', '8 8 16']),
    ('size_frac', 'size', ['-0.5 -0.25 0', '0.5 0.25 1.125']), ('bbox', 'bbox', ['-1 -2 -3', '1 2 3']),
    ('catapult', 'catapult', []),
    ('color', 'color', ['255 128 0']), ('color_frac', 'color', ['0.5 0.25 1']),
    ('sphere0', 'sphere', []), ('sphere1', 'sphere', ['dist']), ('sphere2', 'sphere', ['dist', '255 0 0']),
    ('line3', 'line', ['255 255 255', 'targetname', 'target']),
    ('line5', 'line', ['255 0 0', 'targetname', 'target', 'targetname', 'target2']),
    ('frustum0', 'frustum', []), ('frustum5', 'frustum', ['fov', 'nearz', 'farz', 'lightcolor', '-1']),
    ('frustum_num', 'frustum', ['45.5', '1', '1024', '255 255 255', '1']),
    # a colour argument that is neither a key name nor three numbers (a _light style literal with brightness; a pair)
    ('frustum_rgba', 'frustum', ['fov', 'nearz', 'farz', '255 255 255 200', '-1']), ('frustum_pair', 'frustum', ['fov', 'nearz', 'farz', '255 255', '-1']),
    ('frustum_ctor_key', 'ctor:frustum', ['_fov', 4.0, '_farz', '_light', -1.0]), ('frustum_ctor_rgb', 'ctor:frustum', [45.5, 1.0, 1024.0, [255.0, 128.0, 64.0], 1.0]),
    ('frustum_ctor_rgba', 'ctor:frustum', ['_fov', 4.0, '_farz', '255 255 255 200', -1.0]), ('frustum_ctor_keys', 'ctor:frustum', ['a', 'b', 'c', 'd', 'e']),
    ('sphere_ctor', 'ctor:sphere', [255.0, 128.0, 0.0, 'radius']), ('sphere_ctor_frac', 'ctor:sphere', [0.5, 128.0, 0.25, 'dist']),
    ('cyl3', 'cylinder', ['255 255 255', 'targetname', 'start']),
    ('cyl4', 'cylinder', ['255 255 255', 'targetname', 'start', 'radius']),
    ('cyl6', 'cylinder', ['255 255 255', 'targetname', 'start', 'radius', 'targetname', 'end']),
    ('cyl7', 'cylinder', ['255 255 255', 'targetname', 'start', 'radius', 'targetname', 'end', 'radius2']),
    ('origin0', 'origin', []), ('origin1', 'origin', ['pos']),
    ('vecline0', 'vecline', []), ('vecline1', 'vecline', ['pos']),
    ('sidelist0', 'sidelist', []), ('sidelist1', 'sidelist', ['faces']),
    ('wirebox', 'wirebox', ['mins', 'maxs']), ('swept', 'sweptplayerhull', []), ('obb', 'obb', ['mins', 'maxs']),
    ('iconsprite0', 'iconsprite', []), ('iconsprite1', 'iconsprite', ['"editor/x.vmt"']),
    ('sprite0', 'sprite', []), ('sprite1', 'sprite', ['"sprites/glow"']),
    ('studio0', 'studio', []), ('studio1', 'studio', ['"models/x.mdl"']),
    ('studioprop0', 'studioprop', []), ('studioprop1', 'studioprop', ['"models/x.mdl"']),
    ('lightprop1', 'lightprop', ['"models/x.mdl"']),
    ('instance', 'instance', []), ('decal', 'decal', []), ('overlay', 'overlay', []),
    ('overlay_transition', 'overlay_transition', []), ('light', 'light', []),
    ('lightcone0', 'lightcone', []), ('lightcone1', 'lightcone', ['inner']),
    ('lightcone2', 'lightcone', ['inner', 'outer']), ('lightcone3', 'lightcone', ['inner', 'outer', 'col']),
    ('lightcone4', 'lightcone', ['inner', 'outer', 'col', '-1']), ('lightcone4f', 'lightcone', ['inner', 'outer', 'col', '0.5']),
    ('lightconenew', 'lightconenew', ['theta', 'phi', 'col']),
    ('keyframe0', 'keyframe', []), ('keyframe1', 'keyframe', ['namekv']),
    ('animator', 'animator', []), ('quadbounds', 'quadbounds', []), ('worldtext', 'worldtext', []),
    ('appliesto', 'appliesto', ['A', 'B']), ('orderby', 'orderby', ['key2', 'key1']),
    ('unknown0', 'foo', []), ('unknown2', 'foo', ['a', 'b c']),
    # blank arguments (the writer emits `foo(one, , three)`; a lone blank argument is `foo()` = no arguments, not representable)
    ('unknown_blank_mid', 'foo', ['one', '', 'three']), ('unknown_blank_last', 'foo', ['a', '']), ('unknown_blank_first', 'foo', ['', 'b']),
    ('line_blank', 'line', ['255 255 255', 'targetname', '']), ('cyl_blank', 'cylinder', ['255 255 255', 'targetname', 'start', '']),
    ('sphere_blank', 'sphere', ['', '255 0 0']),
    # the default key of the one-optional-key helpers, spelt in another case (an explicit argument, not the default)
    ('origin_case', 'origin', ['Origin']), ('vecline_case', 'vecline', ['ORIGIN']), ('sidelist_case', 'sidelist', ['Sides']),
]
CORE_HELPERS = {'halfgridsnap', 'size1', 'iconsprite1', 'unknown2', 'orderby', 'sphere0'}

RES_MENU = [
    ('empty', True, []),
    ('mdl', False, [['models/x.mdl', 'MODEL', []]]),
    ('mdl_tagged', True, [['models/x.mdl', 'MODEL', ['A']]]),
    ('multi', False, [['Snd.Play', 'GAME_SOUND', []], ['mat/x', 'MATERIAL', ['+A', '!B']], ['other_ent', 'ENTITY', []],
                      ['some_func', 'ENTCLASS_FUNC', ['A', 'B']]]),
    ('every_type', False, [[f'file{i}', ft.name, []] for i, ft in
                           enumerate(sorted(fgd_mod.RESTYPE_TO_NAME, key=lambda f: f.name))]),
    ('fn_quote', False, [['a"b', 'GENERIC', []]]),
    ('fn_bslash', False, [['models\\x.mdl', 'MODEL', []]]),
    ('fn_empty', False, [['', 'MODEL', []]]),
    ('fn_space', False, [['a b.mdl', 'MODEL', ['A']]]),
]


def menus() -> dict:
    """field -> list of (label, core, mutator).  Built once; mutators take the spec."""
    m: dict = {}

    def setter(getter, key, value):
        def f(spec):
            getter(spec)[key] = value
        return f

    # A. type of key1 - every value type without a list
    core_t = {'BOOL', 'INT', 'TARG_DEST', 'EXT_SOUNDSCAPE', 'VOID'}
    m['k1.type'] = [(t, t in core_t, setter(key1, 'type', t)) for t in ALL_TYPES
                    if t not in ('STRING', 'CHOICES', 'SPAWNFLAGS')]

    def custom_kv(spec):
        key1(spec)['type'] = 'custom:my_type'
        spec['ignore_unknown'] = True
    m['k1.type'].append(('custom', False, custom_kv))

    def custom_kv_upper(spec):
        key1(spec)['type'] = 'custom:Vector2D'
        spec['ignore_unknown'] = True
    m['k1.type'].append(('custom_upper', False, custom_kv_upper))

    # B. empty display name / default / description in all combinations
    def empties(mask):
        def f(spec):
            k = key1(spec)
            if mask & 1:
                k['disp'] = ''
            if mask & 2:
                k['default'] = ''
            if mask & 4:
                k['desc'] = ''
        return f
    m['k1.empty'] = [('+'.join(n for i, n in enumerate(('disp', 'default', 'desc')) if mask >> i & 1), True, empties(mask))
                     for mask in range(1, 8)]
    # C/D/E strings of key1
    m['k1.desc'] = [(lab, lab in CORE_DESC, setter(key1, 'desc', s)) for lab, s in SHORT_STRINGS + LONG]
    dflt = ['quote', 'quote_end', 'bslash', 'bslash_end', 'nl', 'sq', 'colon', 'plus', 'long1001', 'space_only']
    m['k1.default'] = [(lab, lab in ('quote', 'bslash'), setter(key1, 'default', STR[lab])) for lab in dflt]
    m['k1.default'] += [(lab, lab in ('num', 'space'), setter(key1, 'default', s)) for lab, s in
                        [('num', '-5'), ('numlike', '1-2'), ('dash', '-'), ('float', '1.5'), ('space', 'a b'), ('zero', '0')]]
    m['k1.disp'] = [(lab, lab in ('quote', 'long1001'), setter(key1, 'disp', STR[lab]))
                    for lab in ['quote', 'bslash', 'bslash_end', 'nl', 'colon', 'long1001', 'quote@999']]
    # F. flags
    m['k1.flag'] = [('ro', False, setter(key1, 'ro', True)), ('rep', False, setter(key1, 'rep', True)),
                    ('ro+rep', True, lambda spec: key1(spec).update(ro=True, rep=True))]

    # G. tagged duplicates of key1
    def tagdup(*variants, drop_plain=False):
        def f(spec):
            e = ent_a(spec)
            at = 1
            for i, (tags, typ) in enumerate(variants):
                k = dict(key1(spec))
                k.update(tags=list(tags), disp=f'Key One v{i}', default=f'd{i}', type=typ or k['type'])
                e['kvs'].insert(at, k)
                at += 1
            if drop_plain:
                del e['kvs'][0]
        return f
    m['k1.tagdup'] = [
        ('A', True, tagdup((['A'], None))),
        ('A+notA', False, tagdup((['A'], None), (['!A'], None))),
        ('AB', False, tagdup((['A', 'B'], None))),
        ('plusA', False, tagdup((['+A'], None))),
        ('only_tagged', True, tagdup((['A'], None), drop_plain=True)),
        ('dup_type', False, tagdup((['A'], 'INT'))),
    ]
    # H. entity description, I. entity kind
    m['ent.desc'] = [('empty', True, setter(ent_a, 'desc', ''))] + [
        (lab, lab in ('quote', 'long1001'), setter(ent_a, 'desc', STR[lab]))
        for lab in ['quote', 'quote_end', 'bslash_end', 'nl', 'long1001', 'long2500sp', 'long2500nl', 'quote@999', 'nl@999']]
    m['ent.type'] = [(t.name, t.name in ('BRUSH', 'EXTEND'), setter(ent_a, 'type', t.name))
                     for t in EntityTypes if t.name != 'POINT']
    # J-M. inputs / outputs
    core_io = {'BOOL', 'ANGLES', 'COLOR_1', 'TARG_NODE_SOURCE', 'STR_SOUND'}
    m['in1.type'] = [(t, t in core_io, (lambda t: lambda spec: ent_a(spec)['ins'][0].update(type=t))(t))
                     for t in ALL_TYPES if t != 'VOID']

    def custom_io(spec):
        ent_a(spec)['ins'][0]['type'] = 'custom:my_type'
        spec['ignore_unknown'] = True
    m['in1.type'].append(('custom', False, custom_io))

    def custom_io_upper(spec):
        ent_a(spec)['ins'][0]['type'] = 'custom:Vector2D'
        ent_a(spec)['outs'][0]['type'] = 'custom:MixedCase_T'
        spec['ignore_unknown'] = True
    m['in1.type'].append(('custom_upper', False, custom_io_upper))
    m['out1.type'] = [(t, t == 'BOOL', (lambda t: lambda spec: ent_a(spec)['outs'][0].update(type=t))(t))
                      for t in ('BOOL', 'TARG_DEST', 'VEC_LINE', 'FLOAT', 'SPAWNFLAGS')]
    m['in1.desc'] = [('empty', False, lambda spec: ent_a(spec)['ins'][0].update(desc=''))] + [
        (lab, lab == 'quote', (lambda s: lambda spec: ent_a(spec)['ins'][0].update(desc=s))(STR[lab]))
        for lab in ['quote', 'bslash_end', 'nl', 'long1001', 'quote@999']]

    def iodup(key, *taglists, drop_plain=False):
        def f(spec):
            lst = ent_a(spec)[key]
            for i, tags in enumerate(taglists):
                d = dict(lst[0])
                d.update(tags=list(tags), desc=f'variant {i}')
                lst.append(d)
            if drop_plain:
                del lst[0]
        return f
    m['io.tagdup'] = [('in_A', True, iodup('ins', ['A'])), ('in_A+notA', False, iodup('ins', ['A'], ['!A'])),
                      ('in_only_tagged', False, iodup('ins', ['A'], drop_plain=True)), ('out_A', False, iodup('outs', ['A']))]

    # N. aliases
    def alias(with_kv):
        def f(spec):
            e = ents('ent_alias', 'POINT', ['ent_a'], alias=True)
            if with_kv:
                e['kvs'].append(kvs('extra', 'INT', 'Extra', '1', 'Only on the alias.'))
            spec['ents'].append(e)
        return f
    m['alias'] = [('alias', True, alias(False)), ('alias_kv', False, alias(True))]
    # O/P. helper lines
    m['helper1'] = [(lab, lab in CORE_HELPERS, (lambda n, a: lambda spec: ent_a(spec)['helpers'].insert(0, [n, a]))(n, a))
                    for lab, n, a in HELPER_MENU]
    m['helper2'] = [(lab, lab == 'halfgridsnap', (lambda n, a: lambda spec: ent_a(spec)['helpers'].append([n, a]))(n, a))
                    for lab, n, a in HELPER_MENU if lab in ('halfgridsnap', 'studio0', 'unknown2', 'size2')]
    # Q. resources
    m['res'] = [(lab, c, setter(ent_a, 'res', r)) for lab, c, r in RES_MENU]
    m['res'].append(('on_base', False, lambda spec: ent_by_id(spec, 'Base0').update(res=[['models/base.mdl', 'MODEL', ['A']]])))

    # R. bases
    def two_bases(spec):
        spec['ents'].insert(1, ents('Base1', 'BASE', kvs=[kvs('other', 'FLOAT', 'Other', '1.5', '')]))
        ent_a(spec)['bases'] = ['Base0', 'Base1']

    def chain(spec):
        spec['ents'].insert(0, ents('Root', 'BASE', ins=[ios('Kill')]))
        ent_by_id(spec, 'Base0')['bases'] = ['Root']
    def deep_then_shallow(spec):
        # the entity lists a deep base first and one of that base's own ancestors last
        spec['ents'].insert(0, ents('Root', 'BASE', ins=[ios('Kill')]))
        spec['ents'].insert(1, ents('Mid', 'BASE', kvs=[kvs('midkey', 'INT', 'Mid', '3', '')]))
        ent_by_id(spec, 'Mid')['bases'] = ['Root']
        ent_by_id(spec, 'Base0')['bases'] = ['Mid']
        ent_a(spec)['bases'] = ['Base0', 'Root']

    def shallow_then_deep(spec):
        deep_then_shallow(spec)
        ent_a(spec)['bases'] = ['Root', 'Base0']
    m['bases'] = [('none', False, setter(ent_a, 'bases', [])), ('two', True, two_bases), ('chain', False, chain),
                  ('deep_then_shallow', False, deep_then_shallow), ('shallow_then_deep', False, shallow_then_deep)]
    # S. keyvalue order
    m['kvorder'] = [('reversed', True, setter(ent_a, 'kv_order', ['key2', 'key1'])),
                    ('partial', False, setter(ent_a, 'kv_order', ['key2'])),
                    ('empty', False, setter(ent_a, 'kv_order', []))]

    # U. key2: choices lists, spawnflags
    def key2(**kw):
        kw['list'] = kw.pop('lst')

        def f(spec):
            next(k for k in ent_a(spec)['kvs'] if k['name'] == 'key2').update(kw)
        return f
    m['k2'] = [
        ('choices', False, key2(type='CHOICES', default='0', lst=[['0', 'Off', []], ['1', 'On', []]])),
        ('choices_tagged', True, key2(type='CHOICES', default='0', lst=[['0', 'Off', []], ['1', 'On', ['A']], ['2', 'Both', ['!A', 'B']]])),
        ('choices_str', False, key2(type='CHOICES', default='a b', lst=[['a b', 'Words', []], ['1.5', 'Float', []], ['-1', 'Neg', []]])),
        ('choices_empty', False, key2(type='CHOICES', default='', lst=[])),
        ('choices_long', False, key2(type='CHOICES', default='0', lst=[['0', 'n' * 1001, []]])),
        ('choices_quote', False, key2(type='CHOICES', default='0', lst=[['0', 'say "hi"', []], ['1', 'On', []]])),
        # rows repeating a value: with the same tags (untagged / tagged) and a different caption, and with different tags
        ('choices_repeat', False, key2(type='CHOICES', default='0', lst=[['0', 'Off', []], ['0', 'Also off', []], ['1', 'On', ['A']], ['1', 'On too', ['A']], ['1', 'Else', ['!A']]])),
        ('choices_bslash', False, key2(type='CHOICES', default='0', lst=[['0', 'a\\nb', []], ['1', 'dir\\', ['A']]])),
        ('choices_val_quote', False, key2(type='CHOICES', default='a"b', lst=[['a"b', 'Quoted', []], ['c d', 'Spaced', []]])),
    ]

    def flags(lst, name='spawnflags'):
        def f(spec):
            ent_a(spec)['kvs'].append(kvs(name, 'SPAWNFLAGS', name, '', '', lst=lst))
        return f
    m['flags'] = [
        ('plain', True, flags([[1, 'First', True, []], [2, 'Second', False, []]])),
        ('tagged', False, flags([[1, 'First', True, ['A']], [4, 'Third', False, ['!A', 'B']]])),
        ('big', False, flags([[1 << 23, 'High', False, []], [1 << 31, 'Top', True, []]])),
        ('repeat', False, flags([[1, 'First', True, []], [1, 'First again', False, []], [2, 'Second', False, ['A']], [2, 'Second', True, ['A']]])),
        ('empty', False, flags([])),
        ('longname', False, flags([[1, 'n' * 1001, False, []]])),
        ('quote', False, flags([[1, 'say "hi"', False, []]])),
        ('other_key', False, flags([[8, 'Eight', True, []]], name='moreflags')),
        # captions that themselves start with their own "[value]" label: only representable when the exporter adds
        # the label (label_spawnflags=True) - the parser strips exactly one
        ('ownlabel', False, flags([[4, '[4] is literally part of this caption', False, []], [8, '[8][8] twice', True, []],
                                   [16, '[2] foreign number', False, []]])),
    ]
    # V. letter case of names
    m['names'] = [
        ('kvcase', True, setter(key1, 'name', 'KeyOne')),
        ('clscase', False, setter(ent_a, 'cls', 'Ent_A')),
        ('iocase', False, lambda spec: ent_a(spec)['ins'][0].update(name='SetValue')),
    ]
    # T. document level items (fixed point / parse-ability only)
    m['fgd'] = [
        ('mapsize', False, lambda spec: spec.update(mapsize=[-16384, 16384])),
        ('matex', False, lambda spec: spec.update(matex=['debug', 'tools/editor'])),
        ('tagmatex', False, lambda spec: spec.update(tagmatex=[[['A'], 'dev']])),
        ('autovis', True, lambda spec: spec.update(autovis=[['Lights', 'Auto', ['ent_a']]])),
        ('autovis_nested', False, lambda spec: spec.update(autovis=[['Lights', 'Auto', ['ent_a']], ['Spot', 'Lights', ['ent_a']]])),
    ]
    return m


# Further members of the reduced ("core") menus used for the three-field combinations of the thorough tier.
CORE_EXTRA = {
    'k1.type': ['FLOAT', 'COLOR_255', 'STR_MODEL', 'custom'],
    'k1.desc': ['bslash', 'tab', 'sq', 'quote_end', 'long1000', 'long2500', 'long2500nl', 'bslash@999', 'sp@999'],
    'k1.default': ['quote_end', 'bslash_end', 'nl', 'zero', 'long1001'],
    'k1.disp': ['bslash_end', 'quote@999'],
    'k1.flag': ['ro', 'rep'],
    'k1.tagdup': ['A+notA', 'AB'],
    'ent.desc': ['bslash_end', 'nl', 'quote@999'],
    'ent.type': ['BASE', 'NPC'],
    'in1.type': ['SPAWNFLAGS', 'VEC_LINE', 'custom'],
    'out1.type': ['TARG_DEST'],
    'in1.desc': ['empty', 'quote@999'],
    'io.tagdup': ['in_only_tagged', 'out_A'],
    'alias': ['alias_kv'],
    'helper1': ['line5', 'frustum0', 'cyl7', 'lightcone4', 'appliesto', 'studio1'],
    'helper2': ['unknown2'],
    'res': ['multi', 'fn_quote', 'on_base'],
    'bases': ['none', 'chain'],
    'kvorder': ['partial'],
    'k2': ['choices', 'choices_str'],
    'flags': ['tagged', 'big', 'other_key'],
    'names': ['clscase', 'iocase'],
    'fgd': ['mapsize', 'tagmatex'],
}
BIN_CORE_EXTRA = {
    'types': ['COLOR_1', 'SPAWNFLAGS', 'STR_VSCRIPT_SINGLE'],
    'k1.flag': ['ro+rep'],
    'k1.empty': ['disp+default'],
    'k1.str': ['latin1', 'kvcase'],
    'flags': ['big', 'empty'],
    'out1.type': ['BOOL'],
    'res': ['empty', 'fn_odd'],
    'ent.type': ['NPC'],
    'alias': ['alias_first', 'alias_chain'],
    'cbase': ['ro', 'res'],
    'shape': ['second_block', 'odd_one_out', 'no_kv'],
}


def with_core(menu: dict, extra: dict) -> dict:
    out = {}
    for f, entries in menu.items():
        more = set(extra.get(f, ()))
        assert more <= {lab for lab, _, _ in entries}, (f, more)
        out[f] = [(lab, c or lab in more, mut) for lab, c, mut in entries]
    return out


_MENUS: dict = {}


def get_menus() -> dict:
    if not _MENUS:
        _MENUS.update(with_core(menus(), CORE_EXTRA))
    return _MENUS


LATE_FIELDS = {'shape', 'names'}


def apply_devs(spec_fn, menu: dict, devs) -> dict:
    spec = spec_fn()
    look = {(f, lab): mut for f, entries in menu.items() for lab, _, mut in entries}
    # structure-changing fields are applied last so that the other mutators still find their targets
    for f, lab in sorted(devs, key=lambda d: d[0] in LATE_FIELDS):
        look[(f, lab)](spec)
    return spec


def spec_has_backslash(spec: dict) -> bool:
    for e in spec['ents']:
        if '\\' in e['desc']:
            return True
        for k in e['kvs']:
            if '\\' in k['disp'] or '\\' in k['default'] or '\\' in k['desc']:
                return True
            if any('\\' in x for item in (k['list'] or []) for x in item if isinstance(x, str)):
                return True
        for i in e['ins'] + e['outs']:
            if '\\' in i['desc']:
                return True
    return False


def gen_problems(devs, cs: bool, ls: bool):
    spec = apply_devs(base_spec, get_menus(), devs)
    if not cs and spec_has_backslash(spec):
        return None, 'skip'
    if not ls and any(list(d) == ['flags', 'ownlabel'] for d in devs):
        return None, 'skip'       # without the exporter's label a leading [own value] is read as the label itself
    doc = build(spec)
    expect = {k: dump_ent(e) for k, e in doc.entities.items()}
    return text_roundtrip(doc, expect, cs, ls, spec['ignore_unknown'])


def minimal_culprit(devs, kind: str, field: str, runner) -> list:
    """Smallest (then first) sub-deviation that alone fails the same oracle clause on the same field."""
    devs = list(devs)
    for r in range(0, len(devs)):
        for sub in itertools.combinations(devs, r):
            probs = runner(list(sub))
            if probs and any(p[0] == kind and p[1] == field for p in probs):
                return [f'{f}={lab}' for f, lab in sub]
    return [f'{f}={lab}' for f, lab in devs]


def dev_sig(culprit: list) -> dict:
    """Coarse views of the minimal failing deviation: the fields and the value labels involved."""
    return {'dev_fields': sorted({c.split('=', 1)[0] for c in culprit}),
            'dev_values': sorted({c.split('=', 1)[1] for c in culprit})}


def check_gen(acc: core.Acc, devs, cs: bool, ls: bool) -> None:
    devs = [list(d) for d in devs]
    problems, info = gen_problems(devs, cs, ls)
    if problems is None:
        acc.count('gen_text_unrepresentable_skipped')
        return
    acc.evaluations += 1
    if devs and info not in ('export-failed', 'parse-failed'):
        acc.nontrivial += 1
    acc.outcome(('gen', cs, info, tuple(sorted({p[0] + ':' + p[1] for p in problems}))))
    if not problems:
        return
    case = {'part': 'gen', 'devs': devs, 'cs': cs, 'ls': ls}
    seen = set()
    for kind, field, detail in problems:
        if (kind, field) in seen:
            continue
        seen.add((kind, field))
        culprit = minimal_culprit(devs, kind, field, lambda sub: (gen_problems(sub, cs, ls)[0] or []))
        acc.fail(kind, case, f'generated FGD, deviations {["=".join(d) for d in devs]}, custom_syntax={cs} '
                 f'label_spawnflags={ls}: {detail}', scope='generated', cs=cs, field=field, devs=culprit, **dev_sig(culprit))


def field_subsets(menu: dict, depth: int, core_only: bool):
    fields = sorted(menu)
    for combo in itertools.combinations(fields, depth):
        yield combo


def enum_devs(menu: dict, fields, core_only: bool):
    lists = [[(f, lab) for lab, c, _ in menu[f] if c or not core_only] for f in fields]
    return itertools.product(*lists)


# ---------------------------------------------------------------------------------------------
# binary database, generated engine-format FGDs

def bin_base_spec() -> dict:
    """Engine format: _CBaseEntity_ plus point entities based on it, no tags on keyvalues / IO.
    Four filler entities provide the >= 512 distinct strings `serialise` asserts on."""
    spec = {'ents': [], 'ignore_unknown': False}
    spec['ents'].append(ents('_CBaseEntity_', 'BASE',
                             kvs=[kvs('targetname', 'TARG_SOURCE', 'Name', '', ''), kvs('origin', 'VEC_ORIGIN', 'Origin', '0 0 0', '')],
                             ins=[ios('Kill'), ios('AddOutput', 'STRING')], outs=[ios('OnUser1')]))
    spec['ents'].append(ents('ent_a', 'POINT', ['_CBaseEntity_'],
                             kvs=[kvs('key1', 'STRING', 'Key One', 'dflt', ''), kvs('key2', 'INT', 'Key Two', '5', '')],
                             ins=[ios('In1', 'VOID')], outs=[ios('Out1', 'VOID')]))
    spec['ents'].append(ents('ent_b', 'BRUSH', ['_CBaseEntity_'],
                             kvs=[kvs('key1', 'STRING', 'Key One', 'other', ''), kvs('speed', 'FLOAT', 'Speed', '1.5', '')],
                             ins=[ios('In1', 'VOID'), ios('SetSpeed', 'FLOAT')]))
    for n in range(4):
        spec['ents'].append(ents(f'filler_{n}', 'POINT', ['_CBaseEntity_'],
                                 kvs=[kvs(f'f{n}_{i}', 'INT', f'Filler {n} {i}', str(i), '') for i in range(66)]))
    return spec


def bin_ent(spec):
    return ent_by_id(spec, 'ent_a')


def bin_key1(spec):
    return bin_ent(spec)['kvs'][0]


def bin_menus() -> dict:
    m: dict = {}

    def setter(getter, key, value):
        def f(spec):
            getter(spec)[key] = value
        return f
    core_t = {'BOOL', 'EXT_SOUNDSCAPE', 'VOID', 'TARG_DEST', 'ANGLES'}

    def both_types(t):
        # keyvalue and input type in one field: both go through the same one-byte type index
        def f(spec):
            if t not in ('CHOICES', 'SPAWNFLAGS'):      # these need a list / are rejected by design
                bin_key1(spec)['type'] = t
            bin_ent(spec)['ins'][0]['type'] = t
        return f
    m['types'] = [(t, t in core_t, both_types(t)) for t in ALL_TYPES if t != 'STRING']
    m['k1.flag'] = [('ro', True, setter(bin_key1, 'ro', True)), ('rep', True, setter(bin_key1, 'rep', True)),
                    ('ro+rep', False, lambda spec: bin_key1(spec).update(ro=True, rep=True))]
    m['k1.empty'] = [('disp', True, setter(bin_key1, 'disp', '')), ('default', False, setter(bin_key1, 'default', '')),
                     ('disp+default', False, lambda spec: bin_key1(spec).update(disp='', default=''))]
    m['k1.str'] = [('latin1', False, setter(bin_key1, 'default', 'café €')),
                   ('astral', False, setter(bin_key1, 'disp', 'name \U0001F600')),
                   ('quote_nl', True, setter(bin_key1, 'default', 'a "q"\nb\\c')),
                   ('long', False, setter(bin_key1, 'default', 'x' * 2500)),
                   ('desc', False, setter(bin_key1, 'desc', 'A description that the format drops.')),
                   ('kvcase', False, setter(bin_key1, 'name', 'KeyOne'))]

    def flags(lst):
        def f(spec):
            bin_ent(spec)['kvs'].append(kvs('spawnflags', 'SPAWNFLAGS', 'spawnflags', '', '', lst=lst))
        return f
    m['flags'] = [('plain', True, flags([[1, 'First', True, []], [2, 'Second', False, []]])),
                  ('big', False, flags([[1 << 23, 'High', False, []], [1 << 31, 'Top', True, []], [1 << 62, 'Far', True, []]])),
                  ('empty', False, flags([])),
                  ('many', False, flags([[1 << i, f'Flag {i}', i % 2 == 0, []] for i in range(32)]))]
    m['out1.type'] = [(t, False, (lambda t: lambda spec: bin_ent(spec)['outs'][0].update(type=t))(t))
                      for t in ('BOOL', 'TARG_DEST', 'COLOR_1')]
    m['res'] = [
        ('empty', False, setter(bin_ent, 'res', [])),
        ('mdl', False, setter(bin_ent, 'res', [['models/x.mdl', 'MODEL', []]])),
        ('tagged', True, setter(bin_ent, 'res', [['models/x.mdl', 'MODEL', ['A']], ['mat/x', 'MATERIAL', ['+A', '!B']]])),
        ('every_type', True, setter(bin_ent, 'res', [[f'file{i}', ft.name, []] for i, ft in enumerate(FileType)])),
        ('fn_odd', False, setter(bin_ent, 'res', [['', 'MODEL', []], ['a"b\\c d', 'GENERIC', ['A']]])),
    ]
    # the same input / output / key name in two entities of one database, spelled in different letter cases (the shipped database
    # has prop_button.UnLock next to func_door.Unlock): each entity gets its own spelling back
    def case_twin_io(spelling_a, spelling_b):
        def f(spec):
            bin_ent(spec)['ins'][0]['name'] = spelling_a
            ent_by_id(spec, 'ent_b')['ins'][0]['name'] = spelling_b
            ent_by_id(spec, 'ent_b')['outs'] = [ios(spelling_b.swapcase(), 'VOID')]
            bin_ent(spec)['outs'][0]['name'] = spelling_a
        return f
    m['io.case_twins'] = [('UnLock_Unlock', True, case_twin_io('UnLock', 'Unlock')), ('lower_UPPER', False, case_twin_io('in1', 'IN1')),
                          ('Strasse', False, case_twin_io('Stra\u00dfe', 'STRASSE'))]
    m['ent.type'] = [(t.name, t.name in ('BRUSH', 'EXTEND'), setter(bin_ent, 'type', t.name))
                     for t in EntityTypes if t.name != 'POINT']

    def alias(target, name):
        def f(spec):
            spec['ents'].append(ents(name, 'POINT', [target], alias=True))
        return f
    m['alias'] = [('alias_a', True, alias('ent_a', 'ent_alias')), ('alias_first', False, alias('ent_b', 'aaa_alias')),
                  ('alias_filler', False, alias('filler_3', 'zzz_alias')),
                  ('alias_chain', False, lambda spec: (alias('ent_a', 'alias_1')(spec), alias('alias_1', 'alias_2')(spec)))]
    m['cbase'] = [('ro', False, lambda spec: spec['ents'][0]['kvs'][0].update(ro=True)),
                  ('res', False, lambda spec: spec['ents'][0].update(res=[['base.mdl', 'MODEL', ['A']]])),
                  ('flags', True, lambda spec: spec['ents'][0]['kvs'].append(
                      kvs('spawnflags', 'SPAWNFLAGS', 'spawnflags', '', '', lst=[[1, 'Base flag', True, []]])))]
    m['shape'] = [('clscase', False, setter(bin_ent, 'cls', 'Ent_A')),
                  # classnames are UTF-8 in the binary tables: one more entity, named outside ASCII, placed first in its block
                  ('cls_nonascii', False, lambda spec: spec['ents'].append(
                      ents('aa_caf\u00e9_\u0394', 'POINT', ['_CBaseEntity_'], kvs=[kvs('nonascii_key', 'INT', 'K', '1', '')]))),
                  ('no_kv', False, setter(bin_ent, 'kvs', [])),
                  ('no_io', True, lambda spec: bin_ent(spec).update(ins=[], outs=[])),
                  ('many_kv', False, lambda spec: bin_ent(spec)['kvs'].extend(
                      kvs(f'extra{i}', 'FLOAT', f'Extra {i}', str(i / 4), '') for i in range(250))),
                  ('kv_order', False, setter(bin_ent, 'kv_order', ['key2', 'key1'])),
                  ('second_block', False, lambda spec: spec['ents'].extend(
                      ents(f'big_{n}', 'NPC', ['_CBaseEntity_'],
                           kvs=[kvs(f'b{n}_{i}', 'FLOAT', f'Big {i}', '0', '') for i in range(160)]) for n in range(2))),
                  ('implicit_base', True, setter(bin_ent, 'bases', [])),
                  ('all_implicit', False, lambda spec: [e.update(bases=[]) for e in spec['ents'] if not e['alias']]),
                  ('odd_one_out', False, lambda spec: spec['ents'].append(
                      ents('lonely', 'POINT', ['_CBaseEntity_'],
                           kvs=[kvs(f'l_{i}', 'FLOAT', f'Lonely {i}', '0', '') for i in range(200)])))]
    return m


_BIN_MENUS: dict = {}


def get_bin_menus() -> dict:
    if not _BIN_MENUS:
        _BIN_MENUS.update(with_core(bin_menus(), BIN_CORE_EXTRA))
    return _BIN_MENUS


def bin_roundtrip(doc: FGD, expect: dict):
    """serialise -> unserialise; compare get_ent() of every class on a fresh database (lazy path) and
    get_fgd() (full path) with `expect` (folded classname -> dump of the input)."""
    problems = []
    buf = io.BytesIO()
    try:
        with contextlib.redirect_stdout(io.StringIO()):
            edb.serialise(doc, buf)
    except Exception as exc:  # noqa: BLE001
        return [('bin_serialise_error', 'serialise', exc_head(exc))], 'serialise-failed'
    data = buf.getvalue()
    try:
        full = edb.unserialise(io.BytesIO(data)).get_fgd()
        lazy_db = edb.unserialise(io.BytesIO(data))
        names = sorted(lazy_db.get_classnames())
        lazy = {n: dump_ent(lazy_db.get_ent(n)) for n in names}
    except Exception as exc:  # noqa: BLE001
        return [('bin_unserialise_error', 'unserialise', exc_head(exc))], 'unserialise-failed'
    got = {k: dump_ent(e) for k, e in full.entities.items()}
    if sorted(got) != sorted(expect):
        problems.append(('bin_field_mismatch', 'classes',
                         f'classes differ: missing {sorted(set(expect) - set(got))[:5]} extra {sorted(set(got) - set(expect))[:5]}'))
    for k in expect:
        if k not in got:
            continue
        want = canon_bin(expect[k])
        for label, have_all in (('get_fgd', got), ('get_ent', lazy)):
            have = canon_bin(have_all[k], stored=False) if k in have_all else None
            if have is None:
                problems.append(('bin_field_mismatch', 'classes', f'{k} missing from {label}'))
            elif want != have:
                for path, a, b in diff(want, have):
                    problems.append(('bin_field_mismatch', field_of(path),
                                     f'{expect[k]["classname"]} {"/".join(path)} ({label}): stored {short(a)} loaded {short(b)}'))
    return problems, 'ok' if not problems else 'mismatch'


def bin_gen_problems(devs):
    spec = apply_devs(bin_base_spec, get_bin_menus(), devs)
    doc = build(spec)
    expect = {k: dump_ent(e) for k, e in doc.entities.items()}
    return bin_roundtrip(doc, expect)


def check_bin_gen(acc: core.Acc, devs) -> None:
    devs = [list(d) for d in devs]
    problems, info = bin_gen_problems(devs)
    acc.evaluations += 1
    if devs and info in ('ok', 'mismatch'):
        acc.nontrivial += 1
    acc.outcome(('bin', info, tuple(sorted({p[0] + ':' + p[1] for p in problems}))))
    case = {'part': 'bin_gen', 'devs': devs}
    seen = set()
    for kind, field, detail in problems:
        if (kind, field) in seen:
            continue
        seen.add((kind, field))
        culprit = minimal_culprit(devs, kind, field, lambda sub: bin_gen_problems(sub)[0])
        acc.fail(kind, case, f'generated engine-format FGD, deviations {["=".join(d) for d in devs]}: {detail}',
                 scope='generated', field=field, devs=culprit, **dev_sig(culprit))


def check_bin_ship(acc: core.Acc) -> None:
    full, dumps = shipped()
    fresh_globals()
    doc = FGD.engine_dbase()        # serialise() removes _CBaseEntity_ from the FGD it is given
    fresh_globals()
    problems, info = bin_roundtrip(doc, dumps)
    acc.evaluations += 1
    acc.nontrivial += 1
    acc.outcome(('bin_ship', info))
    grouped: dict = {}
    for kind, field, detail in problems:
        grouped.setdefault((kind, field), []).append(detail)
    for (kind, field), details in sorted(grouped.items()):
        acc.fail(kind, {'part': 'bin_ship'}, f'shipped database re-serialised: {len(details)} difference(s), first: '
                 + ' | '.join(details[:3]), scope='shipped', field=field)


def check_returned_defs_private(acc: core.Acc) -> None:
    """Definitions handed out by engine_def() / engine_dbase() are copies: editing one (also the objects inside it - KVDef,
    IODef, inherited ones) is not seen by later look-ups or full loads."""
    _, ref = shipped()
    names = ['math_counter', 'logic_relay', 'info_target', 'func_button', 'env_beam']
    for order in ('def_then_def', 'def_then_full', 'full_then_def'):
        acc.evaluations += 1
        acc.nontrivial += 1
        case = {'part': 'private_defs', 'order': order}
        fresh_globals()
        try:
            first = FGD.engine_dbase() if order == 'full_then_def' else None
            for n in names:
                ent = first[n] if first is not None else EntityDef.engine_def(n)
                ent.desc = 'EDITED'
                for mapping in (ent.keyvalues, ent.inputs, ent.outputs):
                    for tagmap in mapping.values():
                        for d in tagmap.values():
                            d.desc = 'EDITED'
                            d.name = d.name + '_x'
                for view in (ent.inp, ent.out, ent.kv):
                    for key in list(view):
                        view[key].desc = 'EDITED-INHERITED'          # also objects inherited from the bases
            later = FGD.engine_dbase() if order == 'def_then_full' else None
            for n in names:
                got = dump_ent(later[n] if later is not None else EntityDef.engine_def(n))
                if got != ref[n.casefold()]:
                    path_, a_, b_ = diff(ref[n.casefold()], got)[0]
                    acc.fail('lazy_def_differs', case, f'order {order}: after editing an earlier result in place, {n} now reads {"/".join(map(str, path_))}: '
                             f'{short(a_)} -> {short(b_)}', field=field_of(path_), where='shared_with_cache')
                    break
        except Exception as exc:  # noqa: BLE001
            acc.fail('lazy_exception', case, f'order {order}: {exc_head(exc)}', where='private_defs')
        finally:
            fresh_globals()


def check_extra_database(acc: core.Acc) -> None:
    """A second binary database registered with add_engine_database() (the documented way to override entities): looking
    classnames up one at a time - before or after a full load - gives the same definitions as engine_dbase()."""
    import contextlib
    import pathlib
    import tempfile
    from srctools.fgd import add_engine_database, KVDef, IODef, ValueTypes
    fresh_globals()
    override = FGD.engine_dbase()
    override['info_target'].keyvalues['custom_key'] = {frozenset(): KVDef('custom_key', ValueTypes.INT, 'Custom Key', '5')}
    override['logic_relay'].inputs['customtrigger'] = {frozenset(): IODef('CustomTrigger', ValueTypes.FLOAT)}
    buf = io.BytesIO()
    with contextlib.redirect_stdout(io.StringIO()):
        edb.serialise(override, buf)
    names = ['info_target', 'logic_relay', 'func_button', 'env_beam', 'trigger_multiple', 'prop_static', 'Info_Target']
    with tempfile.TemporaryDirectory(dir='/dev/shm') as folder:
        path = pathlib.Path(folder, 'override.lzma')
        path.write_bytes(buf.getvalue())
        for order in ('lazy_first', 'full_first', 'interleaved'):
            acc.evaluations += 1
            acc.nontrivial += 1
            case = {'part': 'extra_db', 'order': order}
            fresh_globals()
            try:
                add_engine_database(path)
                single = {}
                whole = None
                if order == 'full_first':
                    whole = FGD.engine_dbase()
                for i, n in enumerate(names):
                    single[n] = dump_ent(EntityDef.engine_def(n))
                    if order == 'interleaved' and i == 2:
                        whole = FGD.engine_dbase()
                if whole is None:
                    whole = FGD.engine_dbase()
                classes = set(EntityDef.engine_classes())
            except Exception as exc:  # noqa: BLE001
                acc.fail('lazy_exception', case, f'second database registered, order {order}: {exc_head(exc)}', where='extra_db')
                continue
            finally:
                fresh_globals()
            if 'custom_key' not in [k for k, _ in single['info_target']['kv']]:
                acc.fail('lazy_def_differs', case, f'order {order}: engine_def(info_target) does not show the overriding definition', field='kv', where='extra_db')
            if {k.casefold() for k in whole.entities} != {c.casefold() for c in classes}:
                acc.fail('lazy_def_differs', case, f'order {order}: engine_classes() and engine_dbase() list different classnames', field='classes', where='extra_db')
            for n in names:
                w = dump_ent(whole[n.casefold()]) if n.casefold() in whole.entities else None
                if w != single[n]:
                    path_, a, bb = diff(w, single[n])[0] if w is not None else (['<absent>'], None, None)
                    acc.fail('lazy_def_differs', case, f'order {order}: engine_def({n!r}) and engine_dbase()[{n!r}] differ at {"/".join(map(str, path_))}: '
                             f'full load {short(a)} single {short(bb)}', field=field_of(path_), where='extra_db')
                    break


# ---------------------------------------------------------------------------------------------
# lazy loading state machine

def lazy_blocks():
    """[first classname of block i], [all classnames of block i] for the bundled database."""
    shipped()
    db = edb.unserialise(io.BytesIO(_SHIP['raw']))
    return [list(c) for c, _ in db.unparsed]


def run_history(acc: core.Acc, hist: list, blocks: list, deep: bool) -> None:
    """Replay one history of engine_def() queries on a fresh database and check every state."""
    _, ref = shipped()
    fresh_globals()
    case = {'part': 'lazy', 'hist': list(hist)}
    failed = set()

    def bad(kind, detail, **sig):
        if kind in failed:
            return
        failed.add(kind)
        acc.fail(kind, case, f'history {hist[:12]}{"..." if len(hist) > 12 else ""}: {detail}', **sig)

    checked_blocks: set = set()
    step = 0
    try:
        for step, b in enumerate(hist):
            cls = blocks[b][0]
            got = EntityDef.engine_def(cls)
            acc.count('lazy_transitions')
            db = fgd_mod._ENGINE_DB[0]
            d = dump_ent(got)
            if d != ref[cls.casefold()]:
                path, a, bb = diff(ref[cls.casefold()], d)[0]
                bad('lazy_def_differs', f'step {step}: engine_def({cls!r}) {"/".join(path)}: full load {short(a)} lazy {short(bb)}',
                    field=field_of(path), where='returned')
            parsed = frozenset(i for i, (c, data) in enumerate(db.unparsed) if not data)
            acc.outcome(('state', core.digest(sorted(parsed))))
            if b not in parsed:
                bad('lazy_state', f'step {step}: block {b} still unparsed after engine_def({cls!r})', where='unparsed')
            last = step == len(hist) - 1
            todo = parsed if (deep or last) else parsed - checked_blocks
            for i in sorted(todo):
                for name in blocks[i]:
                    ent = db.ent_map.get(name.casefold())
                    if not isinstance(ent, EntityDef):
                        bad('lazy_state', f'step {step}: {name} of parsed block {i} is {ent!r} in ent_map', where='ent_map')
                        continue
                    for base in ent.bases:
                        if not isinstance(base, EntityDef):
                            bad('lazy_def_differs', f'step {step}: {name} has unresolved base {base!r}', field='bases', where='state')
                        elif db.ent_map.get(base.classname.casefold()) is not base:
                            bad('lazy_def_differs', f'step {step}: base {base.classname} of {name} is not the database\'s object',
                                field='bases', where='state')
                    dd = dump_ent(ent)
                    if dd != ref[name.casefold()]:
                        path, a, bb = diff(ref[name.casefold()], dd)[0]
                        bad('lazy_def_differs', f'step {step}: {name} (block {i}) {"/".join(path)}: full load {short(a)} lazy {short(bb)}',
                            field=field_of(path), where='state')
            checked_blocks |= parsed
            if deep or last:
                for i, names in enumerate(blocks):
                    if i in parsed:
                        continue
                    for name in names:
                        if not isinstance(db.ent_map.get(name.casefold()), int):
                            bad('lazy_state', f'step {step}: {name} of unparsed block {i} is not pending', where='pending')
    except Exception as exc:  # noqa: BLE001
        bad('lazy_exception', f'step {step}: {exc_head(exc)}', exc=type(exc).__name__)
    acc.evaluations += 1
    acc.nontrivial += 1
    acc.count('lazy_histories')
    fresh_globals()


def run_first_query(acc: core.Acc, names: list) -> None:
    """Every classname, in its canonical spelling and in two other spellings, as the FIRST query on a fresh database
    (the cold path of the lazy loader), and again as a second query (the warm path)."""
    _, ref = shipped()
    for name in names:
        for spelling in (name, name.upper(), name.capitalize()):
            fresh_globals()
            case = {'part': 'lazy_name', 'name': spelling}
            acc.evaluations += 1
            acc.nontrivial += 1
            acc.count('lazy_transitions', 2)
            try:
                got = EntityDef.engine_def(spelling)
                again = EntityDef.engine_def(spelling)
            except Exception as exc:  # noqa: BLE001
                acc.fail('lazy_exception', case, f'engine_def({spelling!r}) as first query on a fresh database: {exc_head(exc)}',
                         exc=type(exc).__name__, where='first_query')
                continue
            for label, ent in (('cold', got), ('warm', again)):
                d = dump_ent(ent)
                if d != ref[name.casefold()]:
                    path, a, bb = diff(ref[name.casefold()], d)[0]
                    acc.fail('lazy_def_differs', case, f'engine_def({spelling!r}) ({label} path) {"/".join(path)}: full load {short(a)} lazy {short(bb)}',
                             field=field_of(path), where='first_query')
                    break
    acc.count('lazy_histories', len(names) * 3)
    fresh_globals()


def run_history_then_full(acc: core.Acc, hist: list, blocks: list) -> None:
    """Lazy queries followed by a full engine_dbase(): the full load must equal a load from fresh."""
    _, ref = shipped()
    fresh_globals()
    case = {'part': 'lazy_full', 'hist': list(hist)}
    try:
        for b in hist:
            EntityDef.engine_def(blocks[b][0])
            acc.count('lazy_transitions')
        full = FGD.engine_dbase()
        acc.count('lazy_transitions')
        db = fgd_mod._ENGINE_DB[0]
        acc.outcome(('state', core.digest(sorted(i for i, (c, data) in enumerate(db.unparsed) if not data))))
        got = {k: dump_ent(e) for k, e in full.entities.items()}
        if got != ref:
            bad_k = [k for k in ref if got.get(k) != ref[k]] + [k for k in got if k not in ref]
            k = bad_k[0]
            dl = diff(ref.get(k), got.get(k)) if k in ref and k in got else [((), ref.get(k) and 'present', got.get(k) and 'present')]
            path, a, bb = dl[0]
            acc.fail('lazy_def_differs', case, f'after {hist}, engine_dbase(): {len(bad_k)} definitions differ, first {k} '
                     f'{"/".join(path)}: fresh full load {short(a)} this load {short(bb)}', field=field_of(path), where='full')
    except Exception as exc:  # noqa: BLE001
        acc.fail('lazy_exception', case, f'after {hist}: {exc_head(exc)}', exc=type(exc).__name__)
    acc.evaluations += 1
    acc.nontrivial += 1
    acc.count('lazy_histories')
    fresh_globals()


def block_deps(blocks: list) -> dict:
    """block -> set of other blocks parsed as a side effect of loading it from fresh (observed on the
    real EngineDB)."""
    shipped()
    deps = {}
    for i, names in enumerate(blocks):
        db = edb.unserialise(io.BytesIO(_SHIP['raw']))
        try:
            db.get_ent(names[0])
        except Exception:  # noqa: BLE001 - reported by the histories themselves (kind lazy_exception)
            pass
        parsed = {j for j, (c, data) in enumerate(db.unparsed) if not data}
        deps[i] = parsed - {i}
    return deps


def clusters_of(deps: dict) -> list:
    adj: dict = {}
    for i, ds in deps.items():
        for j in ds:
            adj.setdefault(i, set()).add(j)
            adj.setdefault(j, set()).add(i)
    seen: set = set()
    out = []
    for i in sorted(adj):
        if i in seen:
            continue
        comp, stack = set(), [i]
        while stack:
            x = stack.pop()
            if x in comp:
                continue
            comp.add(x)
            stack.extend(adj[x] - comp)
        seen |= comp
        out.append(sorted(comp))
    return out


# ---------------------------------------------------------------------------------------------
# shards

def shard(spec) -> core.Acc:
    acc = core.Acc()
    kind = spec[0]
    if kind == 'ship_whole':
        check_ship_whole(acc, spec[1], spec[2])
        acc.sample({'part': 'ship_whole', 'cs': spec[1], 'ls': spec[2]}, 1)
    elif kind == 'ship_ents':
        _, cs, ls, names = spec
        for n in names:
            check_ship_ent(acc, n, cs, ls)
        acc.sample({'part': 'ship_ent', 'cls': names[0], 'cs': cs, 'ls': ls}, 1)
    elif kind == 'gen':
        _, fields, core_only, part, parts = spec
        menu = get_menus()
        n = 0
        for idx, devs in enumerate(enum_devs(menu, fields, core_only)):
            if idx % parts != part:
                continue
            for cs, ls in OPTS:
                check_gen(acc, devs, cs, ls)
            n += 1
        if n:
            acc.sample({'part': 'gen', 'devs': [list(d) for d in devs], 'options': 'all 4'}, 1)
    elif kind == 'bin_gen':
        _, fields, core_only, part, parts = spec
        menu = get_bin_menus()
        n = 0
        for idx, devs in enumerate(enum_devs(menu, fields, core_only)):
            if idx % parts != part:
                continue
            check_bin_gen(acc, devs)
            n += 1
        if n:
            acc.sample({'part': 'bin_gen', 'devs': [list(d) for d in devs]}, 1)
    elif kind == 'bin_ship':
        check_bin_ship(acc)
        acc.sample({'part': 'bin_ship'}, 1)
    elif kind == 'lazy':
        _, hists, deep = spec
        blocks = lazy_blocks()
        for h in hists:
            run_history(acc, h, blocks, deep)
        acc.sample({'part': 'lazy', 'hist': hists[0][:8]}, 1)
    elif kind == 'lazy_full':
        _, hists = spec
        blocks = lazy_blocks()
        for h in hists:
            run_history_then_full(acc, h, blocks)
    elif kind == 'extra_db':
        check_returned_defs_private(acc)
        check_extra_database(acc)
        acc.sample({'part': 'extra_db'}, 1)
    elif kind == 'lazy_name':
        run_first_query(acc, spec[1])
        acc.sample({'part': 'lazy_name', 'names': spec[1][:3]}, 1)
    return acc


def lattice_shards(tag: str, menu: dict, max_depth: int, core_depth: int, per_shard: int) -> list:
    """Full menus up to max_depth fields, core menus for exactly core_depth fields (if larger)."""
    out = []

    def add(fields, core_only):
        n = 1
        for f in fields:
            n *= sum(1 for _, c, _ in menu[f] if c or not core_only)
        if n == 0:
            return
        parts = max(1, -(-n // per_shard))
        for part in range(parts):
            out.append((tag, fields, core_only, part, parts))
    for d in range(0, max_depth + 1):
        for fields in itertools.combinations(sorted(menu), d):
            add(fields, False)
    if core_depth > max_depth:
        for fields in itertools.combinations(sorted(menu), core_depth):
            add(fields, True)
    return out


def lattice_count(menu: dict, shards: list) -> int:
    return sum(1 for s in shards for idx, _ in enumerate(enum_devs(menu, s[1], s[2])) if idx % s[4] == s[3])


def check_load(acc: core.Acc) -> bool:
    """The bundled database must load at all (everything else compares against that load)."""
    acc.evaluations += 1
    try:
        shipped()
    except Exception as exc:  # noqa: BLE001
        _SHIP.clear()
        acc.fail('shipped_load_error', {'part': 'load'}, f'FGD.engine_dbase() on a fresh process state raised {exc_head(exc)}',
                 exc=type(exc).__name__)
        return False
    acc.nontrivial += 1
    return True


def run(ctx: core.Ctx) -> None:
    q = ctx.quick
    if not check_load(ctx.acc):
        ctx.rule = 'the bundled database failed to load; nothing else was explored'
        ctx.acc.caps.append('bundled database failed to load')
        return
    full, dumps = shipped()          # loaded before the fork: every worker inherits it
    blocks = lazy_blocks()
    deps = block_deps(blocks)
    clusters = clusters_of(deps)
    cluster_blocks = sorted({b for c in clusters for b in c})
    nb = len(blocks)

    shards: list = []
    # (E-text 1)
    names = sorted(dumps)
    for cs, ls in OPTS:
        shards.append(('ship_whole', cs, ls))
    # label_spawnflags only changes spawnflags captions; in the bundled database only _CBaseEntity_ has a
    # spawnflags key, so the per-definition runs vary it for that definition alone (the whole-database runs
    # cover all four option pairs anyway).
    for cs in (True, False):
        for chunk in core.chunked(names, 60):
            shards.append(('ship_ents', cs, True, chunk))
        shards.append(('ship_ents', cs, False, [n for n in names if 'has_flags' in ent_features(dumps[n])]))
    # (E-binary) shipped
    shards.append(('bin_ship',))
    shards.append(('extra_db',))
    # (B) lazy loading
    hists: list = [[i] for i in range(nb)]
    if q:
        pairs = [(i, j) for i in range(nb) for j in cluster_blocks] + [(j, i) for i in range(nb) for j in cluster_blocks
                                                                        if i not in cluster_blocks]
    else:
        pairs = [(i, j) for i in range(nb) for j in range(nb)]
    hists += [list(p) for p in pairs]
    for c in clusters:
        for perm in itertools.permutations(c):
            hists.append(list(perm))
    # remove duplicate histories (cluster permutations of size 2 are already pairs)
    uniq, seen_h = [], set()
    for h in hists:
        t = tuple(h)
        if t not in seen_h:
            seen_h.add(t)
            uniq.append(h)
    hists = uniq
    for chunk in core.chunked(hists, 120 if q else 400):
        shards.append(('lazy', chunk, True))
    asc = list(range(nb))
    shards.append(('lazy', [asc], not q))
    shards.append(('lazy', [asc[::-1]], not q))
    full_after = [[b] for b in (cluster_blocks + [0, nb - 1] if q else range(nb))] + [list(c) for c in clusters] + [[]]
    for chunk in core.chunked(full_after, 1 if q else 6):
        shards.append(('lazy_full', chunk))
    all_names = sorted(e.classname for e in shipped()[0].entities.values())
    for chunk in core.chunked(all_names, 60):
        shards.append(('lazy_name', chunk))
    # (E-text 2) and (E-binary) generated
    depth = 2
    core_depth = 2 if q else 3
    gen_shards = lattice_shards('gen', get_menus(), depth, core_depth, 400)
    bin_shards = lattice_shards('bin_gen', get_bin_menus(), depth, core_depth, 60)
    shards += gen_shards + bin_shards

    # big shards first (better packing); the seed only rotates ties
    def weight(s):
        if s[0] in ('ship_whole', 'bin_ship'):
            return 10 ** 9
        if s[0] == 'lazy' and len(s[1]) == 1 and len(s[1][0]) > 50:
            return 10 ** 8
        if s[0] in ('gen', 'bin_gen'):
            menu = get_menus() if s[0] == 'gen' else get_bin_menus()
            n = 1
            for f in s[1]:
                n *= sum(1 for _, c, _ in menu[f] if c or not s[2])
            return n // s[4] * (4 if s[0] == 'gen' else 20)
        if s[0] == 'ship_ents':
            return len(s[3]) * 12
        if s[0] == 'lazy':
            return len(s[1]) * 3
        return 500
    order = sorted(range(len(shards)), key=lambda i: (-weight(shards[i]), (i + ctx.seed) % len(shards)))
    shards = [shards[i] for i in order]
    core.par_map(shard, shards, ctx.acc)

    acc = ctx.acc
    states = sum(1 for o in acc.outcomes if isinstance(o, tuple) and o and o[0] == 'state')
    ctx.coverage_extra['states'] = states
    ctx.coverage_extra['transitions'] = acc.counters.get('lazy_transitions', 0)
    ctx.coverage_extra['traces_validated_against_impl'] = acc.counters.get('lazy_histories', 0)
    ctx.coverage_extra['lazy_blocks'] = nb
    ctx.coverage_extra['lazy_cross_referencing_clusters'] = [list(c) for c in clusters]
    ctx.coverage_extra['lazy_ordered_pairs'] = len(pairs)
    ctx.coverage_extra['shipped_definitions'] = len(dumps)
    gm, bm = get_menus(), get_bin_menus()
    ctx.coverage_extra['text_lattice'] = {f: len(v) for f, v in sorted(gm.items())}
    ctx.coverage_extra['binary_lattice'] = {f: len(v) for f, v in sorted(bm.items())}
    ctx.coverage_extra['generated_text_cases'] = lattice_count(gm, gen_shards) * 4
    ctx.coverage_extra['generated_binary_cases'] = lattice_count(bm, bin_shards)
    ctx.rule = (
        f'(text 1) the whole bundled database ({len(dumps)} definitions) and each definition exported alone with its bases, '
        f'x custom_syntax x label_spawnflags; (text 2) base FGD + every choice of <= {depth} deviating fields out of '
        f'{len(gm)} (every menu value of each field: {sum(len(v) for v in gm.values())} values)'
        + ('' if q else f' + every choice of exactly {core_depth} fields over the reduced (core) menus')
        + f' x the 4 option pairs; (binary) the bundled database and a padded engine-format FGD + <= {depth} deviating fields out of {len(bm)}'
        + ('' if q else f' (+ {core_depth} over core menus)')
        + f'; (lazy) {nb} blocks: every single block, {len(pairs)} ordered pairs '
        + ('(every block x every cluster block, both orders)' if q else '(all)')
        + f', all orders within the {len(clusters)} cross-referencing clusters, ascending and descending full loads, '
        f'lazy queries followed by engine_dbase().  custom_syntax=True: every definition field compared + first-generation '
        f'fixed point; custom_syntax=False: parse-ability + second-generation fixed point only.  Non-trivial = the case '
        f'has at least one deviation (generated) / is a real definition or history (shipped, lazy) and was read back.  '
        f'Each case is enumerated once.')
    ctx.assumptions += [
        'text equivalences: empty display name == key name; boolean default ""/no == 0, yes == 1; I/O types decay per the table in fgd.py',
        'generated text space is restricted to what the syntax can carry: names/classnames/helper arguments are plain identifiers, '
        'tags upper-case, spawnflag/choice captions without newlines (a leading [own value] only with label_spawnflags=True), a spawnflags key has no display name/default/description; '
        'custom_syntax=False cases containing a backslash are skipped (Valve syntax has no backslash escape, srctools\' reader always applies them)',
        'binary format: descriptions, helpers, kv_order and the empty-vs-absent resource list are not stored by documented design; '
        'serialise() asserts >= 512 distinct strings, so generated engine FGDs carry four filler entities; tags/choices on keyvalues are rejected by design',
    ]


# ---------------------------------------------------------------------------------------------

def replay(case: dict) -> list:
    acc = core.Acc()
    part = case['part']
    if part == 'load':
        check_load(acc)
    elif part == 'ship_ent':
        check_ship_ent(acc, case['cls'], case['cs'], case['ls'])
    elif part == 'ship_whole':
        check_ship_whole(acc, case['cs'], case['ls'])
    elif part == 'gen':
        check_gen(acc, case['devs'], case['cs'], case['ls'])
    elif part == 'bin_gen':
        check_bin_gen(acc, case['devs'])
    elif part == 'bin_ship':
        check_bin_ship(acc)
    elif part == 'lazy':
        run_history(acc, case['hist'], lazy_blocks(), True)
    elif part == 'lazy_full':
        run_history_then_full(acc, case['hist'], lazy_blocks())
    elif part == 'private_defs':
        check_returned_defs_private(acc)
        return [f for f in acc.all_failures() if f.case.get('order') == case.get('order')]
    elif part == 'extra_db':
        check_extra_database(acc)
        return [f for f in acc.all_failures() if f.case.get('order') == case.get('order')]
    elif part == 'lazy_name':
        run_first_query(acc, [case['name']])
        return [f for f in acc.all_failures()]
    return acc.all_failures()
